#!/bin/sh
# usage: seedregress.sh [name-glob]  : re-run, for every filed seeded change, the checks recorded as catching it (in a scratch worktree; /repo untouched)
cd /verif
for d in seeded/${1:-*}/; do
  name=$(basename $d)
  wt=$(mktemp -d /var/tmp/seedwt-XXXXXX); rmdir $wt
  git -C /repo worktree add --detach $wt HEAD -q || { echo "$name worktree-failed"; continue; }
  if git -C $wt apply /verif/$d/patch.diff; then
    for c in $(/venv/bin/python -c "import json;print(' '.join(k for k,v in json.load(open('/verif/$d/meta.json'))['detected_by'].items() if v))"); do
      out=$(VERIF_REPO=$wt /verif/check $c 2>/dev/null | tail -1)
      case "$out" in *violation*) echo "$name $c caught";; *) echo "$name $c MISSED: $out";; esac
    done
  else echo "$name patch-does-not-apply"; fi
  git -C /repo worktree remove --force $wt
done
git -C /repo worktree prune
