#!/bin/sh
# usage: seedregress.sh [name-glob]  : re-run, for every filed seeded change, the checks recorded as catching it.
# Works on a snapshot of /verif (so that /verif may be edited meanwhile) and on scratch worktrees of /repo HEAD (/repo untouched);
# the runs write to /var/tmp/verif-alt-out, never to /verif/evidence.
snap=$(mktemp -d /var/tmp/verifsnap-XXXXXX)
rsync -a --exclude .git --exclude evidence --exclude replays /verif/ "$snap"/
cd "$snap" || exit 2
for d in seeded/${1:-*}/; do
  name=$(basename $d)
  wt=$(mktemp -d /var/tmp/seedwt-XXXXXX); rmdir $wt
  git -C /repo worktree add --detach $wt HEAD -q || { echo "$name worktree-failed"; continue; }
  if git -C $wt apply "$snap/$d/patch.diff"; then
    for c in $(/venv/bin/python -c "import json;print(' '.join(k for k,v in json.load(open('$snap/$d/meta.json'))['detected_by'].items() if v))"); do
      out=$(VERIF_REPO=$wt "$snap"/check $c 2>/dev/null | tail -1)
      case "$out" in *violation*) echo "$name $c caught";; *) echo "$name $c MISSED: $out";; esac
    done
  else echo "$name patch-does-not-apply"; fi
  git -C /repo worktree remove --force $wt
done
git -C /repo worktree prune
rm -rf "$snap"
