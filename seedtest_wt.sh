#!/bin/sh
# usage: seedtest_wt.sh <worktree-with-change-applied> <seed-dir> <CHECK...> : confirm a seeded change inside its scratch worktree and run checks against it
wt="$1"; d="$2"; shift 2
git -C "$wt" apply -R "$d/patch.diff" || { echo "cannot revert patch"; exit 2; }
echo "== demo on clean tree"; (cd /tmp && PYTHONPATH="$wt/src" /venv/bin/python "$d/demo.py" >/dev/null 2>&1; echo "rc=$?")
git -C "$wt" apply "$d/patch.diff" || exit 2
echo "== demo on changed tree"; (cd /tmp && PYTHONPATH="$wt/src" /venv/bin/python "$d/demo.py" >/dev/null 2>&1; echo "rc=$?")
echo "== test suite on changed tree"; (cd "$wt" && PYTHONPATH="$wt/src" /venv/bin/python -m pytest -q -p no:cacheprovider 2>&1 | tail -1)
for c in "$@"; do echo "== check $c"; VERIF_REPO="$wt" /verif/check $c 2>/dev/null | grep -v "^VIOLATION\|^KNOWN" | tail -2; done
