"""C06 - operations succeed only with a key suited to the algorithm and operation.

Spec: spec/KeyFit.tla (Suitable + gate order) over spec/JoseDefs.tla.  TLC enumerates every (algorithm, key kind,
private/public, use, key_ops, operation, entry-point path[, sender-key curve]) case, checks the gate sequence against
Suitable and exports the cases.  Binding B1: each case runs on the real library with a pool key of that kind carrying
the declared use/key_ops; consume-side tokens are forged by refimpl - for HMAC algorithms offered an asymmetric
verification key the forged MAC is keyed with that key's *public encoding* (PEM, DER, OpenSSH, JWK JSON).
Also checks the unsafe-symmetric-secret warning for every PEM/OpenSSH encoding of the pool's asymmetric keys.
"""
from __future__ import annotations
import json
import random
import warnings

from .common import Ctx, MachineryError, pmap
from . import joseops as J
from . import refimpl as R
from . import keys as K


def kind_name(kind) -> str:
    if kind["kty"] == "oct": return f"oct{kind['bits']}"
    if kind["kty"] == "RSA": return f"RSA{kind['bits']}"
    return f"{kind['kty']}:{kind['crv']}"


def needed_op(c) -> str:
    if c["side"] == "jws":
        return "sign" if c["op"] == "produce" else "verify"
    a = c["alg"]
    prod = c["op"] == "produce"
    if a.startswith("RSA"): return "encrypt" if prod else "decrypt"
    if a.endswith("GCMKW") or a in ("A128KW", "A192KW", "A256KW"): return "wrapKey" if prod else "unwrapKey"
    if a.startswith("PBES2"): return "deriveKey"
    return ""


ENC_OPS = ["encrypt", "decrypt", "wrapKey", "unwrapKey", "deriveKey", "deriveBits"]


def case_jwk(c) -> dict:
    k = c["key"]
    jwk = K.get(kind_name(k["kind"]))
    if not k["priv"]:
        jwk = R.public_jwk(jwk)
    if k["use"]:
        jwk["use"] = k["use"]
    need = needed_op(c)
    if k["ops"] == "has":
        jwk["key_ops"] = ["sign", "verify"] if c["side"] == "jws" else list(ENC_OPS)
    elif k["ops"] == "empty":
        jwk["key_ops"] = []
    elif k["ops"] == "lacks":
        if c["side"] == "jws":
            jwk["key_ops"] = ["verify"] if need == "sign" else ["sign"]
        else:
            jwk["key_ops"] = [o for o in ENC_OPS if o != need] if need else ["deriveBits"]
    return jwk


def public_encodings(jwk: dict) -> list[bytes]:
    from cryptography.hazmat.primitives import serialization as S
    pk = R.jwk_to_native(R.public_jwk(jwk), False)
    out = [pk.public_bytes(S.Encoding.PEM, S.PublicFormat.SubjectPublicKeyInfo),
           pk.public_bytes(S.Encoding.DER, S.PublicFormat.SubjectPublicKeyInfo),
           R.jdump(R.public_jwk(jwk))]
    try:
        out.append(pk.public_bytes(S.Encoding.OpenSSH, S.PublicFormat.OpenSSH))
    except Exception:  # noqa  (X25519/X448/secp256k1 have no OpenSSH form)
        pass
    return out


def other_curve(kind) -> str:
    if kind["kty"] == "EC": return "EC:P-384" if kind["crv"] == "P-256" else "EC:P-256"
    if kind["kty"] == "OKP": return "OKP:X448" if kind["crv"] == "X25519" else "OKP:X25519"
    return "EC:P-256"


def suits(c) -> bool:
    """may the case's own key material be used to make the consume-side token?"""
    kind = c["key"]["kind"]
    name = kind_name(kind)
    a = c["alg"]
    if c["side"] == "jws":
        want = K.JWS_KEY_KIND[a]
        if a.startswith("HS"): return kind["kty"] == "oct"
        if a == "EdDSA": return name in ("OKP:Ed25519", "OKP:Ed448")
        return name == want or (want.startswith("RSA") and kind["kty"] == "RSA")
    if a.startswith("RSA"): return kind["kty"] == "RSA"
    if a.startswith("ECDH"): return kind["kty"] == "EC" or name in ("OKP:X25519", "OKP:X448")
    if a.startswith("PBES2"): return kind["kty"] == "oct"
    if a == "dir": return name == "oct128"
    return name == K.JWE_KEY_KIND[a]


def run_case(args) -> str:
    c, variant = args
    try:
        jwk = case_jwk(c)
        key = J.fresh_jkey(jwk)
        if variant % 2 == 1:
            # the same key offered inside a (single-key) key set, directly or through a callable: the gates must fire all the same
            from joserfc.jwk import KeySet
            ks = KeySet([key])
            key = ks if variant % 4 == 1 else (lambda obj: ks)
        alg = c["alg"]
        if c["side"] == "jws":
            ser = c["path"]
            hdr = J.jws_header(alg, ser)
            payload = J.jws_payload(ser)
            if c["op"] == "produce":
                return "ok" if J.jws_produce(ser, hdr, payload, key, algorithms=[alg]) else "fail:empty"
            if ser == "jwt":
                hdr = {"typ": "JWT", **hdr}
            base = K.get(kind_name(c["key"]["kind"]))
            if suits(c):
                tok = J.jws_forge(ser, hdr, payload, base)
            elif alg.startswith("HS") and base["kty"] != "oct":
                encs = public_encodings(base)
                tok = J.jws_forge(ser, hdr, payload, {"kty": "oct", "k": R.b64e(encs[variant % len(encs)]).decode()})
            else:
                tok = J.jws_forge(ser, hdr, payload, J.jws_key_for(alg))
            got = J.jws_consume(ser, tok, key, algorithms=[alg])
            return "ok" if got == payload else "fail:content"
        enc = "A128CBC-HS256" if alg.startswith("ECDH-1PU+") else "A128GCM"
        ser = c["path"]
        hdr = J.jwe_header(alg, enc)
        pt = J.PLAINTEXT
        kind = c["key"]["kind"]
        sender_priv = None
        if c["sender"]:
            skind = kind_name(kind) if kind["kty"] in ("EC", "OKP") else "EC:P-256"
            sender_priv = K.get(skind if c["sender"] == "same" else other_curve(kind), 1)
        if c["op"] == "produce":
            tok = J.jwe_produce(ser, hdr, pt, key, sender=J.jkey(sender_priv) if sender_priv else None, algorithms=[alg, enc])
            return "ok" if tok else "fail:empty"
        if suits(c):
            rjwk = K.get(kind_name(kind))
            fs = K.get(kind_name(kind), 1) if c["sender"] else None
        else:
            rjwk = J.jwe_key_for(alg, enc)
            fs = K.get(K.jwe_key_kind(alg, enc), 1) if c["sender"] else None
        tok = J.jwe_forge(ser, hdr, pt, rjwk, fs)
        given = None
        if c["sender"]:
            given = J.jkey(J.pub(fs if c["sender"] == "same" else sender_priv))
        got = J.jwe_consume(ser, tok, key, sender=given, algorithms=[alg, enc])
        return "ok" if got == pt else "fail:content"
    except BaseException as e:  # noqa
        if isinstance(e, (KeyboardInterrupt, SystemExit)):
            raise
        return "fail:" + type(e).__name__


def _init_worker():
    from .common import _pool_init
    _pool_init()
    J.register_drafts({"1pu"})


def sig(c, o) -> str:
    k = c["key"]
    return (f"keyfit:{c['side']}.{c['op']}.{c['path']} alg={c['alg']} key={kind_name(k['kind'])}/{'priv' if k['priv'] else 'pub'}"
            f"/use={k['use'] or '-'}/ops={k['ops']} sender={c['sender'] or '-'} -> {o.split(':')[0]}")


def warning_checks(ctx: Ctx) -> int:
    """importing PEM / OpenSSH formatted key text as an oct key must be flagged with a warning"""
    from cryptography.hazmat.primitives import serialization as S
    from joserfc.jwk import OctKey
    n = 0
    for kindname in ("RSA2048", "EC:P-256", "EC:P-521", "OKP:Ed25519", "OKP:X25519"):
        jwk = K.get(kindname)
        priv = R.jwk_to_native(jwk, True)
        pub = priv.public_key()
        texts = [("pem-pkcs8", priv.private_bytes(S.Encoding.PEM, S.PrivateFormat.PKCS8, S.NoEncryption())),
                 ("pem-spki", pub.public_bytes(S.Encoding.PEM, S.PublicFormat.SubjectPublicKeyInfo))]
        if kindname.startswith(("RSA", "EC:")):
            texts.append(("pem-traditional", priv.private_bytes(S.Encoding.PEM, S.PrivateFormat.TraditionalOpenSSL, S.NoEncryption())))
        if kindname in ("RSA2048", "EC:P-256", "EC:P-521", "OKP:Ed25519"):
            texts.append(("openssh-public", pub.public_bytes(S.Encoding.OpenSSH, S.PublicFormat.OpenSSH)))
            texts.append(("openssh-private", priv.private_bytes(S.Encoding.PEM, S.PrivateFormat.OpenSSH, S.NoEncryption())))
        for name, t in texts:
            for form in (t, t.decode()):
                n += 1
                with warnings.catch_warnings(record=True) as w:
                    warnings.simplefilter("always")
                    try:
                        OctKey.import_key(form)
                        refused = False
                    except Exception:  # noqa
                        refused = True
                if not refused and not w:
                    ctx.violation(f"keyfit:oct-import-no-warning {kindname} {name}", {"kind": kindname, "form": name})
                ctx.nontrivial.add(f"warn:{kindname}:{name}:{type(form).__name__}")
    return n


def run(ctx: Ctx) -> None:
    thorough = ctx.tier == "thorough"
    rnd = random.Random(ctx.seed)
    rs = ctx.tlc_many([("KeyFit", "KeyFit_jws", {"timeout": 900}), ("KeyFit", "KeyFit_jwe", {"timeout": 900})])
    if thorough:
        ctx.tlc_many([("KeyFit", "KeyFit_dev_" + d, {"timeout": 600, "expect_violation": True})
                      for d in ("UseNotChecked", "KeyOpsNotCheckedOnConsume", "SizeAtLeast", "CurveNotChecked", "RsaSizeNotChecked", "PublicKeyDecrypts")])
    cases = []
    for r in rs:
        seen = set()
        for c in r.cases:
            k = json.dumps(c["c"], sort_keys=True)
            if k not in seen:
                seen.add(k); cases.append(c)
    if len(cases) < 40000:
        raise MachineryError(f"case export too small: {len(cases)}")
    total = len(cases)
    if not thorough:
        # quick: "at most two dimensions off a valid baseline" is approximated by a seeded 30% sample + every predicted-ok case
        cases = [c for c in cases if c["predicted"] == "ok" or rnd.random() < 0.3]
    import multiprocessing as mp
    from .common import NCPU
    items = [(c["c"], (ctx.seed + i) % 7) for i, c in enumerate(cases)]
    with mp.get_context("fork").Pool(NCPU, initializer=_init_worker) as pool:
        obs = pool.map(run_case, items, chunksize=100)
    nok = 0
    for c, o in zip(cases, obs):
        ctx.evaluations += 1
        k = o.split(":")[0]
        if k not in c["allowed"]:
            ctx.violation(sig(c["c"], o), {"case": c["c"], "allowed": c["allowed"], "observed": o})
        elif k != c["predicted"]:
            ctx.note_drift({"case": sig(c["c"], o), "predicted": c["predicted"]})
        if k == "ok":
            nok += 1
        ctx.nontrivial.add(json.dumps(c["c"], sort_keys=True))
    from .common import _pool_init
    _pool_init()
    ctx.evaluations += warning_checks(ctx)
    ctx.traces = len(cases)
    ctx.exhaustive = thorough
    ctx.notes.update(abstract_cases_total=total, observed_ok=nok)
    if nok < 500:
        raise MachineryError(f"vacuous run: only {nok} operations succeeded")
    # the declared use holds while another thread builds the key's lazily built JWK view: every one-preemption schedule of
    # (first view of a use=sig key || offering that key for encryption), deterministic scheduler of C20
    from . import c20
    sp = [(k, a, b, 1, ctx.seed, 20 if ctx.tier == "thorough" else 6) for k in ("EC:P-256", "oct256")
          for a, b in (("sigkey_view", "sigkey_misuse"), ("sigkey_misuse", "sigkey_misuse"))]
    for (kind, a, b, na, nb), n, found in pmap(c20.explore, sp, chunksize=1, procs=4):
        ctx.evaluations += n
        ctx.nontrivial.add(f"sched:{kind}:{a}|{b}")
        for pr, pre, first in found[:3]:
            ctx.violation(f"keyfit:threads {a}||{b} [{kind}] -> {pr.split(':', 1)[-1].strip()[:70]}", {"kind": kind, "ops": [a, b], "preempts": pre, "first": first, "problem": pr})
    # B2: every successful call of the repository's own test-suite that was given a single key object was given a suitable one
    # (KeyFit.tla layer D instantiated inside TraceApi.tla and evaluated by TLC on the recorded key)
    from .c05 import trace_api
    trace_api(ctx, "C06")
    ctx.rule = ("TLC enumerates (algorithm x key kind [oct 6 sizes, RSA 1024/2048, EC 4 curves, OKP 4 curves] x private/public x use x key_ops x "
                "operation x entry-point path x sender curve); each case is one behaviour of the gate sequence replayed on the real library; "
                "distinct_nontrivial = distinct cases executed")
    for i in (3, 20011, 33333):
        ctx.sample(cases[i % len(cases)])
    ctx.assumptions = ["Suitable => success is not required here (round-trip properties C03/C04); a refused suitable key is reported as drift",
                       "ECDH and dir with declared key_ops: either verdict (statement does not list them)"]


def replay(ctx: Ctx, rec: dict) -> None:
    _init_worker()
    if "ops" in rec:
        from . import c20
        problems, _ = c20.run_schedule(rec["kind"], rec["ops"], [tuple(p) for p in rec["preempts"]], rec["first"])
        print("ops", rec["ops"], "preempts", rec["preempts"], "-> problems now:", problems)
        if problems:
            ctx.violation(rec["signature"], {"problems": problems})
        return
    o = run_case((rec["case"], 0))
    print(json.dumps(rec["case"]), "allowed", rec.get("allowed"), "observed now:", o)
    if o.split(":")[0] not in rec.get("allowed", []):
        ctx.violation(rec["signature"], {"case": rec["case"], "observed": o})
