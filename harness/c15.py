"""C15 - header parameters are validated when producing and when consuming.

Spec: spec/HeaderCheck.tla over the parameter registry of spec/JoseDefs.tla.  TLC enumerates, per algorithm family,
every (focus parameter x JSON type class x header position x crit shape x strict on/off x caller registration x
operation x serialization) case, checks the code-shaped gate order (layer O) against the declarative acceptance
conditions (layer D) and exports each case with its allowed outcome set.  Binding B1: produce-side cases call joserfc
with the concretised header; consume-side cases are fed tokens forged (validly authenticated) by refimpl so that a
rejection can only come from the header check and an acceptance is real.
"""
from __future__ import annotations
import json
import random

from .common import Ctx, MachineryError, pmap
from . import joseops as J
from . import refimpl as R
from . import keys as K

# a mode of HeaderCheck.tla is a family of algorithms sharing one table of algorithm-specific parameters; every member of the
# family is a row of its own in the code, so the cases of a mode are spread over all of them
FAMILY = {"jws": [(a, None) for a in R.JWS_ALGS if a != "none"], "jws7797": [(a, None) for a in R.JWS_ALGS if a != "none"],
          "kw": [("A128KW", "A128GCM"), ("A192KW", "A192GCM"), ("A256KW", "A256GCM"), ("RSA1_5", "A128CBC-HS256"), ("RSA-OAEP", "A192CBC-HS384"),
                 ("RSA-OAEP-256", "A256CBC-HS512"), ("dir", "A128GCM"), ("dir", "A256CBC-HS512")],
          "gcmkw": [("A128GCMKW", "A128CBC-HS256"), ("A192GCMKW", "A128GCM"), ("A256GCMKW", "A256GCM")],
          "ecdh": [("ECDH-ES", "A128GCM"), ("ECDH-ES+A128KW", "A128GCM"), ("ECDH-ES+A192KW", "A192GCM"), ("ECDH-ES+A256KW", "A128CBC-HS256")],
          "pbes2": [("PBES2-HS256+A128KW", "A128GCM"), ("PBES2-HS384+A192KW", "A128GCM"), ("PBES2-HS512+A256KW", "A256GCM")],
          "1pu": [("ECDH-1PU", "A128GCM"), ("ECDH-1PU+A128KW", "A128CBC-HS256"), ("ECDH-1PU+A192KW", "A192CBC-HS384"), ("ECDH-1PU+A256KW", "A256CBC-HS512")]}
MODES = {m: v[0] for m, v in FAMILY.items()}


def algs_of(case):
    import zlib
    fam = FAMILY[case["mode"]]
    if case.get("rcp", "single") not in ("single", "reused_object"):
        fam = [x for x in fam if x[0] != "dir"]           # direct encryption has one recipient
    k = zlib.crc32(json.dumps([case.get(x) for x in ("mode", "p", "c", "pos", "ser", "crit", "rcp")]).encode())
    return fam[k % len(fam)]
URLP = {"jku", "x5u"}
GENERATED = {"epk", "iv", "tag", "p2s", "p2c"}
KEEP = object()


def value(p: str, c: str, mode: str, algenc=None):
    alg, enc = algenc or MODES[mode]
    if c == "str_ok":
        if p == "alg": return alg
        if p == "enc": return enc
        if p == "zip": return "DEF"
        if p in URLP: return "https://example.com/jwks.json"
        if p in ("iv", "tag", "p2s", "apu", "apv"): return "QUJDREVGR0hJSktMTU5PUA"
        return "value-" + p
    if c == "str_bad":
        return "ftp://example.com/x" if p in URLP else ("NOPE" if p in ("alg", "enc", "zip") else "!! not base64 !!")
    if c == "obj_ok":
        if p == "epk": return R.public_jwk(K.get("EC:P-256", 1))
        if p == "jwk": return {"kty": "oct", "k": "AAAA"}
        return {"a": 1}
    return {"int_pos": 8, "int_zero": 0, "int_neg": -3, "float": 1.5, "true": True, "false": False, "null": None, "list_empty": [],
            "list_str": ["alpha", "beta"], "list_mixed": ["alpha", 1], "list_nested": [["alpha"]], "obj_empty": {}}[c]


def crit_value(shape: str, p: str):
    return {"lists_focus": [p], "lists_missing": ["not-in-header"], "empty": [], "int": 7, "str": p, "mixed": [p, 1], "nested": [[p]]}[shape]


_SHARED: dict = {}


def make_registry(case):
    """fresh registry per case - or, for the reuse pass, ONE registry object per (kind, strict, custom) shared by all cases"""
    if case.get("_reuse"):
        k = ("jws" if case["mode"] == "jws" else "7797" if case["mode"] == "jws7797" else "jwe", case["strict"], case["custom"],
             case.get("rcp", "single").endswith("_any"))
        if k not in _SHARED:
            _SHARED[k] = _make_registry(case, shared=True)
        return _SHARED[k]
    return _make_registry(case)


def _make_registry(case, shared=False):
    from joserfc.registry import HeaderParameter
    mode = case["mode"]
    alg, enc = algs_of(case)
    hr = None
    if case["custom"] == "cty_int":
        hr = {"cty": HeaderParameter("Content Type (numeric here)", "int", False)}      # the caller's entry replaces the standard one
    elif case["custom"] != "none":
        hr = {"custom": HeaderParameter("Custom", "int", case["custom"] == "req")}
    jnames = [a for a, _ in FAMILY["jws"]] if shared else [alg]
    if mode == "jws":
        from joserfc.jws import JWSRegistry
        return JWSRegistry(header_registry=hr, algorithms=jnames, strict_check_header=case["strict"])
    if mode == "jws7797":
        from joserfc.rfc7797 import JWSRegistry as R7797
        return R7797(header_registry=hr, algorithms=jnames, strict_check_header=case["strict"])
    from joserfc.jwe import JWERegistry
    names = [alg, enc, "DEF"]
    if shared:
        names = sorted({x for v in FAMILY.values() for a, e in v if e for x in (a, e)} | {"DEF"})
    return JWERegistry(header_registry=hr, algorithms=names, strict_check_header=case["strict"],
                       verify_all_recipients=not case.get("rcp", "single").endswith("_any"))


def place(case, prot: dict, unprot: dict, rec: dict, consume_generated: bool):
    """put the focus parameter (and crit) into the header dicts"""
    p, c, pos = case["p"], case["c"], case["pos"]
    tgt = {"protected": prot, "unprotected": unprot, "recipient": rec}[pos]
    good = {"epk": "obj_ok", "iv": "str_ok", "tag": "str_ok", "p2s": "str_ok", "p2c": "int_pos"}
    src = next((d for d in (prot, unprot, rec) if p in d), None)
    good_generated = consume_generated and good.get(p) == c and src is not None      # keep the value the forge generated
    if c == "absent":
        for d in (prot, unprot, rec):
            d.pop(p, None)
    elif good_generated:
        v = src.pop(p)
        tgt[p] = v
    else:
        for d in (prot, unprot, rec):
            d.pop(p, None)
        tgt[p] = value(p, c, case["mode"], algs_of(case))
    if p != "crit" and case["crit"] != "absent":
        prot["crit"] = crit_value(case["crit"], p)


def run_case(case) -> str:
    mode, op, ser = case["mode"], case["op"], case["ser"]
    alg, enc = algs_of(case)
    # the process is one in which the draft algorithms have been imported (an application that speaks ECDH-1PU as well):
    # what another algorithm registers for itself is none of this algorithm's business
    import joserfc.drafts.jwe_ecdh_1pu, joserfc.drafts.jwe_chacha20  # noqa
    if mode == "1pu":
        J.register_drafts({"1pu"})
    try:
        reg = make_registry(case)
        if mode in ("jws", "jws7797"):
            jwk = K.get(K.JWS_KEY_KIND[alg])
            prot, unprot, rec = {"alg": alg}, {}, {}
            place(case, prot, unprot, rec, False)
            b64 = prot.get("b64", unprot.get("b64", True)) is not False
            payload = b"unencoded-payload_1" if mode == "jws7797" else b"payload \x00\xff"
            if op == "produce":
                from joserfc import jws, rfc7797
                m = jws if mode == "jws" else rfc7797
                if ser == "compact":
                    out = m.serialize_compact(prot, payload, J.jkey(jwk), registry=reg)
                else:
                    member = {"protected": prot}
                    if unprot:
                        member["header"] = unprot
                    out = m.serialize_json(member if ser == "flattened" or mode == "jws7797" else [member], payload, J.jkey(jwk), registry=reg)
                return "ok" if out else "fail:empty"
            octets = R.jdump(prot)
            if ser == "compact":
                tok = R.jws_compact(octets, payload, alg, jwk, b64=b64)
            elif ser == "flattened":
                tok = R.jws_flattened(octets, unprot or None, payload, alg, jwk, b64=b64)
            else:
                tok = R.jws_general([(octets, unprot or None, alg, jwk)], payload)
            from joserfc import jws, rfc7797
            m = jws if mode == "jws" else rfc7797
            got = (m.deserialize_compact(tok, J.jkey(jwk), registry=reg) if ser == "compact"
                   else m.deserialize_json(tok, J.jkey(jwk), registry=reg)).payload
            return "ok" if got == payload else "fail:content"
        # ---- JWE
        jwk = K.get(K.jwe_key_kind(alg, enc))
        sj = K.get(K.jwe_key_kind(alg, enc), 1) if mode == "1pu" else None
        skw = {"sender_key": J.jkey(sj)} if sj else {}
        dkw = {"sender_key": J.jkey(J.pub(sj))} if sj else {}
        pt = b"plaintext \x00\xff"
        prot = {"alg": alg, "enc": enc}
        if mode == "pbes2":
            prot["p2c"] = 8
        if op == "produce":
            from joserfc import jwe
            unprot, rec = {}, {}
            place(case, prot, unprot, rec, False)
            key = J.jkey(J.pub(jwk))
            if ser == "compact":
                out = jwe.encrypt_compact(prot, pt, key, registry=reg, **skw)
            elif case.get("rcp") == "reused_object":
                # first encryption with a good header (every position present), then the caller edits the object's public header
                # dictionaries in place to this case's header and encrypts again
                cls = jwe.FlattenedJSONEncryption if ser == "flattened" else jwe.GeneralJSONEncryption
                good = {"alg": alg, "enc": enc, **({"p2c": 8} if mode == "pbes2" else {})}
                obj = cls(dict(good), pt, {"cty": "first"})
                obj.add_recipient({"kid": "first"}, key)
                first = jwe.encrypt_json(obj, None, registry=_make_registry({**case, "strict": True, "custom": "none"}), **skw)
                if not first:
                    return "machinery:first encryption failed"
                for d, new in ((obj.protected, prot), (obj.unprotected, unprot), (obj.recipients[0].header, rec)):
                    d.clear()
                    d.update(new)
                out = jwe.encrypt_json(obj, None, registry=reg, **skw)
            else:
                cls = jwe.FlattenedJSONEncryption if ser == "flattened" else jwe.GeneralJSONEncryption
                obj = cls(prot, pt, unprot or None)
                obj.add_recipient(rec or None, key)
                out = jwe.encrypt_json(obj, None, registry=reg, **skw)
            return "ok" if out else "fail:empty"

        rcp = case.get("rcp", "single")

        def mutate(p_, u_, rs_):
            k = 1 if rcp.startswith("second") else 0
            before = dict(p_)
            place(case, p_, u_, rs_[k], True)
            if rcp != "single":     # the other recipient keeps the good base members that moved out of the shared header
                for n, v in before.items():
                    if n not in p_:
                        rs_[1 - k][n] = v
        # two recipients: both usable with the caller's key, algorithm-generated members in the per-recipient headers
        parts = R.jwe_encrypt(prot, pt, [{"jwk": jwk, "where": "protected", "sender": sj}] if rcp == "single" else [{"jwk": jwk, "sender": sj}, {"jwk": jwk, "sender": sj}], mutate=mutate)
        tok = R.jwe_compact(parts) if ser == "compact" else R.jwe_json(parts, flattened=(ser == "flattened"))
        from joserfc import jwe
        got = (jwe.decrypt_compact(tok, J.jkey(jwk), registry=reg, **dkw) if ser == "compact" else jwe.decrypt_json(tok, J.jkey(jwk), registry=reg, **dkw)).plaintext
        return "ok" if got == pt else "fail:content"
    except BaseException as e:  # noqa
        if isinstance(e, (KeyboardInterrupt, SystemExit)):
            raise
        return "fail:" + type(e).__name__


def reuse_pass(cases, seed):
    """history independence of the header check: one registry object is reused for operations of every algorithm family
    (after a good operation of each family has gone through it); every outcome must still be in the set TLC computed"""
    rnd = random.Random(seed)
    by_mode = {}
    for c in cases:
        by_mode.setdefault(c["c"]["mode"], []).append(c)
    # warm up: one fully good produce and consume per family on the shared registries
    for m in MODES:
        good = next(c for c in by_mode[m] if c["allowed"] == ["ok"] and c["c"]["strict"] and c["c"]["custom"] == "none")
        for op in ("produce", "consume"):
            run_case({**good["c"], "op": op, "_reuse": True})
    out = []
    order = [c for m in MODES for c in rnd.sample(by_mode[m], min(len(by_mode[m]), 400)) if c["c"]["custom"] == "none" and c["c"]["strict"]]
    rnd.shuffle(order)
    for c in order:
        o = run_case({**c["c"], "_reuse": True})
        if o.split(":")[0] not in c["allowed"]:
            out.append((c, o))
    return out, len(order)


def sig(case, obs):
    return (f"header:{case['mode']}.{case['op']}.{case['ser']} {case['p']}={case['c']}@{case['pos']} crit={case['crit']} "
            f"strict={case['strict']} custom={case['custom']}{'' if case.get('rcp', 'single') == 'single' else ' rcp=' + case['rcp']} -> {obs.split(':')[0]}")


def run(ctx: Ctx) -> None:
    thorough = ctx.tier == "thorough"
    rnd = random.Random(ctx.seed)
    rs = ctx.tlc_many([("HeaderCheck", "HeaderCheck_" + m, {"timeout": 900}) for m in MODES])
    if thorough:
      ctx.tlc_many([("HeaderCheck", "HeaderCheck_dev_" + d, {"timeout": 600, "expect_violation": True})
                  for d in ("CritNotChecked", "StrictIgnoredOnConsume", "CheckMoreNotPassed", "RequiredCustomIgnored",
                            "B64CritNotRequired", "BoolIsInt", "TypesUncheckedInJson", "StopAtFirstUsable", "StaleHeaderSnapshot", "CallerOverrideIgnored", "ForeignAlgParamsRegistered")], par=10)
    cases = []
    for r in rs:
        seen = set()
        for c in r.cases:
            k = json.dumps(c["c"], sort_keys=True)
            if k not in seen:
                seen.add(k); cases.append(c)
    if len(cases) < 150000:
        raise MachineryError(f"case export too small: {len(cases)}")
    total = len(cases)
    if not thorough:
        # every case whose expected outcome is not plain "fail", plus a seeded quarter of the rest
        cases = [c for c in cases if c["allowed"] != ["fail"] or rnd.random() < 0.25]
    obs = pmap(run_case, [c["c"] for c in cases], chunksize=200)
    for c, o in zip(cases, obs):
        ctx.evaluations += 1
        k = o.split(":")[0]
        if k not in c["allowed"]:
            ctx.violation(sig(c["c"], o), {"case": c["c"], "allowed": c["allowed"], "observed": o})
        if len(c["allowed"]) == 1:
            ctx.nontrivial.add(json.dumps(c["c"], sort_keys=True))
    from .common import _pool_init
    _pool_init()
    bad, nre = reuse_pass(cases, ctx.seed)
    ctx.evaluations += nre
    for c, o in bad:
        ctx.violation("reused-registry " + sig(c["c"], o), {"case": c["c"], "allowed": c["allowed"], "observed": o,
                                                             "history": "one registry object reused across algorithm families"})
    ctx.notes["reuse_pass_cases"] = nre
    # B2: every successful call of the repository's own test-suite (recorded by the API tracer) must satisfy the declarative
    # header rule, evaluated by TLC on the header the call was given (TraceApi.tla, HeaderClause)
    from .c05 import trace_api
    trace_api(ctx, "C15")
    ctx.traces = len(cases)
    ctx.exhaustive = thorough
    ctx.notes["abstract_cases_total"] = total
    ctx.rule = ("TLC enumerates per algorithm family every (focus parameter, JSON type class, position, crit shape, strict, caller registration, "
                "operation, serialization); each case = one behaviour of the gate sequence check_crit -> b64/crit -> registry -> alg-specific -> strict -> "
                "operate, replayed as a real produce call or as a consume call on a refimpl-authenticated token; distinct_nontrivial = distinct cases "
                "whose allowed set is a single outcome (must fail / must succeed)")
    for i in (11, 5003, 40007):
        ctx.sample(cases[i % len(cases)])
    ctx.assumptions = ["well-typed but semantically odd values (zero counts, unknown-but-unregistered parameters under strict off, crit naming standard "
                       "parameters, caller-supplied epk/iv/tag) may fail or succeed: soft cases", "any exception counts as 'fails without output' here; "
                       "exception *types* are C16's concern"]


def replay(ctx: Ctx, rec: dict) -> None:
    from .common import _pool_init
    _pool_init()
    o = run_case(rec["case"])
    print(json.dumps(rec["case"]), "allowed", rec.get("allowed"), "observed now:", o)
    if o.split(":")[0] not in rec.get("allowed", []):
        ctx.violation(rec["signature"], {"case": rec["case"], "observed": o})
