"""C08 - JWE octets on the wire are those of RFC 7516/7518 and the implemented drafts.

Spec: spec/Wire.tla (AAD, AL, CBC-HMAC key split and tag truncation, Concat-KDF OtherInfo and round input, Ze||Zs, PBES2 salt,
compact assembly) evaluated by TLC; refimpl must reproduce TLC's octets on every run (wirecheck.py) and is then the
independent implementation:
 (a) every JWE joserfc produces in the JweRoundTrip.tla scenario space decrypts under refimpl to the same plaintext;
 (b) JWEs produced by refimpl - every alg x enc, zip, three serializations, 1..3 recipients, AAD, apu/apv, protected header
     spelled several ways - decrypt in joserfc;
 (c) the RFC 7520 section 5 and ECDH-1PU draft example tokens decrypt in joserfc and in refimpl.
"""
from __future__ import annotations
import json
import random

from .common import Ctx, MachineryError, VERIF
from . import joseops as J
from . import refimpl as R
from . import keys as K
from . import c04, wirecheck
from .c07 import spellings

LEVEL = "translation_validation"
VEC = VERIF / "harness" / "vectors"
ALL_ALGS = R.JWE_ALGS + R.JWE_1PU


def interop_b(args):
    pairs, seed, nsp = args
    from joserfc import jwe
    names = list(ALL_ALGS) + list(R.ENC) + ["DEF"]
    reg = jwe.JWERegistry(algorithms=names)
    reg_any = jwe.JWERegistry(algorithms=names, verify_all_recipients=False)
    bad, cnt = [], 0
    for (alg, enc, i) in pairs:
        rnd = random.Random(f"{seed}-{alg}-{enc}-{i}")
        rj, sj = c04.keys_for(alg, enc, i)
        pt = bytes(rnd.randrange(256) for _ in range(rnd.choice([0, 1, 15, 16, 17, 100]))) if i % 3 else b"compressible " * 50
        zp = i % 2 == 0
        for ser in ("compact", "flattened", "general"):
            nrec = 1 if ser != "general" or alg in ("dir", "ECDH-ES", "ECDH-1PU") else 1 + (i % 3)
            aad = b"the aad \x00" if (ser != "compact" and i % 2) else None
            prot = {"alg": alg, "enc": enc, "cty": "t/x é"}
            if zp: prot["zip"] = "DEF"
            if alg.startswith("PBES2"):
                # values a peer may choose: the smallest salt input RFC 7518 allows (8 octets) upwards, small and usual counts
                prot["p2c"] = [8, 1, 2, 1000][(i + len(ser)) % 4]
                prot["p2s"] = R.b64e(rnd.randbytes([8, 9, 16, 33][(i // 2 + len(ser)) % 4])).decode()
            if alg.startswith("ECDH") and i % 2:
                prot["apu"] = R.b64e(b"Alice \xff").decode(); prot["apv"] = R.b64e(b"Bob").decode()
            sps = spellings(prot)
            for si in range(nsp):
                spi = (i + si * 3) % len(sps)
                def spell(d, _spi=spi):
                    return spellings(d)[_spi]
                cnt += 1
                try:
                    recs = [{"jwk": rj, "sender": sj, "where": "protected" if ser == "compact" or (nrec == 1 and (i + si) % 2) else "header"} for _ in range(nrec)]
                    unprot = None
                    p2 = dict(prot)
                    if ser != "compact" and "apu" in p2 and (i + si) % 4 < 2:
                        # party info travels in the shared unprotected header: it is part of the JOSE header all the same
                        unprot = {"apu": p2.pop("apu"), "apv": p2.pop("apv")}
                    parts = R.jwe_encrypt(p2, pt, recs, aad=aad, spell=spell, unprotected=unprot)
                    tok = R.jwe_compact(parts) if ser == "compact" else R.jwe_json(parts, flattened=(ser == "flattened"))
                except Exception as e:  # noqa
                    bad.append((alg, enc, ser, spi, "machinery:" + repr(e)[:100], "")); continue
                kw = {"sender_key": J.jkey(J.pub(sj))} if sj else {}
                try:
                    o = jwe.decrypt_compact(J.F(tok), J.jkey(rj), registry=reg, **kw) if ser == "compact" else jwe.decrypt_json(tok, J.jkey(rj), registry=reg, **kw)
                    if o.plaintext != pt:
                        bad.append((alg, enc, ser, spi, "plaintext-differs", ""))
                    elif any(o.protected.get(k) != v for k, v in p2.items()):
                        bad.append((alg, enc, ser, spi, "header-differs", json.dumps(o.protected)[:80]))
                except Exception as e:  # noqa
                    bad.append((alg, enc, ser, spi, "rejected:" + type(e).__name__, str(e)[:80] + " | " + R.b64d(parts["protected"]).decode("utf-8")[:70]))
    return bad, cnt


def rfc_vectors(ctx: Ctx) -> int:
    from joserfc import jwe
    n = 0
    d = json.loads((VEC / "jwe_rfc7520.json").read_text())
    payload = (b"You can trust us to stick with you through thick and thin\xe2\x80\x93to the bitter end. And you can trust us to "
               b"keep any secret of yours\xe2\x80\x93closer than you keep it yourself. But you cannot trust us to let you face trouble "
               b"alone, and go off without a word. We are your friends, Frodo.")      # RFC 7520 section 5 plaintext
    names = list(ALL_ALGS) + list(R.ENC) + ["DEF"]
    reg = jwe.JWERegistry(algorithms=names)
    for t in d["tests"]:
        keyj = json.loads((VEC / t["key"]).read_text())
        for form in ("compact", "general_json", "flattened_json"):
            if form not in t:
                continue
            n += 1
            tok = t[form]
            try:
                o = jwe.decrypt_compact(J.F(tok), J.fresh_jkey(keyj), registry=reg) if form == "compact" else jwe.decrypt_json(tok, J.fresh_jkey(keyj), registry=reg)
                if o.plaintext != payload:
                    ctx.violation(f"jwewire:rfc7520 {t['name']} {form} plaintext differs", {"vector": t["name"]})
            except Exception as e:  # noqa
                ctx.violation(f"jwewire:rfc7520 {t['name']} {form} rejected {type(e).__name__}", {"vector": t["name"], "err": str(e)[:200]})
            core = {k: v for k, v in keyj.items() if k in ("kty", "n", "e", "d", "p", "q", "dp", "dq", "qi", "k", "crv", "x", "y")}
            try:
                _, p2 = R.jwe_decrypt(tok, core)
                if p2 != payload:
                    raise MachineryError(f"refimpl decrypts RFC 7520 {t['name']} to other plaintext")
            except ValueError as e:
                raise MachineryError(f"refimpl cannot decrypt RFC 7520 vector {t['name']} ({form}): {e}")
            ctx.nontrivial.add(f"rfc7520:{t['name']}:{form}")
    d = json.loads((VEC / "jwe_compact_ecdh_1pu.json").read_text())
    alice = json.loads((VEC / "ec-p256-alice.json").read_text()); bob = json.loads((VEC / "ec-p256-bob.json").read_text())
    for t in d["tests"]:
        n += 1
        try:
            o = jwe.decrypt_compact(t["value"], J.fresh_jkey(bob), registry=reg, sender_key=J.fresh_jkey(alice))
            if o.plaintext != d["payload"].encode():
                ctx.violation(f"jwewire:ecdh-1pu {t['name']} plaintext differs", {"vector": t["name"]})
        except Exception as e:  # noqa
            ctx.violation(f"jwewire:ecdh-1pu {t['name']} rejected {type(e).__name__}", {"vector": t["name"], "err": str(e)[:200]})
        try:
            _, p2 = R.jwe_decrypt(t["value"], {k: v for k, v in bob.items() if k in ("kty", "crv", "x", "y", "d")},
                                  {k: v for k, v in alice.items() if k in ("kty", "crv", "x", "y")})
            if p2 != d["payload"].encode():
                raise MachineryError("refimpl decrypts 1PU vector to other plaintext")
        except ValueError as e:
            raise MachineryError(f"refimpl cannot decrypt ECDH-1PU vector {t['name']}: {e}")
        ctx.nontrivial.add("1pu:" + t["name"])
    return n


def run(ctx: Ctx) -> None:
    thorough = ctx.tier == "thorough"
    pts, _ = wirecheck.validate(ctx, 100 if thorough else 12)
    ctx.notes.update(wire_points_tlc_vs_refimpl=pts, programs=14, disagreements_checked=pts)
    c04.execute(ctx, with_ref=True, prop_filter=lambda w: w.startswith("ref-"))
    c04._init()
    from . import reenc
    ctx.evaluations += reenc.run(ctx, "C08")        # tokens produced by re-used / re-encrypted objects, judged by refimpl (JweReuse.tla)
    pairs = []
    i = 0
    for a in ALL_ALGS:
        for e in R.ENC:
            if a.startswith("ECDH-1PU+") and "CBC" not in e:
                continue
            for rep in range(3 if thorough else 1):
                pairs.append((a, e, i)); i += 1
    chunks = [(pairs[k::16], ctx.seed, 8 if thorough else 2) for k in range(16)]
    import multiprocessing as mp
    from .common import NCPU
    with mp.get_context("fork").Pool(NCPU, initializer=c04._init) as pool:
        res = pool.map(interop_b, chunks, chunksize=1)
    for bad, cnt in res:
        ctx.evaluations += cnt
        for alg, enc, ser, spi, what, detail in bad:
            if what.startswith("machinery"):
                raise MachineryError(f"refimpl could not build {alg}/{enc}/{ser}: {what}")
            ctx.violation(f"jwewire:refimpl->joserfc {ser} spelling#{spi} -> {what.split(':')[0]} [{alg} {enc}]",
                          {"alg": alg, "enc": enc, "ser": ser, "spelling": spi, "what": what, "detail": detail})
    for p in pairs:
        ctx.nontrivial.add("b:%s:%s" % p[:2])
    from . import c17
    from .common import pmap
    nd = 2048 if thorough else 512
    for bad, n in pmap(c17.diversity, [(i, nd // 16, ctx.seed) for i in range(0, nd, nd // 16)], chunksize=1):
        ctx.evaluations += n
        for i, ln, what in bad[:3]:
            if what.startswith("independent"):
                ctx.violation("jwewire:zip=DEF diverse large plaintext -> " + what.split(":")[0], {"index": i, "length": ln, "what": what})
    c04._init()
    ctx.evaluations += rfc_vectors(ctx)
    ctx.traces += pts
    ctx.rule = ("Wire.tla layouts evaluated by TLC vs refimpl; joserfc-produced JWEs of the JweRoundTrip scenario space decrypted by refimpl; refimpl-produced "
                "JWEs for every alg x enc (zip, AAD, apu/apv, 1..3 recipients, 3 serializations, header spellings) decrypted by joserfc; RFC 7520 section 5 and "
                "ECDH-1PU vectors; distinct_nontrivial = scenarios + (alg, enc) pairs + vectors")
    ctx.assumptions = ["primitives (AES, RSA, ECDH, PBKDF2, ChaCha20-Poly1305, DEFLATE) are trusted; layouts are validated against TLC on every run"]


def replay(ctx: Ctx, rec: dict) -> None:
    if rec.get("reuse"):
        from . import reenc
        c04._init()
        return reenc.replay(ctx, rec)
    print(json.dumps(rec, indent=1)[:2000])
    print("re-run ./check C08 to re-evaluate (cases are regenerated from the seed)")
