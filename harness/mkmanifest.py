"""Regenerates MANIFEST.json from the table below (python -m harness.mkmanifest)."""
import json
from pathlib import Path

VERIF = Path(__file__).resolve().parent.parent

CHECKS = {
    "C19": dict(
        cat="model_checking", ref="DESIGN.md section 6 (C19), 4.3",
        technique="TLA+ Codec spec: TLC exhaustive state space of octet strings/texts + TLC-evaluated tables compared point-by-point with joserfc.util",
        text="TLC enumerates every octet string of length<=2 and every text of length<=4/5 over representative characters as a state space, "
             "checks the bijection/strictness invariants inside the model, and exports the expected value or verdict of every state; the "
             "real encoder/decoder/integer codecs must agree on every exported point and on harness-chosen points (192 non-alphabet bytes x "
             "positions, lengths mod 4, integers around 256^k up to 2^4096) that TLC evaluates as a calculator.",
        note="Trusted: TLC's evaluation of Codec.tla, CPython base64/binascii as primitives. Beyond the enumerated bounds inputs are sampled."),
    "C10": dict(
        cat="model_checking", ref="DESIGN.md section 6 (C10)",
        technique="TLA+ Claims spec: TLC checks the operational validate() procedure against the declarative acceptance predicate over every case and exports each case; every case replayed into JWTClaimsRegistry",
        text="Claims.tla holds the declarative acceptance predicate (layer D) and the code-shaped decision procedure (layer O). TLC proves O |= D "
             "over ~100k cases (8 claim names x 27 JSON values incl. the now+-leeway boundary ticks x 109 request options x 3 leeways, plus pairs of "
             "claims for error priority) and refutes six named deviations; every exported case is executed against the real registry under several "
             "epochs, int/float spellings and now=None, and its error class must lie in the set TLC computed. ClaimsClasses.tla adds histories over registry objects of different classes in one process (a fresh process per history).",
        note="Trusted: TLC, the concretisation of abstract values (ticks -> epoch seconds). Don't-care corners listed in evidence.assumptions."),
    "C05": dict(
        cat="model_checking", ref="DESIGN.md section 6 (C05)",
        technique="TLA+ AlgRegistry spec over the documented tables (JoseDefs): TLC enumerates all single calls and call histories with draft registrations; behaviours replayed in fresh processes against joserfc",
        text="AlgRegistry.tla models the class-level tables, draft registration and the per-call gate; TLC enumerates every (name, allow-list shape, "
             "algorithms=/registry=, operation, serialization, registered drafts) call, every 2-call history and simulated 4-call histories, checks the gate "
             "against 'exactly the allowed/recommended supported names', 'none never verifies' and history independence, refutes six named deviations, and "
             "exports each behaviour; the harness executes each behaviour in a process whose registered drafts match (fresh process per history) with "
             "refimpl-forged tokens on the consuming side.",
        note="Trusted: TLC, refimpl as token forge, key pool. Quick tier samples a third of the JWE single calls; thorough runs all."),
    "C15": dict(
        cat="model_checking", ref="DESIGN.md section 6 (C15)",
        technique="TLA+ HeaderCheck spec over the JoseDefs parameter registry: TLC enumerates parameter x JSON type x position x crit x strict x registration x op x serialization; cases replayed on joserfc with refimpl-authenticated tokens",
        text="HeaderCheck.tla states the acceptance conditions (required members, registry types, crit, b64/crit, strict/unregistered, caller-registered "
             "parameters) declaratively and as the code's gate sequence; TLC checks the latter against the former over ~155k cases in six algorithm "
             "families and (thorough) refutes seven named deviations. Every case is executed: producing calls get the concretised header, consuming "
             "calls get a token that refimpl authenticated over exactly that header, so a rejection can only come from the header check.",
        note="Trusted: TLC, refimpl forge, value representatives per JSON type class. Quick tier runs all must-succeed/soft cases and a seeded quarter of the must-fail ones."),
    "C06": dict(
        cat="model_checking", ref="DESIGN.md section 6 (C06)",
        technique="TLA+ KeyFit spec (Suitable relation + gate order) over JoseDefs: TLC enumerates alg x key kind x private x use x key_ops x op x path; cases replayed on joserfc incl. MAC-with-public-encoding forgeries",
        text="KeyFit.tla defines Suitable(alg, op, key) from the statement and the order of the code's gates; TLC checks 'ok => Suitable' over ~45k cases "
             "(15 JWS and 21 JWE algorithms x 14 key kinds x private/public x use x key_ops x operation x entry-point path x ECDH-1PU sender curve). Each case "
             "runs against the real library with a pool key of that kind; consume-side tokens come from refimpl, and an HMAC algorithm offered an "
             "asymmetric verifier gets a MAC keyed with that key's PEM/DER/OpenSSH/JWK public encoding. PEM/OpenSSH text imported as oct must warn.",
        note="Trusted: TLC, refimpl, key pool. Suitable => success is left to C03/C04 (reported as drift here)."),
    "C14": dict(
        cat="model_checking", ref="DESIGN.md section 6 (C14)",
        technique="TLA+ KeySel spec of guess_key (kid lookup, single-key shortcut, type-filtered nondeterministic pick, kid write-back): TLC enumerates key sets x kid selectors x positions x serializations; scenarios replayed on joserfc and cross-checked with refimpl",
        text="KeySel.tla models key sets as sequences of typed slots and guess_key as resolve/use steps with the random pick as nondeterminism; TLC "
             "checks 'the key used is the one named by kid / a key of the type the algorithm requires, its kid is written back where the serialization "
             "carries it, unknown kid => invalid-key-id, no kid only for singleton sets' over ~83k scenarios and refutes five deviations. Each scenario runs "
             "on the real library (random picks repeated): the recorded kid must belong to a candidate TLC computed, the token must verify under refimpl with "
             "that key alone and under joserfc with the public key set; consume-side tokens are refimpl forgeries signed by a chosen member of the set. "
             "Every key set is also imported and exported and compared member by member. PickTable.tla walks every row of the table behind the random pick (one row per JWS / JWE algorithm name) over histories of calls, one process per history. KeySetHistory.tla makes the set mutable: histories of lookups by kid, kid-less picks, removals, in-place rotations and appends (invariants ResolvesCurrentSet, PicksFromCurrentSet; deviations MemoisedLookup, FirstKeyFallback, MemoisedPick refuted), every history replayed on one real KeySet object.",
        note="Trusted: TLC, refimpl, key pool. Quick tier runs a seeded quarter of the scenarios, every key-set history with two picks and 2500 of the others."),
    "C01": dict(
        cat="model_checking", ref="DESIGN.md section 6 (C01)",
        technique="TLA+ Dolev-Yao model of JWS verification (Jws.tla): TLC explores all behaviours with <=2 attacker edits x entry point x key; behaviours concretised per algorithm with refimpl tokens and bit-level edits, replayed into joserfc",
        text="Jws.tla has two honest tokens, an attacker who edits header octets, payload text, signatures, unprotected members, the signature list and the "
             "serialization shape, and a verifier shaped like the code (per-entry header check, b64 mode, signature check over the received octets, conclusion). "
             "TLC checks AuthOnly (>=1 signature, all valid over the received octets, returned payload = signed payload, b64=false only when protected) on "
             "every reachable verdict, refutes seven deviations, and exports ~10k behaviours with the intended verdict. Each is executed for 15 algorithm/key "
             "pairs: quick = one concrete edit per abstract edit, thorough = every bit of every decoded segment and every truncation length. Further models bound the same way: JwsInFlight.tla (several parsed tokens in flight), JwsNoProtected.tla (header entirely unprotected), JwsMemberKeys.tla (general JSON: every member verified under the key resolved for that member - key, key set, callables), and signatures made by the right key under a sibling algorithm (S4).",
        note="Trusted: ideal cryptography in the model (unforgeability of primitives), TLC, refimpl. One open known finding (F2, unprotected b64 on rfc7797.deserialize_json)."),
    "C03": dict(
        cat="model_checking", ref="DESIGN.md section 6 (C03)",
        technique="TLA+ JwsRoundTrip life-cycle spec (Sign/Detach/Restore/Verify) model-checked by TLC; every scenario replayed on joserfc for all algorithms with seeded payloads",
        text="JwsRoundTrip.tla enumerates serialization x b64 x header placement x payload class x key|keyset|callable x jwk|pem|der x detach and checks "
             "RoundTrip, KidRecorded and the action property DetachKeeps (four deviations refuted). All 1260 scenarios are executed for 15 algorithm/key pairs with "
             "several concrete payloads per class (empty, binary, non-ASCII, '.', URL-safe, ~2^16) - sign with the private key, verify with the public key in "
             "the same representation, compare payload octets and header members (plus kid) - and ECDSA keys sign hundreds to thousands of times so that r/s "
             "with leading zero octets occur.",
        note="Trusted: TLC, payload generators. Input space is sampled (seeded), not exhausted."),
    "C07": dict(
        cat="translation_validation", ref="DESIGN.md section 6 (C07), 4.3",
        technique="Wire.tla byte layouts evaluated by TLC and compared with refimpl (translation validation), then bidirectional interop joserfc<->refimpl over the JwsRoundTrip scenario space, header spellings and RFC vectors",
        text="The RFC constructions (signing input, compact assembly, fixed-width R||S, JWK encodings, thumbprint input) are TLA+ operators over octets; TLC "
             "evaluates them on seeded inputs and refimpl must match byte for byte on every run. refimpl then acts as the independent implementation: it "
             "verifies every joserfc-signed token of the scenario space from the exported public JWK alone, joserfc verifies refimpl-signed tokens whose "
             "protected header is spelled 8 different ways in 3 serializations with b64 on/off, and the RFC 7520/7797 published tokens verify and are "
             "recomputed exactly where deterministic.",
        note="Trusted: pyca/cryptography primitives, TLC's evaluation of Wire.tla, the reading of the RFCs embodied in Wire.tla."),
    "C02": dict(
        cat="model_checking", ref="DESIGN.md section 6 (C02)",
        technique="TLA+ Dolev-Yao model of JWE decryption (Jwe.tla, ideal AEAD over the received header octets): TLC explores <=2 attacker edits x keys x any-recipient opt-in per key-management shape; behaviours concretised per alg/enc with refimpl tokens and replayed into joserfc",
        text="Jwe.tla models two honest tokens, an attacker editing protected header octets (incl. re-spelling), AAD, IV, ciphertext, tag, encrypted keys, "
             "per-recipient epk/headers and the recipient list, and a decryptor shaped like rfc7516/message.py (IV size, per-recipient CEK recovery with errors "
             "swallowed only when opted out, CEK-set rules, AEAD). TLC checks AuthPlain for four key-management shapes (~94k behaviours), refutes five deviations, "
             "and exports the intended verdicts. Each behaviour is executed for all 21 algorithms (rotating encs; thorough: all pairs, every bit of every segment).",
        note="Trusted: ideal AEAD/key wrap in the model, TLC, refimpl. A reject where the model accepts is drift."),
    "C04": dict(
        cat="model_checking", ref="DESIGN.md section 6 (C04)",
        technique="TLA+ JweRoundTrip spec (Encrypt/Decrypt incl. forbidden combinations) model-checked by TLC; every scenario replayed on joserfc with pool keys over six curves",
        text="JweRoundTrip.tla enumerates 21 alg x 8 enc x zip x serialization x AAD x apu/apv x plaintext class x header placement and ten recipient mixes; "
             "TLC checks RoundTripOrRefused and NothingEmitted (four deviations refuted). The 26.5k scenarios are executed on the library: plaintext and header "
             "members must come back in their positions for every recipient alone and through a key set; direct modes with several recipients and ECDH-1PU key "
             "wrapping with a non-CBC enc must raise the conflict / invalid-encryption-algorithm error at encryption time.",
        note="Trusted: TLC, seeded plaintext generators. Quick tier runs all mixes and a seeded fifth of the single-recipient scenarios."),
    "C08": dict(
        cat="translation_validation", ref="DESIGN.md section 6 (C08), 4.3",
        technique="Wire.tla JWE layouts evaluated by TLC and compared with refimpl (translation validation), then bidirectional interop joserfc<->refimpl over the JweRoundTrip scenario space, header spellings and RFC 7520 / ECDH-1PU vectors",
        text="AAD, AL, CBC-HMAC key split and tag truncation, Concat-KDF OtherInfo and round input, PBES2 salt and compact assembly are TLA+ operators; refimpl must "
             "match TLC's octets on every run, then decrypts every joserfc-produced JWE of the scenario space, and joserfc decrypts refimpl-produced JWEs for "
             "every alg x enc with zip, AAD, apu/apv, 1..3 recipients, three serializations and re-spelled protected headers; published vectors decrypt in both.",
        note="Trusted: primitives, TLC's evaluation of Wire.tla, the reading of the RFCs embodied in Wire.tla."),
    "C09": dict(
        cat="model_checking", ref="DESIGN.md section 6 (C09)",
        technique="TLA+ Jwt spec (Encode/wire/Decode: typ default, untouched caller header, integrity before payload, object-only claims) model-checked by TLC; scenarios replayed on joserfc with generated claim sets and refimpl-forged non-object payloads",
        text="Jwt.tla states six invariants (OnlyObjects, InvalidPayload, IntegrityFirst, Faithful, TypDefault, HeaderUntouched) over transport x typ x key|keyset x "
             "11 payload classes x tampered x library/forged and refutes five deviations. Every scenario runs over 6 JWS and 5 JWE algorithm choices: object "
             "payloads are generated claim sets (unicode, nesting, integers to 10^30, float extremes, aware/naive datetimes) compared as JSON after decode; "
             "arrays, strings, numbers, true/false/null, non-JSON, empty and non-UTF-8 payloads are signed or encrypted by refimpl and must yield the "
             "invalid-payload error; tampered tokens must fail the integrity check first. The key argument of decode (a key or a key set holding it) is modelled separately from that of encode: the header handed back is the one on the wire.",
        note="Trusted: TLC, refimpl, the claim generator. Claim sets are seeded samples."),
    "C17": dict(
        cat="model_checking", ref="DESIGN.md section 6 (C17)",
        technique="TLA+ Deflate spec (streaming inflater with output limit and pending output) model-checked by TLC; final-state classes concretised as authenticated JWEs with real DEFLATE streams around the 256,000 limit, plus bombs under tracemalloc",
        text="Deflate.tla models symbols expanding to 1..W octets and an inflater that may hold output pending when the limit is hit mid-symbol; TLC proves "
             "NeverTooMuch/RoundTrips/Refuses/NoSilentCut for the intended decision rule over all streams up to a bound and refutes 'check only the unconsumed "
             "tail', 'inflate fully then check', an off-by-one limit and a silent cut. Each final-state class is run at the real limit: lengths 0..cap+259, 2*cap "
             "x constant/periodic/random data x raw/zlib framing x encs x serializations as refimpl-authenticated JWEs, and 64 MiB (512 MiB thorough) bombs "
             "whose decryption must raise exceeded-size within a traced-memory bound. DeflateShared.tla states that two decompress calls through the one shared "
             "DEF model each decide as in isolation (refuting inflater state kept on the model); the line-granular scheduler runs pairs of zip decryptions "
             "within and beyond the limit under every one-preemption schedule. ZipHistory.tla adds histories of one consumer (tokens with byte-identical headers, caller edits of returned header objects in between; a fresh process per history); every content encryption and key-management algorithm meets the limit from both sides.",
        note="Trusted: TLC, zlib as primitive, tracemalloc as memory observer (Python allocations only)."),
    "C16": dict(
        cat="model_checking", ref="DESIGN.md section 6 (C16)",
        technique="TLA+ Parse exception-flow spec (entry point x slot x content class -> stage, native exception, guard) model-checked by TLC; every case concretised as a refimpl-authenticated token and fed to joserfc; seeded mutation fuzzing on top",
        text="Parse.tla models each consuming entry point as a pipeline of stages whose primitives have domains; a case puts attacker content of some class "
             "into one slot (header JSON type, 20 header members x 19 JSON classes x positions, epk sub-members, every segment x 7 text classes, shapes, "
             "authenticated-but-malformed DEFLATE/claims). TLC checks NoEscape for the guarded design and refutes nine 'guard removed' deviations (the nine "
             "escapes found on the original tree). All ~5.6k cases are built as tokens that refimpl authenticated over the malformed content, so late "
             "stages are reached, and run through the ten real entry points; an exception that is neither JoseError nor ValueError is a violation "
             "identified by (type, innermost joserfc function). Byte/JSON mutation fuzzing of valid tokens adds 24k (quick) to 320k (thorough) inputs.",
        note="Trusted: TLC, refimpl. Inputs beyond the modelled slots are sampled by fuzzing only; interpreter resource limits other than JSON nesting are not decided."),
    "C11": dict(
        cat="model_checking", ref="DESIGN.md section 6 (C11)",
        technique="TLA+ Jwk spec (lineages of export/import steps) and JwkImport refusal table over JoseDefs, model-checked by TLC; chains replayed on pool keys (incl. leading-zero EC keys) with refimpl-computed RFC-conformant encodings as oracle",
        text="Jwk.tla models a key as (material, private?, origin, kid, optional members) and export/import in JWK/PEM/DER with private=True/False/None and "
             "passwords as transitions; TLC checks NoPrivateGain, PrivateKept, KidStable, PublicClean, PrivateOnPublicIsError over ~355k three-step chains and "
             "refutes five deviations. Sampled chains are replayed on real keys: after each step the object is projected back (private flag, public and private "
             "numbers, kid) and its JWK view must equal the RFC 7518/8037 encoding refimpl computes from the numbers (fixed-length EC coordinates, minimal RSA "
             "integers); first and last object must interoperate. JwkImport.tla's 803-case table of malformed JWKs is imported case by case.",
        note="Trusted: TLC, refimpl (layouts validated against Wire.tla), pyca/cryptography key loading. Chains are a seeded sample per run."),
    "C12": dict(
        cat="model_checking", ref="DESIGN.md section 6 (C12)",
        technique="information-flow labels in Jwk.tla (PublicClean, PrivateOnPublicIsError) model-checked by TLC; every public output along replayed chains and every produced JWS/JWE serialization scanned for the key's private parameters",
        text="Each output in Jwk.tla carries whether it depends on private atoms; TLC checks that public JWKs, public key-set exports, public PEM/DER, thumbprints "
             "and kids never do and that a private export of a public-only key is an error. On the real code each such output is scanned for every private "
             "parameter of the key as member name and as octets in raw, hex, decimal, base64 and base64url form at three alignments; tokens of all 15 JWS and 21 "
             "JWE algorithms (compact and JSON, epk included) are scanned as well. JwkHeap.tla follows which dictionary object holds which private member "
             "when two keys are built over caller-owned parameter dictionaries (build / first use / public export / key-set export histories, refuting a view "
             "built inside the caller's dictionary); its behaviours are replayed on real keys with the predicted leaked-member set compared at every export. JweReuse.tla histories (an encryption object encrypted again, an ephemeral key pinned by the caller) are replayed too: the epk of every produced token carries public members only.",
        note="Trusted: the scanner's encodings; parameters shorter than 8 octets are not searched. Timing/error-message leakage not decided."),
    "C13": dict(
        cat="model_checking", ref="DESIGN.md section 6 (C13)",
        technique="ThumbprintInput of Wire.tla evaluated by TLC and matched by refimpl; kid rules of Jwk.tla model-checked; thumbprint and kid compared with refimpl after every step of replayed chains and across representations",
        text="The RFC 7638 hash input is a TLA+ operator that TLC evaluates on seeded JWKs and refimpl must reproduce; Jwk.tla's KidStable fixes 'absent => "
             "thumbprint, present => never overwritten, kid travels with the JWK form'. On the real code the thumbprint and kid are compared with refimpl's value "
             "(computed from the key's numbers) after each step of every replayed chain, and per key kind across private/public JWK, shuffled members with "
             "optional members, PEM and DER origins, repeated ensure_kid/as_dict calls and the sha384/sha512 digests.",
        note="Trusted: TLC, hashlib, refimpl. The RFC 7638 3.1 example key is not available offline."),
    "C18": dict(
        cat="model_checking", ref="DESIGN.md section 6 (C18), 4.2",
        technique="TLA+ Fresh spec (Draw enabled only for never-drawn values of the required size; bit accumulators) with trace validation: histories of real encryptions/key generations recorded from outputs and checked by TLC against TraceFresh.tla",
        text="Fresh.tla specifies the generator discipline; MC_Fresh is model-checked exhaustively. Drivers run N encryptions per (alg, enc, serialization) with "
             "the same key and equal header values in fresh header objects, spread over four fresh processes, and N key generations per key type; IV, CEK "
             "(recovered independently with refimpl), epk, GCM-KW iv and PBES2 p2s/p2c are read from the outputs and become trace events. TLC validates every "
             "trace step by step against the spec's Draw action (distinctness, exact size per JoseDefs, epk on the recipient's curve, default p2c >= 1000) and "
             "checks at the end of each trace that no bit position was constant; corrupted copies of a trace must be rejected (binding demonstration).",
        note="Trusted: TLC, refimpl for CEK recovery. Unpredictability is not decided (a non-repeating non-cryptographic generator passes)."),
    "C20": dict(
        cat="model_checking", ref="DESIGN.md section 6 (C20)",
        technique="TLA+ Shared spec (threads x operations on a shared key at access granularity) model-checked by TLC; deterministic line-granular scheduler explores one- and two-preemption schedules of operation pairs on the real code; TLC-simulated call histories vs isolation; stress",
        text="Shared.tla decomposes ensure_kid / view building / kid reads / view iteration at their shared accesses; TLC verifies KidNeverLost, ReadersSeeKid "
             "and NoFailure for 3 threads over all interleavings and refutes the rebind-the-view and iterate-the-shared-dict designs with counterexample "
             "schedules. On the real code a deterministic scheduler (sys.settrace, one runnable thread, baton passing at source lines inside joserfc) runs "
             "every pair of 15 operations on fresh shared objects under every one-preemption schedule (every line for pairs of cryptographic operations) plus "
             "sampled two-preemption schedules; each call is compared with isolation, produced tokens are verified/decrypted by refimpl, IVs must differ and an "
             "observed kid must stay. Recorded executions (projection of the real key object after every source line: which dict object the view is bound to, "
             "filled?, kid?) are validated by TLC against Shared.tla (TraceShared.tla; a trace that rebinds the view is shown to be rejected). SharedSeq.tla histories are executed against fresh clones; 16-32 thread stress runs at a 1 microsecond switch interval. PickTable.tla histories check that class-level tables serve the second call of a process as they serve the first.",
        note="Trusted: TLC, CPython's GIL semantics at line granularity, refimpl. Bytecode-level and C-level races are not decided."),
}

NOT_YET = {}


def main():
    checks = []
    for pid, c in sorted(CHECKS.items()):
        checks.append({
            "property_id": pid,
            "quick_cmd": f"./check {pid} --tier quick",
            "thorough_cmd": f"./check {pid} --tier thorough",
            "evidence_file": f"/verif/evidence/{pid}.json",
            "replay_cmd_template": f"./check {pid} --replay {{path}}",
            "engine": "tlc+harness",
            "level_claimed": {"category": c["cat"], "text": c["text"], "design_ref": c["ref"]},
            "level_note": c["note"],
            "technique": c["technique"],
        })
    props = [json.loads(l)["id"] for l in (VERIF / "properties.jsonl").read_text().splitlines() if l.strip()]
    na = [{"property_id": p, "reason": NOT_YET.get(p, "check not built yet in this revision (work in progress; see DESIGN.md section 13)")}
          for p in props if p not in CHECKS]
    m = {
        "version": 1,
        "setup_cmd": "./setup.sh",
        "hooks": {
            "guard": "JOSERFC_VERIF",
            "enable": "no in-repo hooks: the harness imports joserfc from /repo/src (working tree) and instruments it from outside "
                      "(function wrapping, __class__ substitution, sys.settrace) when JOSERFC_VERIF=1",
            "baseline_off_cmd": "./baseline.sh",
            "source_commits": [],
            "add_only": True,
        },
        "engines": [
            {"name": "tlc+harness", "path": "/verif/check", "serves_properties": sorted(CHECKS),
             "kind_free_text": "TLA+ specifications in /verif/spec model-checked by TLC; behaviours/cases exported by TLC are replayed "
                               "into the real code and traces of the real code are validated by TLC trace specs (harness/*.py)"},
        ],
        "checks": checks,
        "not_applicable": na,
        "notes": "Exit 2 = machinery failure (never a VIOLATION). VERIF_SEED seeds TLC and the harness. Known findings: known_findings.json.",
    }
    (VERIF / "MANIFEST.json").write_text(json.dumps(m, indent=1) + "\n")


if __name__ == "__main__":
    main()
