"""C03 - JWS sign-then-verify round trip for every algorithm and serialization.

Spec: spec/JwsRoundTrip.tla (Sign -> [Detach -> Restore] -> Verify over serialization x b64 x header placement x payload
class x key argument x key representation; invariants RoundTrip, KidRecorded, action property DetachKeeps).
Binding B1: every exported scenario is executed for all 15 algorithm/key pairs with several concrete payloads per
class; the produced token must verify with the corresponding *public* key and yield exactly the payload octets and
header members (plus the kid of the key picked from a key set); detaching must leave header and signature untouched.
ECDSA is additionally signed many times per key so that signatures whose r or s has leading zero octets occur.
"""
from __future__ import annotations
import json
import random
import string

from .common import Ctx, MachineryError, scribble
from . import joseops as J
from . import refimpl as R
from . import keys as K
from .c01 import ALGS


def payloads(pc: str, rnd: random.Random, k: int) -> list[bytes]:
    out = []
    for i in range(k):
        n = rnd.choice([1, 2, 3, 15, 16, 17, 31, 32, 33, 64, 100, 255, 256, 300])
        if pc == "empty": out.append(b""); break
        elif pc == "ascii": out.append("".join(rnd.choice(string.ascii_letters + string.digits + " !\"#$%&'()*+,/:;<=>?@[\\]^`{|}") for _ in range(n)).encode())
        elif pc == "urlsafe": out.append("".join(rnd.choice(string.ascii_letters + string.digits + "-_~") for _ in range(n)).encode())
        elif pc == "dot": out.append(("a.b" + "".join(rnd.choice("abc.-_~.") for _ in range(n)) + ".").encode())
        elif pc == "binary": out.append(bytes([0, 255, 128]) + bytes(rnd.randrange(256) for _ in range(n)) + b"\xfe\x00")
        elif pc == "utf8": out.append(("é中\U0001f600 " + "".join(rnd.choice("äöüßñ漢字кириллица ") for _ in range(n))).encode("utf-8"))
        elif pc == "large":
            out.append(("x" * rnd.choice([65535, 65536, 65537])).encode()); break
    return out


_KO: dict = {}


def key_objects(alg: str, kind: str, form: str):
    k = (kind, form)
    if k not in _KO:
        _KO[k] = _key_objects(alg, kind, form)
    return _KO[k]


def _key_objects(alg: str, kind: str, form: str):
    """-> (private key object, public key object) loaded from the given representation"""
    from joserfc.jwk import JWKRegistry, OctKey
    from cryptography.hazmat.primitives import serialization as S
    jwk = K.get(kind)
    if jwk["kty"] == "oct":
        if form == "jwk":
            return J.fresh_jkey(jwk), J.fresh_jkey(jwk)
        raw = R.b64d(jwk["k"])
        return OctKey.import_key(raw), OctKey.import_key(raw)
    if form == "jwk":
        return J.fresh_jkey(jwk), J.fresh_jkey(R.public_jwk(jwk))
    priv = R.jwk_to_native(jwk, True)
    enc = S.Encoding.PEM if form == "pem" else S.Encoding.DER
    pb = priv.private_bytes(enc, S.PrivateFormat.PKCS8, S.NoEncryption())
    qb = priv.public_key().public_bytes(enc, S.PublicFormat.SubjectPublicKeyInfo)
    # keys loaded from PEM carry a kid the application chose (not the thumbprint); DER and JWK ones get thumbprint kids in a set
    params = {"kid": "app-kid/" + kind} if form == "pem" else None
    return JWKRegistry.import_key(pb, jwk["kty"], params and dict(params)), JWKRegistry.import_key(qb, jwk["kty"], params and dict(params))


def wrap_key(keyarg: str, key, other):
    from joserfc.jwk import KeySet
    if keyarg == "key":
        return key
    ks = KeySet([key, other]) if other is not None and other.key_type != key.key_type else KeySet([key])
    return ks if keyarg == "keyset" else (lambda obj: ks)


def headers_for(sc, alg):
    base = {"alg": alg, "cty": "t/x \u00e9\u4e2d", "x5t": "dGh1bWI"}
    b = {}
    if sc["b64"] != "absent":
        b = {"b64": sc["b64"] == "true", "crit": ["b64"]}
    if sc["place"] == "protected":
        return {**base, **b}, None
    if sc["place"] == "split":
        return {"alg": alg, "typ": "typ \u00fc", **b}, {"cty": "t/x \u00e9\u4e2d", "x5t": "dGh1bWI"}
    if sc["place"] == "unprotected_empty":
        return {}, base
    return None, base


def _one_impl(sc, alg, kind, payload: bytes, with_ref: bool):
    """-> list of (what, detail)"""
    from joserfc import jws, rfc7797
    fails = []
    try:
        priv, pub = key_objects(alg, kind, sc["keyform"])
    except Exception as e:  # noqa
        return [("key-load:" + type(e).__name__, str(e)[:100])]
    other = J.jkey(K.get("oct512" if K.get(kind)["kty"] != "oct" else "OKP:Ed25519"))
    prot, unprot = headers_for(sc, alg)
    prot0, unprot0 = json.loads(json.dumps(prot)), json.loads(json.dumps(unprot))
    mod = jws if sc["b64"] == "absent" else rfc7797
    ser = sc["ser"]
    raw = sc["b64"] == "false"
    soft = sc["expect"] != "exact"
    try:
        skey = wrap_key(sc["keyarg"], priv, other)
        if ser == "compact":
            tok = mod.serialize_compact(prot, payload, skey, algorithms=[alg])
        else:
            m = {}
            if prot is not None: m["protected"] = prot
            if unprot is not None: m["header"] = unprot
            arg = m if ser == "flattened" else [m]
            tok = mod.serialize_json(arg, payload.decode("utf-8") if raw else payload, skey, algorithms=[alg])
    except Exception as e:  # noqa
        return [] if soft else [("sign-raised:" + type(e).__name__, str(e)[:100])]
    if with_ref and not soft:
        # C07 (a): an independent implementation given only the exported public JWK verifies the produced token
        # (judged on its own, whatever joserfc's own verification below says)
        try:
            pj = pub.as_dict(private=False) if K.get(kind)["kty"] != "oct" else pub.as_dict()
            if ser == "compact":
                if raw and len(tok.split(".")) == 3 and tok.split(".")[1] == "":
                    hdr, body = R.jws_verify_compact(tok, pj, payload)
                else:
                    hdr, body = R.jws_verify_compact(tok, pj)
            else:
                hdrs, body = R.jws_verify_json(tok, [pj])
            if body != payload:
                fails.append(("ref-payload-differs", repr(body)[:60]))
        except Exception as e:  # noqa
            fails.append(("ref-verify-failed:" + type(e).__name__, str(e)[:100]))
    # detach / restore
    tok_v = tok
    if sc["detach"]:
        try:
            det = jws.detach_content(tok)
            if ser == "compact":
                a, b_, c = tok.split("."); a2, b2, c2 = det.split(".")
                if (a2, c2) != (a, c) or b2 != "":
                    fails.append(("detach-altered", det[:60]))
                tok_v = ".".join([a2, b_, c2])
            else:
                if "payload" in det: fails.append(("detach-kept-payload", ""))
                if {k: v for k, v in tok.items() if k != "payload"} != det:
                    fails.append(("detach-altered", json.dumps(det)[:80]))
                tok_v = {"payload": tok["payload"], **det}
        except Exception as e:  # noqa
            fails.append(("detach-raised:" + type(e).__name__, str(e)[:80]))
    # verify with the public key
    kid_expected = None
    try:
        vkey = wrap_key(sc["keyarg"], pub, other)
        if ser == "compact":
            detached = raw and tok_v.split(".")[1] == "" and payload != b""
            if mod is rfc7797:
                o = mod.deserialize_compact(J.F(tok_v), vkey, payload if detached else None, algorithms=[alg])
            else:
                o = mod.deserialize_compact(J.F(tok_v), vkey, algorithms=[alg])
            got_payload, got_prot, got_unprot = o.payload, o.protected, None
        else:
            o = mod.deserialize_json(tok_v, vkey, algorithms=[alg])
            mem = o.members[0]
            got_payload, got_prot, got_unprot = o.payload, mem.protected, mem.header
    except Exception as e:  # noqa
        return fails + ([] if soft else [("verify-raised:" + type(e).__name__, str(e)[:100])])
    if got_payload != payload:
        fails.append(("payload-differs", repr(got_payload)[:60]))
    # what was returned belongs to the caller: editing it must not change a later verification of the same token
    try:
        if isinstance(got_prot, dict):
            got_prot_copy = json.loads(json.dumps(got_prot)); got_prot["injected"] = 1; got_prot.pop("alg", None); scribble(got_prot)
        else:
            got_prot_copy = got_prot
        if ser == "compact":
            o2 = mod.deserialize_compact(tok_v, vkey, payload if (mod is rfc7797 and detached) else None, algorithms=[alg]) if mod is rfc7797 \
                else mod.deserialize_compact(tok_v, vkey, algorithms=[alg])
            again = o2.protected
        else:
            again = mod.deserialize_json(tok_v, vkey, algorithms=[alg]).members[0].protected
        if (again or None) != (got_prot_copy or None):
            fails.append(("second-verification-differs-after-caller-edited-first-result", json.dumps(again)[:80]))
        got_prot = got_prot_copy
    except Exception as e:  # noqa
        fails.append(("second-verification-raised-after-caller-edited-first-result:" + type(e).__name__, str(e)[:80]))
        got_prot = got_prot_copy
    if sc["keyarg"] != "key":
        kid_expected = priv.kid
        if kid_expected is None:
            fails.append(("no-kid-on-key", ""))
    exp_prot, exp_unprot = prot0, unprot0
    if kid_expected is not None:
        if ser == "compact":
            exp_prot = {**prot0, "kid": kid_expected}
        else:
            exp_unprot = {**(unprot0 or {}), "kid": kid_expected}
    if (got_prot or None) != (exp_prot or None):
        fails.append(("protected-differs", json.dumps(got_prot)[:100]))
    if (got_unprot or None) != (exp_unprot or None):
        fails.append(("unprotected-differs", json.dumps(got_unprot)[:100]))
    return fails


def run_batch(args):
    (alg, kind), scs, k, seed, with_ref = args
    rnd = random.Random(f"{seed}-{alg}-{kind}")
    out = []
    n = 0
    for si, sc in enumerate(scs):
        for p in payloads(sc["sc"]["pc"], rnd, k):
            n += 1
            s = {**sc["sc"], "expect": sc["expect"]}
            for what, detail in one(s, alg, kind, p, with_ref):
                out.append((si, what, detail, p.hex()[:80]))
    return out, n


def ecdsa_many(args):
    """sign many times with one key; every signature must verify; count r/s with leading zero octets"""
    (alg, kind), n, with_ref = args
    from joserfc import jws
    jwk = K.get(kind)
    priv, pub = J.fresh_jkey(jwk), J.fresh_jkey(R.public_jwk(jwk))
    size = R.EC_CURVES[jwk["crv"]][1]
    lz = 0
    bad = []
    for i in range(n):
        try:
            tok = jws.serialize_compact({"alg": alg}, b"m%d" % i, priv, algorithms=[alg])
        except Exception as e:  # noqa
            bad.append(("sign-raised", type(e).__name__))
            if len(bad) > 20:
                break
            continue
        sig = R.b64d(tok.split(".")[2])
        if len(sig) != 2 * size:
            bad.append(("sig-length", len(sig)))
        if sig[0] == 0 or sig[size] == 0:
            lz += 1
        try:
            jws.deserialize_compact(tok, pub, algorithms=[alg])
            if with_ref:
                R.jws_verify_compact(tok, R.public_jwk(jwk))
        except Exception as e:  # noqa
            bad.append(("verify-failed", type(e).__name__, sig.hex()[:20]))
    return alg, lz, bad


def sig(sc, what):
    s = sc["sc"]
    return (f"jwsrt:{s['ser']} b64={s['b64']} place={s['place']} payload={s['pc']} key={s['keyarg']}/{s['keyform']} "
            f"detach={s['detach']} -> {what}")


def execute(ctx: Ctx, with_ref: bool, prop_filter=None) -> None:
    thorough = ctx.tier == "thorough"
    r = ctx.tlc("JwsRoundTrip", timeout=600)
    if thorough:
        for d in ("DetachDropsSignature", "KidNotWritten", "RawPayloadEncoded", "UnsafeAttached", "EmptyProtectedSigned"):
            ctx.sensitivity("JwsRoundTrip", "JwsRoundTrip_dev_" + d)
    scs = list({json.dumps(c, sort_keys=True): c for c in r.cases}.values())
    if len(scs) < 1000:
        raise MachineryError(f"scenario export too small {len(scs)}")
    import multiprocessing as mp
    from .common import NCPU, _pool_init
    k = 12 if thorough else 3
    tasks = [(ak, scs, k, ctx.seed, with_ref) for ak in ALGS]
    ec = [((a, kd), 4000 if thorough else 400, with_ref) for a, kd in ALGS if a.startswith("ES")]
    with mp.get_context("fork").Pool(min(NCPU, len(tasks) + len(ec)), initializer=_pool_init) as pool:
        ec_async = pool.map_async(ecdsa_many, ec, chunksize=1)
        res = pool.map(run_batch, tasks, chunksize=1)
        ec_res = ec_async.get()
    for (ak, *_), (findings, n) in zip(tasks, res):
        ctx.evaluations += n
        for si, what, detail, phex in findings:
            if prop_filter and not prop_filter(what):
                continue
            ctx.violation(sig(scs[si], what.split(":")[0]) + f" [{ak[0]}]", {"scenario": scs[si], "alg": ak[0], "key_kind": ak[1],
                                                                            "what": what, "detail": detail, "payload_hex": phex})
    lzs = {}
    for alg, lz, bad in ec_res:
        lzs[alg] = lz
        ctx.evaluations += ec[0][1]
        for b in bad:
            if prop_filter and not prop_filter(b[0]):
                continue
            ctx.violation(f"jwsrt:ecdsa-repeat {alg} -> {b[0]}", {"alg": alg, "detail": b})
    for sc in scs:
        ctx.nontrivial.add(json.dumps(sc["sc"], sort_keys=True))
    ctx.traces = len(scs) * len(ALGS)
    ctx.exhaustive = False
    ctx.notes.update(abstract_scenarios=len(scs), ecdsa_signatures_with_leading_zero_r_or_s=lzs, payloads_per_class=k)
    ctx.sample(scs[3]); ctx.sample(scs[600]); ctx.sample(scs[1100])



def one(sc, alg, kind, payload: bytes, with_ref: bool):
    from .common import from_library
    try:
        return _one_impl(sc, alg, kind, payload, with_ref)
    except Exception as e:  # noqa
        where = from_library(e)
        if where is None:
            raise
        return [("library-raised:" + where.split("@")[0], where)]

def run(ctx: Ctx) -> None:
    execute(ctx, with_ref=False, prop_filter=lambda w: not w.startswith("ref-"))
    ctx.rule = ("every scenario of JwsRoundTrip.tla (3 serializations x b64 absent/true/false x 3 header placements x 7 payload classes x key|keyset|callable x "
                "jwk|pem|der x detach) for 15 algorithm/key pairs with seeded concrete payloads per class (lengths 0..300 and around 2^16), plus repeated "
                "ECDSA signing per curve; distinct_nontrivial = distinct abstract scenarios")
    ctx.assumptions = ["unrepresentable combinations (binary payload with b64=false in JSON): refuse or round-trip exactly, never different content"]


def replay(ctx: Ctx, rec: dict) -> None:
    from .common import _pool_init
    _pool_init()
    sc = {**rec["scenario"]["sc"], "expect": rec["scenario"]["expect"]}
    f = one(sc, rec["alg"], rec["key_kind"], bytes.fromhex(rec["payload_hex"]), True)
    print(json.dumps(sc), rec["alg"], "observed now:", f)
    if f:
        ctx.violation(rec["signature"], {"scenario": rec["scenario"], "detail": f})
