"""C17 - decompression of JWE plaintext is bounded.

Spec: spec/Deflate.tla (streaming inflater with an output limit: symbols expanding to 1..W octets, output pending inside
the inflater when the limit is hit mid-symbol; wrapper decision).  TLC checks NeverTooMuch / RoundTrips / Refuses /
NoSilentCut on every stream up to a bound and refutes four deviations - TailOnly is exactly the "check only
unconsumed_tail" design.  Binding B1: every abstract final state class (within the limit; over the limit with output
only pending; over the limit with unread input) is concretised as authenticated JWEs with real DEFLATE streams around
the 256,000 octet limit (constant / periodic / random data, raw and zlib-header streams, several encs and all three
serializations), plus decompression bombs under tracemalloc.
"""
from __future__ import annotations
import json
import os
import random
import tracemalloc
import zlib

from .common import Ctx, MachineryError
from . import joseops as J
from . import refimpl as R
from . import keys as K

CAP = 256000


def data_of(cls: str, n: int, rnd: random.Random) -> bytes:
    if cls == "constant": return b"A" * n
    if cls == "periodic": return (b"abc123XYZ" * (n // 9 + 1))[:n]
    if cls == "text": return (b"The quick brown fox jumps over the lazy dog. " * (n // 45 + 1))[:n]
    return rnd.randbytes(n)


def forge(pt_stream: bytes, enc: str, ser: str):
    """authenticated JWE whose (already compressed) plaintext is pt_stream"""
    alg, enc = enc.split("/") if "/" in enc else ("A128KW", enc)
    jwk = K.get(K.jwe_key_kind(alg, enc))
    parts = R.jwe_encrypt({"alg": alg, "enc": enc, "zip": "DEF", **({"p2c": 8} if alg.startswith("PBES2") else {})}, pt_stream, [{"jwk": jwk}], raw_deflate=lambda b: b)
    tok = R.jwe_compact(parts) if ser == "compact" else R.jwe_json(parts, flattened=(ser == "flattened"))
    return tok, jwk


def decrypt(tok, jwk, enc, ser, measure=False):
    from joserfc import jwe
    from joserfc.errors import ExceededSizeError
    alg, enc = enc.split("/") if "/" in enc else ("A128KW", enc)
    reg = jwe.JWERegistry(algorithms=[alg, enc, "DEF"])
    key = J.jkey(jwk)
    peak = None
    if measure:
        tracemalloc.start()
    try:
        o = jwe.decrypt_compact(J.F(tok), key, registry=reg) if ser == "compact" else jwe.decrypt_json(tok, key, registry=reg)
        res = ("plaintext", o.plaintext)
    except ExceededSizeError:
        res = ("exceeded", None)
    except BaseException as e:  # noqa
        if isinstance(e, (KeyboardInterrupt, SystemExit)):
            raise
        res = ("error:" + type(e).__name__, str(e)[:80])
    finally:
        if measure:
            peak = tracemalloc.get_traced_memory()[1]
            tracemalloc.stop()
    return res, peak


def case(args):
    cls, n, enc, ser, framing, seed = args
    rnd = random.Random(f"{seed}-{cls}-{n}")
    data = data_of(cls, n, rnd)
    if framing == "raw78":
        stream = raw78(R.deflate_raw(data[156:]), data[:156]) if n >= 156 else R.deflate_raw(data)
    else:
        stream = R.deflate_raw(data) if framing == "raw" else zlib.compress(data)
    tok, jwk = forge(stream, enc, ser)
    (res, val), _ = decrypt(tok, jwk, enc, ser)
    if framing == "raw78" and n >= 156 and res == "error:DecodeError":
        return args, None           # a raw stream that starts like the zlib header may be taken for a (broken) zlib stream: refusing it is allowed
    if n <= CAP:
        ok = res == "plaintext" and val == data
        what = None if ok else (f"within-limit-{res}" if res != "plaintext" else "within-limit-wrong-content")
    else:
        ok = res == "exceeded"
        what = None if ok else (f"over-limit-returned-{len(val)}-octets" if res == "plaintext" else f"over-limit-{res}")
    return args, what


def diverse_plaintext(i: int, rnd: random.Random) -> bytes:
    """large structured plaintexts whose DEFLATE streams differ in block count, block types and code-length tables
    (lines sharing a prefix of length L followed by a random id: the longest match length follows L)"""
    L = 3 + i % 256
    prefix = bytes(rnd.choice(b"abcdefghijklmnopqrstuvwxyz/:._-0123456789") for _ in range(L))
    lines = rnd.choice([1000, 2500, 3500, 3500])
    out = bytearray()
    for k in range(lines):
        out += prefix + b"%08x" % rnd.getrandbits(32) + (b"\n" if i % 3 else b"\r\n")
        if len(out) > 250000:
            break
    return bytes(out[:255000])


def diversity(args):
    """round trip of diverse large plaintexts through zip=DEF: joserfc -> joserfc and joserfc -> independent inflater"""
    start, n, seed = args
    from joserfc import jwe
    jwk = K.get("oct128")
    key = J.jkey(jwk)
    bad = []
    first_bytes = set()
    for i in range(start, start + n):
        rnd = random.Random(f"{seed}-div-{i}")
        data = diverse_plaintext(i, rnd)
        tok = jwe.encrypt_compact({"alg": "dir", "enc": "A128GCM", "zip": "DEF"}, data, key)
        try:
            _, pt = R.jwe_decrypt(tok, jwk)
            if pt != data:
                bad.append((i, len(data), "independent inflater returns other content"))
        except Exception as e:  # noqa
            bad.append((i, len(data), f"independent implementation cannot decrypt/inflate: {str(e)[:80]}"))
        try:
            if jwe.decrypt_compact(tok, key).plaintext != data:
                bad.append((i, len(data), "round trip returns other content"))
        except Exception as e:  # noqa
            bad.append((i, len(data), f"round trip raised {type(e).__name__}"))
    return bad, n


_ZH: dict = {}


def zip_history(args):
    """one behaviour of ZipHistory.tla: tokens of one consumer decrypted in turn, the caller editing the header object it was
    handed in between; every token is judged by the zip member it arrived with"""
    hist, ser, enc = args
    from joserfc import jwe
    from joserfc.errors import ExceededSizeError
    if (ser, enc) not in _ZH:
        jwk = K.get(K.DIR_KEY[enc])
        data = {"Z1": b"first compressible plaintext " * 40, "Z2": bytes(range(256)) * 9, "ZB": b"\0" * (CAP + 5000), "P1": b"plaintext that travels as it is " * 30}
        toks = {}
        for t, d in data.items():
            h = {"alg": "dir", "enc": enc, **({} if t == "P1" else {"zip": "DEF"})}
            parts = R.jwe_encrypt(h, d, [{"jwk": jwk}])
            toks[t] = R.jwe_compact(parts) if ser == "compact" else R.jwe_json(parts, flattened=True)
        _ZH[(ser, enc)] = (jwk, data, toks)
    jwk, data, toks = _ZH[(ser, enc)]
    key = J.jkey(jwk)
    reg = jwe.JWERegistry(algorithms=["dir", enc, "DEF"])
    last = None
    for i, op in enumerate(hist):
        if op in ("pop_zip", "set_zip"):
            if last is not None:
                for d in ([last.protected, last.headers()] if ser == "compact" else [last.protected]):
                    if op == "pop_zip":
                        d.pop("zip", None)
                    else:
                        d["zip"] = "DEF"
            continue
        try:
            tok = toks[op]
            last = jwe.decrypt_compact(tok, key, registry=reg) if ser == "compact" else jwe.decrypt_json(json.loads(json.dumps(tok)), key, registry=reg)
            res = "plaintext" if last.plaintext == data[op] else f"other-plaintext({len(last.plaintext or b'')} octets)"
        except ExceededSizeError:
            res, last = "exceeded", None
        except BaseException as e:  # noqa
            if isinstance(e, (KeyboardInterrupt, SystemExit)):
                raise
            res, last = "error:" + type(e).__name__, None
        want = "exceeded" if op == "ZB" else "plaintext"
        if res != want:
            return args, f"step {i + 1} ({op}): {res} instead of {want}"
    return args, None


def bomb_stream(total: int, pattern: bytes) -> bytes:
    c = zlib.compressobj(9, zlib.DEFLATED, -15)
    out = bytearray()
    chunk = pattern * (1 << 20 // len(pattern) if False else (1048576 // len(pattern)))
    done = 0
    while done < total:
        out += c.compress(chunk); done += len(chunk)
    out += c.flush()
    return bytes(out)


def raw78(rest: bytes, first: bytes = b"") -> bytes:
    """a raw DEFLATE stream whose first two octets equal the default zlib header 78 9c: a non-final stored block (the five
    padding bits of its header octet are set, which RFC 1951 says are ignored) of 156 octets, followed by `rest`"""
    block = (first + b"s" * 156)[:156]
    return b"\x78\x9c\x00\x63\xff" + block + rest


def bomb(args):
    total, pattern, enc, ser = args[:4]
    stream = bomb_stream(total, pattern)
    if len(args) > 4 and args[4] == "raw78":
        stream = raw78(stream)
    tok, jwk = forge(stream, enc, ser)
    size = len(tok) if isinstance(tok, str) else len(json.dumps(tok))
    (res, val), peak = decrypt(tok, jwk, enc, ser, measure=True)
    bound = 4 * 1024 * 1024 + 8 * size
    what = None
    if res != "exceeded" and not (len(args) > 4 and res == "error:DecodeError"):      # (ambiguous framing may be refused as a broken zlib stream)
        what = f"bomb-{res}"
    elif peak > bound:
        what = f"bomb-peak-memory-{peak >> 20}MiB"
    return (total, len(stream), enc, ser, peak), what


def sig(a, what) -> str:
    cls, n, enc, ser, framing, _ = a
    d = n - CAP
    where = f"cap{d:+d}" if abs(d) <= 1000 else str(n)
    return f"deflate:{cls} len={where} {framing} {enc} {ser} -> {what}"


def run(ctx: Ctx) -> None:
    from .common import FreshPool
    fresh = FreshPool(8)                 # created before this process has touched the library: one forked process per history below
    try:
        _run(ctx, fresh)
    finally:
        fresh.close()


def _run(ctx: Ctx, fresh) -> None:
    thorough = ctx.tier == "thorough"
    r = ctx.tlc("Deflate", "Deflate_thorough" if thorough else "Deflate", timeout=900, workers=4 if thorough else 1)
    for d in ("TailOnly", "CheckAfterFullInflate", "OffByOne", "SilentCut"):
        ctx.sensitivity("Deflate", "Deflate_dev_" + d)
    finals = list({json.dumps(c, sort_keys=True): c for c in r.cases}.values())
    # abstract final-state classes -> concrete lengths
    rnd = random.Random(ctx.seed)
    lengths: dict = {}
    for c in finals:
        cap, tot = c["cap"], c["total"]
        if tot <= cap:
            k = ("within", cap - tot)
            n = max(0, CAP - (cap - tot) * (1 if cap - tot < 2 else 997))
            lengths.setdefault(k, set()).update({n, max(0, n - rnd.randrange(0, 50))})
        elif c["straddles"] and not c["tail"]:
            k = ("pending-only", tot - cap)
            lengths.setdefault(k, set()).update({CAP + 1, CAP + 1 + rnd.randrange(256), CAP + 256})
        else:
            k = ("unread-input", tot - cap)
            lengths.setdefault(k, set()).update({CAP + 257 + rnd.randrange(3), CAP + 258 * (tot - cap) + rnd.randrange(100), 2 * CAP})
    classes = ["constant", "periodic", "random"] + (["text"] if thorough else [])
    encs = list(R.ENC) if thorough else ["A128CBC-HS256", "A256GCM"]
    cases = set()
    fixed = [0, 1, CAP - 1, CAP, CAP + 1, CAP + 2, CAP + 100, CAP + 256, CAP + 257, CAP + 258, CAP + 259, 2 * CAP]
    i = 0
    for k, ls in sorted(lengths.items()):
        for n in sorted(ls) + (fixed if k == ("within", 0) else []):
            for cls in classes:
                i += 1
                enc = encs[i % len(encs)]
                sers = ("compact", "flattened", "general") if thorough else (("compact", "flattened", "general")[i % 3],)
                for ser in sers:
                    for framing in ("raw", "zlib"):
                        if framing == "zlib" and not (thorough or i % 2):
                            continue
                        cases.add((cls, n, enc, ser, framing, ctx.seed))
    for n in (1000, CAP - 1, CAP, CAP + 1, CAP + 300, 2 * CAP):      # raw streams whose first octets equal the zlib header (sniffing ambiguity)
        for cls in classes:
            cases.add((cls, n, encs[n % len(encs)], ("compact", "flattened", "general")[n % 3], "raw78", ctx.seed))
    for n in fixed:                         # the boundary lengths for every class, raw framing, all three serializations
        for cls in classes:
            for j, ser in enumerate(("compact", "flattened", "general")):
                cases.add((cls, n, encs[(n + j) % len(encs)], ser, "raw", ctx.seed))
    # every row: each content encryption and each key-management algorithm meets the limit from both sides (the bound belongs to
    # the zip step, whatever carries the plaintext)
    rows = [e for e in R.ENC] + [a + "/A128GCM" for a in R.JWE_ALGS if a != "A128KW"]
    for r_i, row in enumerate(rows):
        for l_i, n in enumerate((CAP, CAP + 1, CAP + 259, 2 * CAP)):
            cases.add((classes[(r_i + l_i) % 3], n, row, ("compact", "flattened", "general")[(r_i + l_i) % 3], "raw", ctx.seed))
    cases = sorted(cases)
    J.register_drafts({"chacha"})
    import multiprocessing as mp
    from .common import NCPU, _pool_init

    def init():
        _pool_init(); J.register_drafts({"chacha"})
    with mp.get_context("fork").Pool(NCPU, initializer=init) as pool:
        res = pool.map(case, cases, chunksize=4)
        bombs = [(64 << 20, b"\x00", "A256GCM", "compact"), (64 << 20, b"abcdefgh", "A128CBC-HS256", "flattened"),
                 (64 << 20, b"\x00", "A128GCM", "compact", "raw78"), (64 << 20, b"abcdefgh", "A256GCM", "general", "raw78")]
        if thorough:
            bombs += [(512 << 20, b"\x00", e, s) for e in ("A128GCM", "A256CBC-HS512", "C20P") for s in ("compact", "general")]
        bres = pool.map(bomb, bombs, chunksize=1)
        ndiv = 2048 if thorough else 512
        dres = pool.map(diversity, [(i, ndiv // 16, ctx.seed) for i in range(0, ndiv, ndiv // 16)], chunksize=1)
    nwithin = 0
    for a, what in res:
        ctx.evaluations += 1
        if a[1] <= CAP:
            nwithin += 1
        if what:
            ctx.violation(sig(a, what), {"class": a[0], "length": a[1], "enc": a[2], "ser": a[3], "framing": a[4], "what": what})
        ctx.nontrivial.add(f"{a[0]}:{a[1]}:{a[4]}")
    for info, what in bres:
        ctx.evaluations += 1
        if what:
            ctx.violation(f"deflate:bomb expanded={info[0] >> 20}MiB {info[2]} {info[3]} -> {what.rsplit('-', 1)[0] if 'peak' in what else what}",
                          {"expanded": info[0], "compressed": info[1], "peak": info[4], "what": what})
    for bad, n in dres:
        ctx.evaluations += n
        for i, ln, what in bad[:3]:
            ctx.violation(f"deflate:diverse plaintext -> {what.split(':')[0]}", {"index": i, "length": ln, "what": what})
    ctx.notes["diverse_large_plaintexts"] = ndiv
    # compression emits a raw DEFLATE stream (RFC 1951), no zlib header or checksum
    from joserfc import jwe
    for n in (0, 1, 100, 5000):
        ctx.evaluations += 1
        data = data_of("text", n, rnd)
        jwk = K.get("oct128")
        tok = jwe.encrypt_compact({"alg": "A128KW", "enc": "A128GCM", "zip": "DEF"}, data, J.jkey(jwk))
        try:
            if jwe.decrypt_compact(tok, J.jkey(jwk)).plaintext != data:
                ctx.violation("deflate:own token of a small plaintext does not round-trip", {"length": n})
        except Exception as e:  # noqa
            ctx.violation(f"deflate:own token of a small plaintext is refused ({type(e).__name__})", {"length": n})
        try:
            _, back = R.jwe_decrypt(tok, jwk)
            if back != data:
                ctx.violation("deflate:compress-not-raw content differs", {"length": n})
        except Exception as e:  # noqa
            ctx.violation(f"deflate:compress-not-raw {type(e).__name__}", {"length": n, "err": str(e)[:100]})
    # the DEF model is one object shared by every call: two decompress calls interleaved at every source line of either
    # (DeflateShared.tla; deterministic scheduler of C20) must each decide as in isolation
    ctx.tlc("DeflateShared", timeout=300)
    ctx.sensitivity("DeflateShared", "DeflateShared_dev_InflaterOnModel")
    # histories of one consumer (ZipHistory.tla): the zip decision belongs to the token, not to a header object handed out earlier
    rz = ctx.tlc("ZipHistory", timeout=300)
    ctx.sensitivity("ZipHistory", "ZipHistory_dev_ParsedHeaderShared")
    zh = list({json.dumps(h): h for h in rz.cases}.values())
    if len(zh) < 200:
        raise MachineryError(f"ZipHistory export too small: {len(zh)}")
    ztasks = [(h, ser, enc) for h in zh for ser, enc in (("compact", "A128GCM"), ("flattened", "A128CBC-HS256"))]
    for (h, ser, enc), what in fresh.map(zip_history, ztasks, chunksize=8):
        ctx.evaluations += 1
        ctx.nontrivial.add("ziphist:" + ser + ":" + " ".join(h))
        if what:
            ctx.violation(f"deflate:history [{' '.join(h)}] {ser} -> {what}", {"zip_history": h, "ser": ser, "enc": enc, "what": what})
    ctx.notes["zip_histories"] = len(ztasks)
    # the life of one encryption object under zip=DEF (JweReuse.tla): every token it produces from an over-limit plaintext is refused
    from . import reenc
    ctx.evaluations += reenc.run(ctx, "C17")
    from . import c20
    pairs = [(kind, a, b, 1, ctx.seed, 30 if thorough else 8) for kind in (("oct256", "EC:P-256", "RSA2048") if thorough else ("oct256",))
             for a, b in (("decrypt_zip", "decrypt_zip_over"), ("decrypt_zip_over", "decrypt_zip_over"), ("decrypt_zip", "decrypt_zip"),
                          ("decrypt_zip_over", "decrypt"), ("decrypt_zip", "encrypt"))]
    with mp.get_context("fork").Pool(NCPU, initializer=init) as pool:
        sres = pool.map(c20.explore, pairs, chunksize=1)
    nsched = 0
    for (kind, a, b, na, nb), n, found in sres:
        nsched += n
        ctx.nontrivial.add(f"sched:{kind}:{a}|{b}")
        for p, pre, first in found:
            ctx.violation(f"deflate:concurrent {a}||{b} -> {p.split(':', 1)[-1].strip().split(' (')[0][:70]}",
                          {"kind": kind, "ops": [a, b], "preempts": pre, "first": first, "problem": p})
    ctx.evaluations += nsched
    ctx.notes["concurrent_schedules"] = nsched
    ctx.traces = len(finals) + nsched
    ctx.exhaustive = False
    ctx.notes.update(abstract_final_states=len(finals), abstract_classes=len(lengths), concrete_cases=len(cases), within_limit_cases=nwithin,
                     bombs=[{"expanded": b[0][0], "compressed": b[0][1], "peak_traced": b[0][4]} for b in bres])
    ctx.rule = ("TLC explores every stream of symbols (widths 1..W) up to MaxTotal for a small cap; each class of final state (distance to the cap, output only "
                "pending, unread input) is concretised at the real cap of 256,000 octets: lengths 0, 1, cap-1, cap, cap+1..cap+259, 2*cap and per-class offsets "
                "x constant/periodic/random data x raw/zlib framing x encs x serializations, as refimpl-authenticated JWEs; bombs of 64 MiB (thorough 512 MiB) "
                "under tracemalloc; distinct_nontrivial = distinct (data class, length, framing)")
    ctx.sample({"abstract_final_state": finals[7]}); ctx.sample({"concrete_case": list(cases[5])})
    ctx.assumptions = ["memory is measured as Python-traced allocations (tracemalloc); zlib's internal window is constant-size",
                       "a truncated stream from a producer (eof never reached, within the limit) is outside the statement"]


def replay(ctx: Ctx, rec: dict) -> None:
    from .common import _pool_init
    _pool_init(); J.register_drafts({"chacha"})
    if "ops" in rec:
        from . import c20
        problems, sch = c20.run_schedule(rec["kind"], rec["ops"], [tuple(p) for p in rec["preempts"]], rec["first"])
        print("ops", rec["ops"], "preempts", rec["preempts"], "-> problems now:", problems)
        if problems:
            ctx.violation(rec["signature"], {"problems": problems})
    elif rec.get("reuse"):
        from . import reenc
        return reenc.replay(ctx, rec)
    elif "zip_history" in rec:
        _, what = zip_history((rec["zip_history"], rec["ser"], rec["enc"]))
        print(rec["zip_history"], rec["ser"], "->", what)
        if what:
            ctx.violation(rec["signature"], {"now": what})
    elif "class" in rec:
        a = (rec["class"], rec["length"], rec["enc"], rec["ser"], rec["framing"], rec.get("seed", 0))
        print(case(a))
        if case(a)[1]:
            ctx.violation(rec["signature"], rec)
    else:
        print(json.dumps(rec, indent=1))
