"""Concrete JOSE operations on the real joserfc, driven by abstract parameters (shared by several checks).

Only concretisation lives here: how an abstract call (side, op, serialization, names, allow-list) becomes a
real joserfc call with suitable keys, and how tokens for the consuming side are forged with refimpl.
"""
from __future__ import annotations
import json
from functools import lru_cache

from . import refimpl as R
from . import keys as K

ILL = {"#int": 123, "#list": ["HS256"], "#null": None, "#bool": True, "#obj": {"a": 1}, "#float": 1.5, "#empty": ""}


def conc_name(n):
    return ILL.get(n, n)


def register_drafts(reg) -> None:
    reg = set(reg)
    if "1pu" in reg:
        from joserfc.drafts.jwe_ecdh_1pu import register_ecdh_1pu
        register_ecdh_1pu()
    if "chacha" in reg:
        from joserfc.drafts.jwe_chacha20 import register_chaha20_poly1305
        register_chaha20_poly1305()


def registered_drafts() -> set:
    from joserfc.jwe import JWERegistry
    out = set()
    if "ECDH-1PU" in JWERegistry.algorithms["alg"]:
        out.add("1pu")
    if "C20P" in JWERegistry.algorithms["enc"]:
        out.add("chacha")
    return out


_KEYCACHE: dict = {}


def jkey(jwk: dict):
    """joserfc key object for a JWK dict (cached per process; the dict is copied so joserfc cannot alias it)."""
    from joserfc.jwk import JWKRegistry
    s = json.dumps(jwk, sort_keys=True)
    k = _KEYCACHE.get(s)
    if k is None:
        k = JWKRegistry.import_key(json.loads(s))
        _KEYCACHE[s] = k
    return k


def fresh_jkey(jwk: dict):
    from joserfc.jwk import JWKRegistry
    return JWKRegistry.import_key(json.loads(json.dumps(jwk)))


def pub(jwk: dict) -> dict:
    return jwk if jwk["kty"] == "oct" else R.public_jwk(jwk)


def jws_key_for(alg) -> dict:
    return K.get(K.JWS_KEY_KIND.get(alg if isinstance(alg, str) else "", "oct256"))


def jwe_key_for(alg, enc) -> dict:
    a = alg if isinstance(alg, str) and alg in K.JWE_KEY_KIND or alg == "dir" else "A128KW"
    e = enc if isinstance(enc, str) and enc in K.DIR_KEY else "A128GCM"
    return K.get(K.jwe_key_kind(a, e))


# ----------------------------------------------------------------------------- registries
def jws_allow_args(allow: dict, via: str, rfc7797: bool = False):
    """-> kwargs for algorithms=/registry= from an abstract allow-list record."""
    from joserfc.jws import JWSRegistry
    lst = None if allow["kind"] == "absent" else ([] if allow["kind"] == "empty" else sorted(allow["names"]))
    if via == "algorithms":
        return {"algorithms": lst}
    if rfc7797:
        from joserfc.rfc7797 import JWSRegistry as R7797
        return {"registry": R7797(algorithms=lst)}
    return {"registry": JWSRegistry(algorithms=lst)}


def jwe_allow_args(allow: dict, via: str, jwt: bool = False):
    from joserfc.jwe import JWERegistry
    lst = None if allow["kind"] == "absent" else ([] if allow["kind"] == "empty" else sorted(allow["names"]))
    if via == "algorithms":
        kw = {"algorithms": lst}
        if jwt:
            kw["registry"] = JWERegistry()      # selects the JWE transport; the list still decides
        return kw
    return {"registry": JWERegistry(algorithms=lst)}


# ----------------------------------------------------------------------------- JWS
def jws_header(alg, ser: str, extra: dict | None = None) -> dict:
    h = {"alg": conc_name(alg)}
    if ser in ("7797compact", "7797json"):
        h.update({"b64": False, "crit": ["b64"]})
    elif ser.endswith("_true"):
        h.update({"b64": True, "crit": ["b64"]})
    if extra:
        h.update(extra)
    return h


PAYLOAD_7797 = b"unencoded-payload_123~"
CLAIMS = {"iss": "verif", "n": 7}


def jws_payload(ser: str) -> bytes:
    if ser == "jwt":
        return R.jdump(CLAIMS)
    if ser.startswith("7797"):
        return PAYLOAD_7797
    return b"payload \x00\xff bytes."


def jws_produce(ser: str, header: dict, payload: bytes, key, **allow):
    from joserfc import jws, jwt, rfc7797
    if ser == "compact":
        return jws.serialize_compact(header, payload, key, **allow)
    if ser == "flattened":
        return jws.serialize_json({"protected": header}, payload, key, **allow)
    if ser == "general":
        return jws.serialize_json([{"protected": header}], payload, key, **allow)
    if ser.startswith("7797compact"):
        return rfc7797.serialize_compact(header, payload, key, **allow)
    if ser.startswith("7797json"):
        return rfc7797.serialize_json({"protected": header}, payload, key, **allow)
    if ser == "jwt":
        return jwt.encode(header, json.loads(payload), key, **allow)
    raise ValueError(ser)


def jws_forge(ser: str, header: dict, payload: bytes, jwk: dict, valid: bool = True, spell=None):
    """Token for the consuming side made by refimpl; when the alg is not one refimpl can sign with, the signature is junk."""
    alg = header.get("alg")
    octets = (spell or R.jdump)(header)
    b64 = header.get("b64", True) is not False
    can = valid and isinstance(alg, str) and (alg in R.JWS_ALGS or alg == "none")
    if not can:
        seg = R.b64e(octets)
        sig = R.b64e(b"\x01" * 32)
        body = R.b64e(payload) if b64 else payload
        if ser in ("compact", "jwt") or ser.startswith("7797compact"):
            return (seg + b"." + body + b"." + sig).decode()
        m = {"payload": body.decode(), "protected": seg.decode(), "signature": sig.decode()}
        if ser == "general":
            return {"payload": m.pop("payload"), "signatures": [m]}
        return m
    if ser in ("compact", "jwt") or ser.startswith("7797compact"):
        return R.jws_compact(octets, payload, alg, jwk, b64=b64)
    if ser == "flattened" or ser.startswith("7797json"):
        return R.jws_flattened(octets, None, payload, alg, jwk, b64=b64)
    if ser == "general":
        return R.jws_general([(octets, None, alg, jwk)], payload)
    raise ValueError(ser)


def F(tok, salt: int = 0):
    """The Python form in which a compact token is handed to the library is not part of the token: the same octets are given
    as str, bytes, bytearray or memoryview (chosen by the octets themselves, so that a run is reproducible)."""
    import zlib
    if isinstance(tok, str):
        try:
            b = tok.encode("ascii")
        except UnicodeEncodeError:
            return tok
    elif isinstance(tok, bytes):
        b = tok
    else:
        return tok
    k = (zlib.crc32(b) + salt) % 5
    if k == 0: return tok
    if k == 1: return b if isinstance(tok, str) else (b.decode("ascii") if all(c < 128 for c in b) else b)
    if k in (2, 3): return bytearray(b)
    return memoryview(b)


def jws_consume(ser: str, token, key, **allow):
    from joserfc import jws, jwt, rfc7797
    if ser == "compact":
        return jws.deserialize_compact(F(token), key, **allow).payload
    if ser in ("flattened", "general"):
        return jws.deserialize_json(token, key, **allow).payload
    if ser.startswith("7797compact"):
        return rfc7797.deserialize_compact(F(token), key, **allow).payload
    if ser.startswith("7797json"):
        return rfc7797.deserialize_json(token, key, **allow).payload
    if ser == "jwt":
        return R.jdump(jwt.decode(F(token), key, **allow).claims)
    raise ValueError(ser)


# ----------------------------------------------------------------------------- JWE
PLAINTEXT = b"plaintext \x00\xff octets of the JWE."


def jwe_plain(ser: str) -> bytes:
    return R.jdump(CLAIMS) if ser == "jwt" else PLAINTEXT


def jwe_header(alg, enc, zip_="", extra: dict | None = None) -> dict:
    h = {"alg": conc_name(alg), "enc": conc_name(enc)}
    if zip_ != "":
        h["zip"] = conc_name(zip_)
    if isinstance(alg, str) and alg.startswith("PBES2"):
        h["p2c"] = 8
    if extra:
        h.update(extra)
    return h


def jwe_produce(ser: str, header: dict, plaintext: bytes, key, sender=None, **allow):
    from joserfc import jwe, jwt
    kw = dict(allow)
    if sender is not None:
        kw["sender_key"] = sender
    if ser == "compact":
        return jwe.encrypt_compact(header, plaintext, key, **kw)
    if ser in ("flattened", "general"):
        cls = jwe.FlattenedJSONEncryption if ser == "flattened" else jwe.GeneralJSONEncryption
        obj = cls(header, plaintext)
        obj.add_recipient(None, key)
        return jwe.encrypt_json(obj, None, **kw)
    if ser == "jwt":
        return jwt.encode(header, json.loads(plaintext), key, **allow)
    raise ValueError(ser)


def jwe_forge(ser: str, header: dict, plaintext: bytes, jwk: dict, sender: dict | None = None, spell=None, aad=None):
    """Token for the consuming side made by refimpl, as valid as the header allows: names refimpl does not know (unknown,
    ill-typed, wrong position) are carried in the authenticated header while a known algorithm does the work, so that
    only the library's own gate can reject the token."""
    alg, enc, zp = header.get("alg"), header.get("enc"), header.get("zip")
    ops = {}
    if not (isinstance(alg, str) and alg in R.JWE_ALGS + R.JWE_1PU):
        ops["alg"] = "A128KW"; jwk = K.get("oct128")
    if not (isinstance(enc, str) and enc in R.ENC):
        ops["enc"] = "A128GCM"
        if alg == "dir": jwk = K.get("oct128")
    if "zip" in header and zp != "DEF":
        ops["zip"] = None
    parts = R.jwe_encrypt(dict(header), plaintext, [{"jwk": jwk, "sender": sender}], spell=spell, aad=aad, ops=ops)
    if ser in ("compact", "jwt"):
        return R.jwe_compact(parts)
    return R.jwe_json(parts, flattened=(ser == "flattened"))


def jwe_consume(ser: str, token, key, sender=None, **allow):
    from joserfc import jwe, jwt
    kw = dict(allow)
    if sender is not None:
        kw["sender_key"] = sender
    if ser == "compact":
        return jwe.decrypt_compact(F(token), key, **kw).plaintext
    if ser in ("flattened", "general"):
        return jwe.decrypt_json(token, key, **kw).plaintext
    if ser == "jwt":
        return R.jdump(jwt.decode(F(token), key, **allow).claims)
    raise ValueError(ser)
