"""C20 - calls sharing keys, key sets and registries are independent and thread-safe.

Spec: spec/Shared.tla (threads x operations on one shared key decomposed at the accesses to its lazily built JWK view and
lazily assigned kid; invariants KidNeverLost, ReadersSeeKid, NoFailure; deviations Rebind and IterShared are refuted with
counterexample schedules) and spec/SharedSeq.tla (sequential histories of calls on shared objects).
Bindings:
 (1) schedules, real code: a deterministic line-granular scheduler (harness/sched.py, sys.settrace, one runnable thread at a
     time) runs every pair of operations on fresh shared objects under all schedules with one preemption at every k-th line of
     either thread (thorough: every line, plus two preemptions sampled); each call's outcome is compared with the same call in
     isolation, produced tokens are verified/decrypted independently, the kid - once observed - must stay.
 (2) spec -> code: the counterexample schedules TLC finds for the deviations are replayed at the matching source lines.
 (3) histories: TLC-generated sequences of calls on shared key / key set / registry / algorithm objects are executed in order
     and compared call by call with isolation on fresh clones.
 (4) stress: many threads under forced fine-grained switching.
"""
from __future__ import annotations
import json
import random
import sys
import threading

from .common import Ctx, MachineryError
from . import joseops as J
from . import refimpl as R
from . import keys as K
from .sched import Scheduler, count_steps

OPS = ["ensure_kid", "thumbprint", "as_dict_pub", "as_dict", "keyset_new", "get_kid", "sign", "sign2", "sign_ks", "verify", "verify2", "encrypt", "encrypt2", "decrypt", "decrypt2",
       "decrypt_zip", "decrypt_zip_over", "verify_forged", "ks_export", "ks_verify", "ks_sign",
       "sign_raw", "verify_raw_unlisted", "reg_ecdh", "reg_foreign_name", "sigkey_view", "sigkey_misuse", "pem_plain", "pem_password", "encrypt_c20p", "encrypt_xc20p"]
CRYPTO = {"encrypt_c20p", "encrypt_xc20p", "sign", "sign2", "sign_ks", "verify", "verify2", "encrypt", "encrypt2", "decrypt", "decrypt2", "decrypt_zip", "decrypt_zip_over", "verify_forged", "ks_export", "ks_verify", "ks_sign", "sign_raw", "verify_raw_unlisted", "reg_ecdh", "reg_foreign_name", "sigkey_view", "sigkey_misuse"}
ZIP_SMALL = b"compressed plaintext " * 40
ZIP_OVER = 256_000 + 300
_ZTOK: dict = {}


def zip_tokens(kind, jalg, jwk):
    """DEF tokens within and beyond the decompression limit (refimpl-made; cached: they are immutable strings)"""
    if kind not in _ZTOK:
        _ZTOK[kind] = (R.jwe_compact(R.jwe_encrypt({"alg": jalg, "enc": "A128GCM", "zip": "DEF"}, ZIP_SMALL, [{"jwk": jwk}])),
                       R.jwe_compact(R.jwe_encrypt({"alg": jalg, "enc": "A128GCM", "zip": "DEF"}, b"over the limit " * (ZIP_OVER // 15 + 1), [{"jwk": jwk}])))
    return _ZTOK[kind]
LAZY = set(OPS)
# operations that touch the same shared object(s)
GROUPS = [{"ensure_kid", "thumbprint", "as_dict_pub", "as_dict", "keyset_new", "get_kid", "sign", "sign2", "decrypt", "pem_plain", "pem_password"},
          {"sign", "sign2", "sign_ks", "verify", "verify2", "verify_forged", "sign_raw", "verify_raw_unlisted", "ks_sign", "ks_verify"},
          {"encrypt", "encrypt2", "decrypt", "decrypt2", "decrypt_zip", "decrypt_zip_over", "reg_ecdh", "reg_foreign_name", "sigkey_misuse", "encrypt_c20p", "encrypt_xc20p"},
          {"ks_export", "ks_verify", "ks_sign", "sign_ks"}, {"sigkey_view", "sigkey_misuse"}]
JWE_OPS = ("encrypt", "decrypt", "encrypt2", "decrypt2", "decrypt_zip", "decrypt_zip_over", "sigkey_misuse")


class World:
    """fresh shared objects for one execution: a key whose JWK view has not been built yet (loaded from PEM)"""

    def __init__(self, kind="EC:P-256"):
        from joserfc.jwk import JWKRegistry, KeySet
        from cryptography.hazmat.primitives import serialization as S
        self.kind = kind
        self.jwk = K.get(kind, 0)
        if self.jwk["kty"] == "oct":
            raw = R.b64d(self.jwk["k"])                      # imported from raw octets: the JWK view is built lazily
            self.key = JWKRegistry.import_key(raw, "oct")
            self.pub = JWKRegistry.import_key(raw, "oct")
        else:
            native = R.jwk_to_native(self.jwk, True)
            pem = native.private_bytes(S.Encoding.PEM, S.PrivateFormat.PKCS8, S.NoEncryption())
            ppem = native.public_key().public_bytes(S.Encoding.PEM, S.PublicFormat.SubjectPublicKeyInfo)
            self.key = JWKRegistry.import_key(pem, self.jwk["kty"])
            self.pub = JWKRegistry.import_key(ppem, self.jwk["kty"])
        # the same material as a key that declares use=sig through import parameters (its JWK view is built lazily as well)
        if self.jwk["kty"] == "oct":
            self.sigkey = JWKRegistry.import_key(R.b64d(self.jwk["k"]), "oct", {"use": "sig", "key_ops": ["sign", "verify"]})
        else:
            self.sigkey = JWKRegistry.import_key(ppem, self.jwk["kty"], {"use": "sig", "key_ops": ["verify"]})
        self.thumb = R.thumbprint(self.jwk)
        self.alg = {"EC:P-256": "ES256", "RSA2048": "RS256", "OKP:Ed25519": "EdDSA", "oct256": "HS256"}[kind]
        self.key2 = J.fresh_jkey(K.get(kind, 1))
        self.ks = KeySet([self.key2])
        # a shared key set of several keys (a published JWKS that is also used for signing and verifying by kid)
        self.ks3_jwks = [K.get(kind, 1), K.get("oct512" if self.jwk["kty"] != "oct" else "EC:P-384", 0), K.get("OKP:Ed25519" if self.jwk["kty"] != "OKP" else "EC:secp256k1", 1)]       # only set-0 suits self.alg
        self.ks3 = KeySet([J.fresh_jkey({**j, "kid": f"set-{i}"}) for i, j in enumerate(self.ks3_jwks)][::-1])     # (not in kid order)
        self.token3 = R.jws_compact(R.jdump({"alg": self.alg, "kid": "set-0"}), b"signed for the set", self.alg, self.ks3_jwks[0])
        self.token = R.jws_compact(R.jdump({"alg": self.alg}), b"signed payload", self.alg, self.jwk)
        self.token2 = R.jws_compact(R.jdump({"alg": self.alg, "cty": "two"}), b"the second signed payload", self.alg, self.jwk)
        # one JWE registry object shared by calls of different algorithm families (a service-wide registry)
        from joserfc import jwe as _jwe
        self.reg = _jwe.JWERegistry(algorithms=["ECDH-ES+A128KW", "dir", "A128GCM"])
        self.reg_ec = J.fresh_jkey(J.pub(K.get("EC:P-256", 1)))
        self.reg_oct = J.fresh_jkey(K.get("oct128", 0))
        J.register_drafts({"chacha"})
        self.dir_jwk = K.get("oct256", 1)
        self.dir_key = J.fresh_jkey(self.dir_jwk)
        self.raw_hdr = {"alg": self.alg, "b64": False, "crit": ["b64"]}
        self.token_raw = R.jws_compact(R.jdump(self.raw_hdr), b"unencoded_payload-1", self.alg, self.jwk, b64=False)
        self.other_alg = {"ES256": "ES384", "RS256": "PS256", "EdDSA": "ES256", "HS256": "HS384"}[self.alg]
        h1, _, s1 = self.token.split(".")
        self.forged = h1 + "." + self.token2.split(".")[1] + "." + s1        # token one's header and signature over token two's payload
        self.jalg = "ECDH-ES" if kind.startswith("EC") else ("A256KW" if kind == "oct256" else "RSA-OAEP")
        self.jalg2 = {"ECDH-ES": "ECDH-ES+A128KW", "A256KW": "PBES2-HS256+A128KW", "RSA-OAEP": "RSA-OAEP-256"}[self.jalg]
        self.hdr2 = {"alg": self.jalg2, "enc": "A128CBC-HS256", **({"p2c": 8} if self.jalg2.startswith("PBES2") else {})}
        self.jwe_token = R.jwe_compact(R.jwe_encrypt({"alg": self.jalg, "enc": "A128GCM"}, b"secret plaintext", [{"jwk": self.jwk}])) \
            if kind != "OKP:Ed25519" else None
        self.jwe_token2 = R.jwe_compact(R.jwe_encrypt(dict(self.hdr2), b"another secret plaintext!", [{"jwk": self.jwk}])) \
            if kind != "OKP:Ed25519" else None
        self.zip_token, self.zip_over = zip_tokens(kind, self.jalg, self.jwk) if kind != "OKP:Ed25519" else (None, None)

    def op(self, name):
        from joserfc import jws, jwe
        from joserfc.jwk import KeySet
        w = self
        if name == "ensure_kid":
            def f(): w.key.ensure_kid(); return ("kid", w.key.kid)
        elif name == "thumbprint":
            def f(): return ("thumb", w.key.thumbprint())
        elif name == "as_dict_pub":
            def f(): return ("dict", w.key.as_dict(private=False))
        elif name == "as_dict":
            def f(): return ("dict", w.key.as_dict())
        elif name == "keyset_new":
            def f(): return ("kid", KeySet([w.key]).keys[0].kid)
        elif name == "get_kid":
            def f(): return ("maybekid", w.key.kid)
        elif name == "sign":
            def f(): return ("jws", jws.serialize_compact({"alg": w.alg}, b"message", w.key, algorithms=[w.alg]))
        elif name == "sign2":
            def f(): return ("jws", jws.serialize_compact({"alg": w.alg, "cty": "2"}, b"message", w.key, algorithms=[w.alg, "PS384"]))
        elif name == "verify_forged":
            def f():
                from joserfc.errors import BadSignatureError
                try:
                    return ("forged", jws.deserialize_compact(w.forged, w.pub, algorithms=[w.alg]).payload)
                except BadSignatureError:
                    return ("forged", None)
        elif name == "sign_raw":
            def f():
                from joserfc import rfc7797
                return ("jws_raw", rfc7797.serialize_compact(dict(w.raw_hdr), b"message_raw", w.key, algorithms=[w.alg]))
        elif name == "verify_raw_unlisted":
            def f():
                from joserfc import rfc7797
                from joserfc.errors import UnsupportedAlgorithmError
                try:        # the caller's list does not name the token's algorithm
                    return ("unlisted", rfc7797.deserialize_compact(w.token_raw, w.pub, algorithms=[w.other_alg]).payload)
                except UnsupportedAlgorithmError:
                    return ("unlisted", None)
        elif name == "sigkey_view":
            def f(): return ("thumb", w.sigkey.thumbprint())
        elif name == "sigkey_misuse":
            def f():        # a key declared for signatures is offered for encryption: refused, whoever else touches the key meanwhile
                from joserfc.errors import UnsupportedKeyUseError, UnsupportedKeyOperationError
                try:
                    return ("misuse", jwe.encrypt_compact({"alg": w.jalg, "enc": "A128GCM"}, b"plaintext", w.sigkey, algorithms=[w.jalg, "A128GCM"]))
                except (UnsupportedKeyUseError, UnsupportedKeyOperationError):
                    return ("misuse", None)
        elif name == "pem_plain":
            def f(): return ("pem", w.key.as_pem(private=True) if w.jwk["kty"] != "oct" else b"")
        elif name == "pem_password":
            def f(): return ("pem_pw", w.key.as_pem(private=True, password="s3cret") if w.jwk["kty"] != "oct" else None)
        elif name == "reg_ecdh":
            def f(): return ("jwe_reg", jwe.encrypt_compact({"alg": "ECDH-ES+A128KW", "enc": "A128GCM", "apu": "QWxpY2U"}, b"plaintext", w.reg_ec, registry=w.reg))
        elif name == "reg_foreign_name":
            def f():        # "apu" belongs to the ECDH algorithms: under strict checking a dir header carrying it is refused
                try:
                    return ("foreign", jwe.encrypt_compact({"alg": "dir", "enc": "A128GCM", "apu": "QWxpY2U"}, b"plaintext", w.reg_oct, registry=w.reg))
                except ValueError:
                    return ("foreign", None)
        elif name == "ks_export":
            def f(): return ("jwks", w.ks3.as_dict(private=False) if w.jwk["kty"] != "oct" else w.ks3.as_dict())
        elif name == "ks_verify":
            def f(): return ("payload3", jws.deserialize_compact(w.token3, w.ks3, algorithms=[w.alg]).payload)
        elif name == "ks_sign":
            def f(): return ("jws3", jws.serialize_compact({"alg": w.alg}, b"message", w.ks3, algorithms=[w.alg]))
        elif name == "verify2":
            def f(): return ("payload2", jws.deserialize_compact(w.token2, w.pub, algorithms=[w.alg]).payload)
        elif name == "encrypt2":
            def f(): return ("jwe", jwe.encrypt_compact(dict(w.hdr2), b"plaintext", w.pub, algorithms=["A128CBC-HS256", w.jalg2]))
        elif name == "decrypt2":
            def f(): return ("plaintext2", jwe.decrypt_compact(w.jwe_token2, w.key, algorithms=[w.jalg2, "A128CBC-HS256"]).plaintext)
        elif name == "sign_ks":
            def f(): return ("jws2", jws.serialize_compact({"alg": w.alg}, b"message", w.ks, algorithms=[w.alg]))
        elif name == "verify":
            def f(): return ("payload", jws.deserialize_compact(w.token, w.pub, algorithms=[w.alg]).payload)
        elif name in ("encrypt_c20p", "encrypt_xc20p"):
            # the draft content encryptions: direct encryption with one shared 256-bit key, every producer draws its own nonce
            enc = "C20P" if name == "encrypt_c20p" else "XC20P"
            def f(): return ("jwe_dir", jwe.encrypt_compact({"alg": "dir", "enc": enc}, b"plaintext", w.dir_key, algorithms=["dir", enc]))
        elif name == "encrypt":
            def f(): return ("jwe", jwe.encrypt_compact({"alg": w.jalg, "enc": "A128GCM"}, b"plaintext", w.pub, algorithms=[w.jalg, "A128GCM"]))
        elif name == "decrypt_zip":
            def f(): return ("plaintext_zip", jwe.decrypt_compact(w.zip_token, w.key, algorithms=[w.jalg, "A128GCM", "DEF"]).plaintext)
        elif name == "decrypt_zip_over":
            def f():
                from joserfc.errors import ExceededSizeError
                try:
                    return ("over", len(jwe.decrypt_compact(w.zip_over, w.key, algorithms=[w.jalg, "A128GCM", "DEF"]).plaintext))
                except ExceededSizeError:
                    return ("over", "refused")
        elif name == "decrypt":
            def f(): return ("plaintext", jwe.decrypt_compact(w.jwe_token, w.key, algorithms=[w.jalg, "A128GCM", "DEF"]).plaintext)
        else:
            raise ValueError(name)
        return f

    def judge(self, name, res, err):
        """compare one call's outcome with the same call in isolation -> None or a description"""
        if err is not None:
            return f"raised {err[0]}: {err[1][:80]}"
        kind, v = res
        if kind == "kid": return None if v == self.thumb else f"kid {v!r} is not the thumbprint"
        if kind == "thumb": return None if v == self.thumb else "wrong thumbprint"
        if kind == "maybekid": return None if v in (None, self.thumb) else f"kid {v!r}"
        if kind == "dict":
            # the default export of the (private) shared key carries its private members whatever ran before it; a public export never does
            private = True if name == "as_dict" else (False if name == "as_dict_pub" else ("k" in v or "d" in v or "p" in v))
            if self.jwk["kty"] == "oct":
                conf = {"kty": "oct", "k": self.jwk["k"]} if private else {"kty": "oct"}
            else:
                conf = R.native_to_jwk(R.jwk_to_native(self.jwk, True), private)
            core = {k: x for k, x in v.items() if k != "kid"}
            if core != conf: return "JWK view differs from isolation"
            return None if v.get("kid", self.thumb) == self.thumb else "wrong kid in view"
        if kind in ("jws", "jws2"):
            try:
                hdr, body = R.jws_verify_compact(v, J.pub(self.jwk if kind == "jws" else K.get(self.kind, 1)))
                return None if body == b"message" else "token payload differs"
            except Exception as e:  # noqa
                return f"produced token does not verify: {e}"
        if kind == "payload": return None if v == b"signed payload" else "verified payload differs"
        if kind == "payload2": return None if v == b"the second signed payload" else "verified payload differs"
        if kind == "plaintext2": return None if v == b"another secret plaintext!" else "decrypted plaintext differs"
        if kind == "jwe":
            try:
                _, pt = R.jwe_decrypt(v, self.jwk)
                return None if pt == b"plaintext" else "token plaintext differs"
            except Exception as e:  # noqa
                return f"produced token does not decrypt: {e}"
        if kind == "plaintext": return None if v == b"secret plaintext" else "decrypted plaintext differs"
        if kind == "jwe_dir":
            try:
                _, pt = R.jwe_decrypt(v, self.dir_jwk)
                return None if pt == b"plaintext" else "token plaintext differs"
            except Exception as e:  # noqa
                return f"produced token does not decrypt: {e}"
        if kind == "pem":
            return None if (v == b"" or b"PRIVATE KEY" in v) else "private PEM export differs"
        if kind == "pem_pw":
            if v is None: return None
            from cryptography.hazmat.primitives.serialization import load_pem_private_key
            try:
                load_pem_private_key(v, None)
                return "a password-protected export can be loaded without the password"
            except Exception:  # noqa
                pass
            try:
                load_pem_private_key(v, b"s3cret"); return None
            except Exception as e:  # noqa
                return f"password-protected export does not load with its password: {type(e).__name__}"
        if kind == "misuse": return None if v is None else "a key declared use=sig was accepted for encryption"
        if kind == "foreign": return None if v is None else "a header name of another algorithm family was accepted under strict checking"
        if kind == "jwe_reg":
            try:
                _, pt = R.jwe_decrypt(v, K.get("EC:P-256", 1))
                return None if pt == b"plaintext" else "token plaintext differs"
            except Exception as e:  # noqa
                return f"produced token does not decrypt: {e}"
        if kind == "unlisted": return None if v is None else "a token was verified with an algorithm the call's own list does not name"
        if kind == "jws_raw":
            try:
                hdr, body = R.jws_verify_compact(v, J.pub(self.jwk))
                return None if body == b"message_raw" else "token payload differs"
            except Exception as e:  # noqa
                return f"produced token does not verify: {e}"
        if kind == "payload3": return None if v == b"signed for the set" else "verified payload differs"
        if kind == "jwks":
            kids = sorted(d.get("kid") for d in v["keys"])
            return None if kids == ["set-0", "set-1", "set-2"] else f"exported key set lists {kids}"
        if kind == "jws3":
            try:
                hdr, body = R.jws_verify_compact(v, J.pub(self.ks3_jwks[0]))
                return None if body == b"message" and hdr.get("kid") == "set-0" else "token of the key set differs"
            except Exception as e:  # noqa
                return f"token produced with the key set does not verify: {e}"
        if kind == "forged": return None if v is None else f"a token with a spliced payload was verified and returned {v!r}"
        if kind == "plaintext_zip": return None if v == ZIP_SMALL else "decompressed plaintext differs"
        if kind == "over": return None if v == "refused" else f"plaintext beyond the decompression limit returned ({v} octets)"
        return f"unknown result {kind}"


def run_schedule(kind, names, preempts, first):
    w = World(kind)
    s = Scheduler([w.op(n) for n in names], preempts, first).run()
    problems = []
    if s.stuck:
        return ["machinery: scheduler stuck"], s
    for i, n in enumerate(names):
        p = w.judge(n, s.results[i], s.errors[i])
        if p:
            problems.append(f"{n}: {p}")
    observed = [r[1] for r in s.results if r and r[0] == "kid"]
    if observed:
        if w.key.kid != observed[0]:
            problems.append(f"kid observed by a call was lost afterwards (key.kid={w.key.kid!r})")
        else:
            from joserfc.jwk import KeySet
            ks = object.__new__(KeySet); ks.keys = [w.key]
            try:
                ks.get_by_kid(observed[0])
            except Exception as e:  # noqa
                problems.append(f"get_by_kid of the observed kid fails: {type(e).__name__}")
    ivs = [r[1].split(".")[2] for r in s.results if r and r[0] in ("jwe", "jwe_dir")]
    if len(set(ivs)) != len(ivs):
        problems.append("concurrent encryptions share an IV")
    return problems, s


# ----------------------------------------------------------------------------- B2: access-level trace validation
MODEL_OP = {"ensure_kid": "ensure_kid", "keyset_new": "ensure_kid", "thumbprint": "view", "as_dict": "view", "as_dict_pub": "iterate",
            "get_kid": "read_kid", "sign": "view", "decrypt": "view"}


class Recorder:
    """observer of the scheduler: projects the real key object onto the state of Shared.tla after every source line"""

    def __init__(self, key):
        self.key = key
        self.dicts = []          # every dict object key._dict_value was ever bound to (kept alive: ids stay unique)
        self.events = []
        self.last = self.project()

    def project(self):
        d = self.key.__dict__.get("_dict_value")
        if not any(d is x for x in self.dicts):
            self.dicts.append(d)
        ptr = next(i for i, x in enumerate(self.dicts) if x is d)
        return ptr, [[("kty" in x), ("kid" in x)] for x in self.dicts]

    def line(self, t):
        now = self.project()
        if now != self.last:
            self.events.append({"kind": "state", "t": t + 1, "ptr": now[0], "heap": now[1], "ret": ""})
            self.last = now

    def running(self, t):
        self.events.append({"kind": "run", "t": t + 1, "ptr": 0, "heap": [], "ret": ""})

    def returned(self, t, res, err):
        self.line(t)
        if err is not None:
            r = "error:" + err[0]
        elif res[0] == "kid": r = "kid"
        elif res[0] == "maybekid": r = "kid" if res[1] else "nokid"
        elif res[0] == "dict" and self.op_names[t] == "as_dict_pub": r = "iter_kid" if "kid" in res[1] else "iter_nokid"
        else: r = "none"
        self.events.append({"kind": "ret", "t": t + 1, "ptr": 0, "heap": [], "ret": r})


def record_traces(args):
    """real executions of pairs of key operations under seeded one- and two-preemption schedules -> traces for TraceShared.tla"""
    kind, a, b, n, seed = args
    from .common import _pool_init
    _pool_init()
    na, nb = count_steps(World(kind).op(a)), count_steps(World(kind).op(b))
    rnd = random.Random(f"trace-{seed}-{kind}-{a}-{b}")
    out = []
    for i in range(n):
        w = World(kind)
        first = rnd.randrange(2)
        pre = [(0, rnd.randrange(1, na + 1)), (1, rnd.randrange(1, nb + 1))][:1 + i % 2] if i % 3 else [(first, rnd.randrange(1, (na, nb)[first] + 1))]
        rec = Recorder(w.key); rec.op_names = [a, b]
        s = Scheduler([w.op(a), w.op(b)], pre, first, observer=rec).run()
        if s.stuck:
            continue
        out.append({"name": f"{kind}:{a}||{b} preempts={pre} first={first}", "ops": [MODEL_OP[a], MODEL_OP[b]], "events": rec.events,
                    "replay": {"kind": kind, "ops": [a, b], "preempts": pre, "first": first}})
    return out


def trace_validate(ctx: Ctx, traces, name):
    f = ctx.scratch / f"shared_{name}.json"
    f.write_text(json.dumps([{"ops": t["ops"], "events": t["events"]} for t in traces]))
    r = ctx.tlc("TraceShared", env={"TRACE_FILE": str(f)}, timeout=1200)
    if not r.cases:
        raise MachineryError("TraceShared produced no report")
    rep = r.cases[-1]
    return [(t, reached) for t, reached, ln in zip(traces, rep["reached"], rep["len"]) if reached != ln + 1]


def trace_pass(ctx: Ctx, thorough: bool):
    import multiprocessing as mp
    from .common import NCPU
    names = list(MODEL_OP)
    tasks = [(kind, a, b, 12 if thorough else 3, ctx.seed) for kind in (("EC:P-256", "oct256", "RSA2048") if thorough else ("EC:P-256", "oct256"))
             for i, a in enumerate(names) for b in names[i:]]
    with mp.get_context("fork").Pool(NCPU) as pool:
        traces = [t for ts in pool.map(record_traces, tasks, chunksize=1) for t in ts]
    if len(traces) < 100:
        raise MachineryError(f"only {len(traces)} shared-key traces recorded")
    B = 150
    rejected = []
    from concurrent.futures import ThreadPoolExecutor
    jobs = [traces[i:i + B] for i in range(0, len(traces), B)]
    with ThreadPoolExecutor(8) as ex:
        for rj in ex.map(lambda jb: trace_validate(ctx, jb[1], f"b{jb[0]}"), list(enumerate(jobs))):
            rejected += rj
    for t, reached in rejected:
        ev = t["events"][reached - 1] if 0 < reached <= len(t["events"]) else None
        ctx.violation(f"shared:trace {t['replay']['ops'][0]}||{t['replay']['ops'][1]} -> execution is not a behaviour of Shared.tla at a {ev['kind'] if ev else '?'} event",
                      {**t["replay"], "unmatched_event": ev, "position": reached, "events": t["events"]})
    # binding demonstration: a recorded trace in which the view is rebound to a new dict object must be rejected
    import copy
    base = next((t for t in traces if any(e["kind"] == "state" for e in t["events"])), None)
    if base is None:
        raise MachineryError("no recorded trace contains a state change")
    bad = copy.deepcopy(base)
    e = next(e for e in bad["events"] if e["kind"] == "state")
    e["ptr"] = 1; e["heap"] = [[False, False], e["heap"][0]]
    if not trace_validate(ctx, [bad], "demo"):
        raise MachineryError("binding demonstration failed: a trace with a rebound view was accepted by TraceShared")
    ctx.traces += len(traces)
    ctx.evaluations += sum(len(t["events"]) for t in traces)
    ctx.notes["shared_traces"] = {"traces": len(traces), "events": sum(len(t["events"]) for t in traces), "rejected": len(rejected),
                                  "binding_demo": "a trace whose state event rebinds the view to a new dict object is rejected"}


def explore(args):
    kind, a, b, stride, seed, two = args
    from .common import _pool_init
    _pool_init()
    w = World(kind)
    na, nb = max(1, count_steps(w.op(a))), max(1, count_steps(World(kind).op(b)))     # (an operation that does not apply to the key kind has no steps)
    found = []
    n = 0
    rnd = random.Random(f"{seed}-{a}-{b}")
    off = rnd.randrange(stride)
    for first, steps in ((0, na), (1, nb)):
        for k in range(1 + off, steps + 1, stride):
            n += 1
            problems, s = run_schedule(kind, [a, b], [(first, k)], first)
            for p in problems:
                found.append((p, [(first, k)], first))
    for _ in range(two):
        first = rnd.randrange(2)
        pre = [(0, rnd.randrange(1, na + 1)), (1, rnd.randrange(1, nb + 1))]
        n += 1
        problems, s = run_schedule(kind, [a, b], pre, first)
        for p in problems:
            found.append((p, pre, first))
    return (kind, a, b, na, nb), n, found


def stress(args):
    kind, nthreads, iters, seed = args
    from .common import _pool_init
    _pool_init()
    old = sys.getswitchinterval()
    sys.setswitchinterval(1e-6)
    try:
        problems = []
        for it in range(iters):
            w = World(kind)
            rnd = random.Random(f"{seed}-{it}")
            names = [rnd.choice([o for o in OPS if not (o in JWE_OPS and w.jwe_token is None)]) for _ in range(nthreads)]
            res, err = [None] * nthreads, [None] * nthreads
            start = threading.Barrier(nthreads)

            def body(i):
                f = w.op(names[i])
                start.wait()
                try:
                    res[i] = f()
                except BaseException as e:  # noqa
                    err[i] = (type(e).__name__, str(e)[:100], "")
            ths = [threading.Thread(target=body, args=(i,)) for i in range(nthreads)]
            [t.start() for t in ths]; [t.join(60) for t in ths]
            for i, nme in enumerate(names):
                p = w.judge(nme, res[i], err[i])
                if p:
                    problems.append(f"{nme}: {p}")
            obs = [r[1] for r in res if r and r[0] == "kid"]
            if obs and w.key.kid != obs[0]:
                problems.append("kid observed by a call was lost afterwards")
        return problems, iters * nthreads
    finally:
        sys.setswitchinterval(old)


def histories(ctx: Ctx, n: int):
    """sequential call sequences on shared objects vs the same calls on fresh clones (TLC-simulated orders)"""
    r = ctx.tlc("SharedSeq", simulate=f"num={n}", depth=8, seed=ctx.seed + 3, timeout=600)
    seqs = list({json.dumps(c): c for c in r.cases}.values())
    bad = []
    cnt = 0
    for seq in seqs:
        w = World(["EC:P-256", "RSA2048", "oct256"][len(seq) % 3])
        for i, name in enumerate(seq):
            if name in JWE_OPS and w.jwe_token is None:
                continue
            cnt += 1
            try:
                res, err = w.op(name)(), None
            except BaseException as e:  # noqa
                res, err = None, (type(e).__name__, str(e)[:100], "")
            p = w.judge(name, res, err)
            iso = World(w.kind)
            try:
                ires, ierr = iso.op(name)(), None
            except BaseException as e:  # noqa
                ires, ierr = None, (type(e).__name__, str(e)[:100], "")
            pi = iso.judge(name, ires, ierr)
            if p != pi or (res and ires and res[0] in ("thumb", "payload", "plaintext") and res != ires):
                bad.append((seq[:i + 1], name, p or "differs from isolation"))
    return seqs, cnt, bad


def run(ctx: Ctx) -> None:
    thorough = ctx.tier == "thorough"
    # class-level tables are shared state too: every row of the pick table serves the second call of a process as it serves the first
    from .common import FreshPool
    from . import picktable
    with FreshPool() as fresh:
        npick = picktable.run(ctx, "C20", fresh)
    rm = ctx.tlc("Shared", timeout=900, workers=4, coverage=True)
    ctx.vacuity(rm, allow_zero=())
    ctx.sensitivity("Shared", "Shared_dev_Rebind")
    ctx.sensitivity("Shared", "Shared_dev_IterShared")
    ctx.tlc("SharedSet", timeout=300)
    ctx.sensitivity("SharedSet", "SharedSet_dev_ExportSortsInPlace")
    import multiprocessing as mp
    from .common import NCPU, _pool_init
    _pool_init()
    kinds = ["EC:P-256", "oct256"] + (["RSA2048"] if thorough else [])
    pairs = []
    for kind in kinds:
        for i, a in enumerate(OPS):
            for b in OPS[i:]:
                if not thorough and not any(a in g and b in g for g in GROUPS):
                    continue              # quick: pairs of operations that share no object (key view, algorithm models / registries, key set) are left to the stress and history passes
                # pairs of cryptographic operations share algorithm models and registries: every line; others every 3rd line
                stride = 1 if thorough or (a in CRYPTO and b in CRYPTO) else 3
                pairs.append((kind, a, b, stride, ctx.seed, 40 if thorough else 6))
    with mp.get_context("fork").Pool(NCPU) as pool:
        res = pool.map(explore, pairs, chunksize=1)
        st = pool.map(stress, [(k, 32 if thorough else 16, 40 if thorough else 6, ctx.seed + i) for i, k in enumerate(["EC:P-256", "RSA2048", "OKP:Ed25519", "oct256"] * (4 if thorough else 1))], chunksize=1)
    nsched = 0
    for (kind, a, b, na, nb), n, found in res:
        nsched += n
        ctx.nontrivial.add(f"{kind}:{a}|{b}")
        for p, pre, first in found:
            what = p.split(":", 1)[-1].strip()
            what = "kid lost / key view race" if ("kid" in what or "get_by_kid" in what) else what.split(":")[0][:60]
            ctx.violation(f"shared:{a}||{b} -> {what}", {"kind": kind, "ops": [a, b], "preempts": pre, "first": first, "problem": p, "steps": [na, nb]})
    ncalls = 0
    for problems, calls in st:
        ncalls += calls
        for p in problems[:3]:
            ctx.violation(f"shared:stress -> {p.split(':', 1)[-1].strip()[:60]}", {"problem": p})
    trace_pass(ctx, thorough)
    seqs, cnt, bad = histories(ctx, 400 if thorough else 60)
    for prefix, name, p in bad[:5]:
        ctx.violation(f"shared:history {name} after {len(prefix) - 1} calls -> {p[:60]}", {"history": prefix, "problem": p})
    ctx.evaluations = nsched + ncalls + cnt + npick
    ctx.traces = nsched + len(seqs)
    ctx.exhaustive = False
    ctx.notes.update(op_pairs=len(pairs), schedules_run=nsched, stress_calls=ncalls, histories=len(seqs), history_calls=cnt, model_coverage=rm.coverage)
    ctx.rule = ("every pair of 11 operations (ensure_kid, thumbprint, as_dict public/private, KeySet([key]), kid read, sign via key / key set, verify, encrypt, "
                "decrypt) on a fresh shared key under every schedule with one preemption at every 4th (thorough: every) source line of either thread plus sampled "
                "two-preemption schedules; stress with 16-32 threads at a 1 microsecond switch interval; TLC-simulated call histories vs isolation; "
                "distinct_nontrivial = distinct (key kind, operation pair)")
    ctx.sample({"schedule": {"ops": ["keyset_new", "thumbprint"], "preempts": [[1, 40]], "first": 1}})
    ctx.assumptions = ["CPython with the GIL; preemption at source-line granularity inside joserfc (bytecode-level and C-level races are not decided)",
                       "the lazily assigned thumbprint kid may or may not be present in a concurrently taken JWK view (documented exception)"]


def replay(ctx: Ctx, rec: dict) -> None:
    from .common import _pool_init
    _pool_init()
    if "pick_history" in rec:
        from . import picktable
        return picktable.replay(ctx, rec)
    if "ops" in rec:
        problems, s = run_schedule(rec["kind"], rec["ops"], [tuple(p) for p in rec["preempts"]], rec["first"])
        print("ops", rec["ops"], "preempts", rec["preempts"], "first", rec["first"], "-> problems now:", problems, "switches:", s.order)
        if problems:
            ctx.violation(rec["signature"], {"problems": problems})
    else:
        print(json.dumps(rec)[:1000])
