"""C01 - JWS verification returns only authentically signed content.

Spec: spec/Jws.tla (Dolev-Yao model: two honest tokens, attacker edits of header octets / payload text / signatures /
unprotected members / signature list / serialization shape, choice of entry point and key; per-entry verification and
conclusion as the code does it).  TLC checks AuthOnly on every reachable verdict (and refutes seven named deviations)
and exports every behaviour with the verdict of the intended design.  Binding B1: each behaviour is concretised for
every signature algorithm with refimpl-made honest tokens; abstract edits become concrete octet edits (bit flips of
the decoded segments, truncations/extensions, re-spelling, splices between the two tokens, structural JSON edits);
the real entry point must not return a verified object where the spec rejects, and what it returns must be the
signed payload and protected header.
"""
from __future__ import annotations
import json
import random

from .common import Ctx, MachineryError
from . import joseops as J
from . import refimpl as R
from . import keys as K

ALGS = [("HS256", "oct256"), ("HS384", "octws"), ("HS512", "oct512"), ("RS256", "RSA2048"), ("RS384", "RSA2048"), ("RS512", "RSA2050"),
        ("PS256", "RSA2048"), ("PS384", "RSA2050"), ("PS512", "RSA2048"), ("ES256", "EC:P-256"), ("ES384", "EC:P-384"),
        ("ES512", "EC:P-521"), ("ES256K", "EC:secp256k1"), ("EdDSA", "OKP:Ed25519"), ("EdDSA", "OKP:Ed448")]
OTHER = {"HS256": "HS384", "HS384": "HS512", "HS512": "HS256", "RS256": "PS256", "RS384": "RS512", "RS512": "PS512", "PS256": "RS256",
         "PS384": "PS512", "PS512": "RS512", "ES256": "ES384", "ES384": "ES256", "ES512": "ES256", "ES256K": "ES256", "EdDSA": "HS256"}


# siblings: the algorithms the same key could also sign with (another digest, the other RSA padding)
SIBLINGS = {"HS256": ["HS384", "HS512"], "HS384": ["HS256", "HS512"], "HS512": ["HS384", "HS256"], "RS256": ["RS384", "PS256"], "RS384": ["RS256", "PS384"],
            "RS512": ["RS256", "PS512"], "PS256": ["PS384", "RS256"], "PS384": ["PS256", "RS384"], "PS512": ["PS256", "RS512"],
            "ES256": ["ES384", "ES512"], "ES384": ["ES256", "ES512"], "ES512": ["ES256", "ES384"], "ES256K": ["ES384", "ES512"]}


def _sign_on_own_curve(alg, jwk, msg: bytes) -> bytes:
    """ECDSA with the hash of `alg` but on the curve of the (unsuitable) key: R||S at that curve's coordinate length"""
    from cryptography.hazmat.primitives.asymmetric import ec
    from cryptography.hazmat.primitives.asymmetric.utils import decode_dss_signature
    from cryptography.hazmat.primitives import hashes
    key = R.jwk_to_native(jwk, True)
    h = {"ES256": hashes.SHA256, "ES384": hashes.SHA384, "ES512": hashes.SHA512, "ES256K": hashes.SHA256}[alg]
    r, s_ = decode_dss_signature(key.sign(msg, ec.ECDSA(h())))
    size = R.EC_CURVES[jwk["crv"]][1]
    return r.to_bytes(size, "big") + s_.to_bytes(size, "big")


class Material:
    """honest tokens T1, T2 for one (alg, key kind, raw, jwt) and the concrete forms of every abstract symbol"""

    def __init__(self, alg, kind, raw, jwt):
        self.alg, self.kind, self.raw, self.jwt = alg, kind, raw, jwt
        self.k1 = K.get(kind, 0)
        self.k2 = K.get(kind, 1)
        # K3: a key that does not fit the algorithm - for ECDSA a key on another curve (else simply a third key)
        other_curve = {"ES256": "EC:P-384", "ES384": "EC:P-256", "ES512": "EC:P-256", "ES256K": "EC:P-256"}.get(alg)
        self.k3 = K.get(other_curve, 0) if other_curve else R.gen_like(self.k1) if self.k1["kty"] in ("EC", "OKP") else self.k2
        extra = {"b64": False, "crit": ["b64"]} if raw else {}
        if jwt:
            self.P = {1: b'{"sub":"one","n":1}', 2: b'{"sub":"two","n":2}'}
        elif raw:
            self.P = {1: b"payload-one_1", 2: b"payload-two_2"}
        else:
            self.P = {1: b"payload one \x00\xff.", 2: b"payload two \x01\xfe."}
        self.Hd = {1: {"alg": alg, "cty": "one", **extra}, 2: {"alg": alg, "cty": "two", **extra}}
        self.H = {i: R.jdump(self.Hd[i]) for i in (1, 2)}
        self.text = {i: (self.P[i] if raw else R.b64e(self.P[i])) for i in (1, 2)}
        self.S = {i: R.jws_sign(alg, self.k1, R.b64e(self.H[i]) + b"." + self.text[i]) for i in (1, 2)}
        msg1 = R.b64e(self.H[1]) + b"." + self.text[1]
        self.S3 = _sign_on_own_curve(alg, self.k3, msg1) if other_curve else (R.jws_sign(alg, self.k3, msg1) if self.k3 is not self.k2 else self.S[2])
        if alg[:2] in ("RS", "PS"):
            # an RSA signature is an octet string as long as the modulus; about one in 256 starts with a zero octet, which a
            # sloppy integer conversion would tolerate losing: token one is searched for until its signature starts that way
            for n in range(1, 4000):
                if self.S[1][0] == 0:
                    break
                self.Hd[1]["cty"] = "one-%d" % n
                self.H[1] = R.jdump(self.Hd[1])
                self.S[1] = R.jws_sign(alg, self.k1, R.b64e(self.H[1]) + b"." + self.text[1])
        self.R1 = json.dumps(self.Hd[1], separators=(" , ", " : ")).encode()
        msg1 = R.b64e(self.H[1]) + b"." + self.text[1]
        self.S4 = [(_sign_on_own_curve(a, self.k1, msg1) if alg.startswith("ES") else R.jws_sign(a, self.k1, msg1)) for a in SIBLINGS.get(alg, [])]

    # ---- concrete forms; v = variant number
    def hseg(self, h, v):
        if h == "H1": return R.b64e(self.H[1])
        if h == "H2": return R.b64e(self.H[2])
        if h == "R1": return R.b64e(self.R1)
        if h == "N": return None
        o = bytearray(self.H[1])
        bit = v % (len(o) * 8)
        o[bit // 8] ^= 1 << (bit % 8)
        return R.b64e(bytes(o))

    def sig(self, s, v):
        s1 = self.S[1]
        if s == "S1": return s1
        if s == "S2": return self.S[2]
        if s == "S3": return self.S3
        if s == "S4": return self.S4[v % len(self.S4)]
        if s == "empty": return b""
        if s == "trunc":
            if v % 3 == 2: return s1[1 + (v // 3) % 2:]                       # octets lost at the front (leading zero octets, if any)
            return s1[:len(s1) - 1 - (v % max(1, len(s1) - 1))] if v else s1[:-1]
        if s == "ext":
            # extension at the end, in front, or - both halves of an R||S pair zero-padded at their most significant end,
            # which leaves the two integers as they were (fixed-length encodings must still refuse it)
            k = 1 + v % 3
            half = len(s1) // 2
            return [s1 + bytes([v % 256]) * (1 + v % 2), bytes(k) + s1, bytes(k) + s1[:half] + bytes(k) + s1[half:], s1 + bytes(2 * k)][v % 4]
        o = bytearray(s1 or b"\x00")
        if v % 5 == 4:
            return bytes((b + 1 + v % 255) % 256 for b in o)       # all octets different (offset 1..255, never 0 mod 256)
        bit = v % (len(o) * 8)
        o[bit // 8] ^= 1 << (bit % 8)
        return bytes(o)

    def wtext(self, t, v):
        if t.endswith("P1"): return self.text[1]
        if t.endswith("P2"): return self.text[2]
        o = bytearray(self.P[1])
        bit = v % (len(o) * 8)
        o[bit // 8] ^= 1 << (bit % 8)
        if self.raw:
            # keep the unencoded payload within the URL-safe characters so that it can still be attached
            o = bytearray(self.P[1]); o[v % len(o)] = ord("Z") if o[v % len(o)] != ord("Z") else ord("Y")
            return bytes(o)
        return R.b64e(bytes(o))

    def unprot(self, u):
        return {"none": None, "kid": {"kid": "some-kid"}, "alg_same": {"alg": self.alg}, "alg_other": {"alg": OTHER[self.alg]},
                "b64": {"b64": False, "crit": ["b64"]}, "unknown": {"zzz": 1}}[u]


_MAT: dict = {}


def material(alg, kind, raw, jwt) -> Material:
    k = (alg, kind, raw, jwt)
    if k not in _MAT:
        _MAT[k] = Material(alg, kind, raw, jwt)
    return _MAT[k]


def assemble(sc, m: Material, v: int):
    es = []
    for e in sc["es"]:
        d = {"signature": R.b64e(m.sig(e["s"], v)).decode()}
        hs = m.hseg(e["h"], v)
        if hs is not None:
            d["protected"] = hs.decode()
        u = m.unprot(e["u"])
        if u is not None:
            d["header"] = u
        es.append(d)
    text = m.wtext(sc["text"], v).decode("latin1")
    if sc["ser"] == "compact":
        e = es[0]
        return e.get("protected", "") + "." + text + "." + e["signature"]
    if sc["ser"] == "flattened":
        return {"payload": text, **es[0]}
    return {"payload": text, "signatures": es}


def verify(sc, m: Material, tok):
    """-> ("ok", payload bytes, protected header dict of the first signature) | ("reject", reason)"""
    from joserfc import jws, jwt, rfc7797
    kj = {"K1": m.k1, "K2": m.k2, "K3": m.k3}[sc["key"]]
    key = J.jkey(J.pub(kj))
    # the form in which the verifier holds its key is not part of the key: the key itself, a set holding exactly it, a callable
    import zlib
    kform = zlib.crc32(repr(tok).encode()) % 4 if not any(e["u"] == "kid" for e in sc["es"]) else 0
    if kform == 1:
        from joserfc.jwk import KeySet
        key = KeySet([J.fresh_jkey(J.pub(kj))])
    elif kform == 2:
        from joserfc.jwk import KeySet
        _ks = KeySet([J.fresh_jkey(J.pub(kj))])
        key = lambda obj: _ks          # noqa: E731
    elif kform == 3:
        _k = key
        key = lambda obj: _k           # noqa: E731
    algs = [m.alg]
    if any(e["u"] == "alg_other" for e in sc["es"]):
        algs.append(OTHER[m.alg])
    try:
        ep, ser = sc["ep"], sc["ser"]
        if ep == "jwt":
            t = jwt.decode(J.F(tok), key, algorithms=algs)
            return "ok", R.jdump(t.claims), t.header, json.dumps(t.claims, sort_keys=True)
        mod = jws if ep == "jws" else rfc7797
        if ser == "compact":
            oob = sc.get("oob", "none")
            if oob != "none":
                o = mod.deserialize_compact(J.F(tok), key, m.P[1 if oob == "P1" else 2], algorithms=algs)
            else:
                o = mod.deserialize_compact(J.F(tok), key, algorithms=algs)
            return "ok", o.payload, o.protected, None
        o = mod.deserialize_json(tok, key, algorithms=algs)
        mem = o.members[0] if o.members else None
        given = m.unprot(sc["es"][0]["u"]) or {} if sc["es"] else {}
        added = sorted(set((mem.header or {}) if mem else {}) - set(given))
        if added:               # members nobody signed and nobody sent
            return "ok", o.payload, {"members added to the returned unprotected header": added}, None
        return "ok", o.payload, (mem.protected if mem else None), None
    except BaseException as e:  # noqa
        if isinstance(e, (KeyboardInterrupt, SystemExit)):
            raise
        return "reject", type(e).__name__, None, None


def run_batch(args):
    """one (algorithm, key kind) over all scenarios; returns list of findings and counters"""
    (alg, kind), scenarios, nvar, seed, sweep = args
    out = []
    n = nok = 0
    for si, sc in enumerate(scenarios):
        m = material(alg, kind, sc["raw"], sc["ep"] == "jwt")
        exp_ok = sc["verdict"] == "ok"
        uses3 = sc["key"] == "K3" or any(e["s"] == "S3" for e in sc["es"])
        if uses3 and (not alg.startswith("ES") or any(e["u"] == "alg_other" for e in sc["es"])):
            # "a key that does not fit the algorithm" exists for ECDSA (another curve); an unprotected alg naming the algorithm
            # the key does fit makes the token an authentic one of that algorithm: outside this symbol's meaning
            continue
        if any(e["s"] == "S4" for e in sc["es"]) and (not m.S4 or any(e["u"] == "alg_other" for e in sc["es"])):
            continue                      # EdDSA has no sibling; an unprotected alg may name the very algorithm the signature was made with
        if sweep and len(sc["edits"]) == 1 and sc["edits"][0][0] in ("hdr", "sig", "text") and sc["edits"][0][-1] in ("X", "junk", "trunc", "raw:PX"):
            # thorough: every bit of the decoded segment / every truncation length
            kindv = sc["edits"][0][-1]
            size = {"X": len(m.H[1]) * 8, "junk": max(8, len(m.S[1]) * 8), "trunc": max(1, len(m.S[1])), "raw:PX": len(m.P[1]) * 8}[kindv]
            variants = range(size)
        else:
            variants = [(seed + si * 7 + j * 13) % 1000 for j in range(nvar)]
        for v in variants:
            tok = assemble(sc, m, v)
            res = verify(sc, m, tok)
            n += 1
            if res[0] == "ok":
                nok += 1
                if not exp_ok:
                    out.append(("accepted", si, v, alg, kind, None))
                    continue
                want = {"P1": m.P[1], "P2": m.P[2]}.get(sc["returned"])
                first = sc["es"][0]["h"]
                hd = m.Hd[1] if first in ("H1",) else m.Hd[2]
                if sc["ep"] == "jwt":
                    good = json.loads(res[1]) == json.loads(want)
                else:
                    good = res[1] == want
                if not good:
                    out.append(("wrong-payload", si, v, alg, kind, repr(res[1])[:80]))
                elif res[2] != hd:
                    out.append(("wrong-header", si, v, alg, kind, repr(res[2])[:120]))
            elif exp_ok:
                out.append(("drift", si, v, alg, kind, res[1]))
    return out, n, nok


def sig_of(sc, what) -> str:
    ed = ";".join("/".join(str(x) for x in e) for e in sc["edits"]) or "none"
    oob = "" if sc.get("oob", "none") == "none" else f" oob={sc['oob']}"
    return f"jws:{sc['ep']}.{sc['ser']} raw={sc['raw']} edits=[{ed}] nsig={len(sc['es'])} key={sc['key']}{oob} -> {what}"


def load_scenarios(ctx: Ctx):
    rs = ctx.tlc_many([("Jws", "Jws_FALSE", {"timeout": 900}), ("Jws", "Jws_TRUE", {"timeout": 900})])
    ctx.tlc_many([("Jws", "Jws_dev_" + d, {"timeout": 600, "expect_violation": True})
                  for d in ("OobNotVerified", "EmptyListVerifies", "B64FromUnprotected", "SigningInputRebuilt", "FalseNotRaised", "AnySigLength",
                            "UnprotectedAlgTrusted", "OnlyFirstSignatureChecked", "UnsuitableKeyVerifies", "SiblingAlgorithmVerifies")], par=10)
    scs, seen = [], set()
    for r in rs:
        for c in r.cases:
            k = json.dumps(c, sort_keys=True)
            if k not in seen:
                seen.add(k); scs.append(c)
    if len(scs) < 8000:
        raise MachineryError(f"behaviour export too small: {len(scs)}")
    return scs


def run(ctx: Ctx) -> None:
    thorough = ctx.tier == "thorough"
    scs = load_scenarios(ctx)
    import multiprocessing as mp
    from .common import NCPU, _pool_init
    tasks = [(ak, scs, 3 if thorough else 1, ctx.seed, thorough) for ak in ALGS]
    with mp.get_context("fork").Pool(min(NCPU, len(tasks)), initializer=_pool_init) as pool:
        res = pool.map(run_batch, tasks, chunksize=1)
    nok = 0
    for (ak, *_), (findings, n, ok) in zip(tasks, res):
        ctx.evaluations += n
        nok += ok
        for what, si, v, alg, kind, extra in findings:
            sc = scs[si]
            if what == "drift":
                ctx.note_drift({"scenario": sig_of(sc, "reject"), "alg": alg, "reason": extra})
            else:
                ctx.violation(sig_of(sc, what), {"scenario": sc, "alg": alg, "key_kind": kind, "variant": v, "observed": extra})
    # several tokens in flight: split-API histories (JwsInFlight.tla) and two verifications interleaved at every source line
    from . import inflight, c20
    from .common import pmap
    ctx.evaluations += inflight.run(ctx, "C01")
    ctx.evaluations += inflight.run_noprot(ctx)
    from . import memberkeys
    ctx.evaluations += memberkeys.run(ctx)      # general JSON: every member under the key resolved for it (JwsMemberKeys.tla)
    spairs = [(k, a, b, 1, ctx.seed, 20 if thorough else 4) for k in (("oct256", "EC:P-256", "RSA2048") if thorough else ("oct256", "EC:P-256"))
              for a, b in (("verify_forged", "verify"), ("verify_forged", "verify2"), ("verify_forged", "verify_forged"), ("verify_forged", "sign"))]
    for (kind, a, b, na, nb), n, found in pmap(c20.explore, spairs, chunksize=1, procs=8):
        ctx.evaluations += n
        ctx.nontrivial.add(f"sched:{kind}:{a}|{b}")
        for pr, pre, first in found[:3]:
            ctx.violation(f"jws:threads {a}||{b} [{kind}] -> {pr.split(':', 1)[-1].strip().split(' and returned')[0][:70]}",
                          {"kind": kind, "ops": [a, b], "preempts": pre, "first": first, "problem": pr})
    _pool_init()
    for sc in scs:
        ctx.nontrivial.add(json.dumps(sc, sort_keys=True))
    if nok < 1000:
        raise MachineryError(f"vacuous run: only {nok} verifications succeeded")
    ctx.traces = len(scs) * len(ALGS)
    ctx.exhaustive = thorough
    ctx.notes.update(abstract_behaviours=len(scs), algorithms=[f"{a}/{k}" for a, k in ALGS], accepted=nok)
    ctx.rule = ("every behaviour of Jws.tla with <=2 attacker edits (honest token in 3 serializations with 1..2 signatures, RFC 7797 raw mode or not; "
                "edits of header octets/payload text/signature/unprotected members/list structure/shape; entry point jws|7797|jwt; key K1|K2) is "
                "concretised for 15 algorithm/key pairs; quick = 1 concrete variant per behaviour, thorough = 3 variants and for single-edit behaviours "
                "every bit of the decoded header, payload and signature and every truncation length; distinct_nontrivial = distinct abstract behaviours")
    for i in (5, 700, 4001):
        ctx.sample({"behaviour": scs[i % len(scs)]})
    ctx.assumptions = ["ideal cryptography in the model; unforgeability of the primitives is trusted",
                       "a reject where the model accepts is reported as drift (C03 covers the round trip)"]


def replay(ctx: Ctx, rec: dict) -> None:
    from .common import _pool_init
    _pool_init()
    if rec.get("inflight"):
        from . import inflight
        return inflight.replay(ctx, rec)
    if "memberkeys_case" in rec:
        from . import memberkeys
        return memberkeys.replay(ctx, rec)
    if "ops" in rec:
        from . import c20
        problems, _ = c20.run_schedule(rec["kind"], rec["ops"], [tuple(p) for p in rec["preempts"]], rec["first"])
        print("ops", rec["ops"], "preempts", rec["preempts"], "-> problems now:", problems)
        if problems:
            ctx.violation(rec["signature"], {"problems": problems})
        return
    sc = rec["scenario"]
    m = material(rec["alg"], rec["key_kind"], sc["raw"], sc["ep"] == "jwt")
    tok = assemble(sc, m, rec.get("variant", 0))
    res = verify(sc, m, tok)
    print("scenario:", json.dumps(sc)); print("token:", tok if isinstance(tok, str) else json.dumps(tok)); print("observed now:", res[:3])
    if res[0] == "ok" and sc["verdict"] != "ok":
        ctx.violation(rec["signature"], {"scenario": sc, "alg": rec["alg"], "key_kind": rec["key_kind"], "variant": rec.get("variant", 0)})
