"""C05 - only caller-allowed algorithms are ever used; default = recommended set; no dependence on earlier calls.

Spec: spec/AlgRegistry.tla over the documented tables of spec/JoseDefs.tla.  TLC enumerates every single call
(alg/enc/zip name x allow-list shape x algorithms=/registry= x operation x serialization x registered drafts) and every
history of calls (exhaustive to 2 calls, simulated to 4, with draft registrations interleaved), checks the gate of
layer O against the declarative rule, and exports each behaviour.  Binding B1: each behaviour is executed against the
real library in a process whose registered drafts match the behaviour (a fresh process per history), with suitable
keys and refimpl-forged tokens on the consuming side; each call's outcome must be in the allowed set TLC computed.
"""
from __future__ import annotations
import json
import random

from .common import Ctx, MachineryError, pmap
from . import joseops as J
from . import refimpl as R
from . import keys as K


def run_call(c: dict) -> str:
    """execute one abstract call against joserfc -> ok / unsupported / fail:<Type>"""
    from joserfc.errors import UnsupportedAlgorithmError
    from joserfc import jwe
    side, op, ser, via, allow = c["side"], c["op"], c["ser"], c["via"], c["allow"]
    try:
        if side == "jws":
            alg = c["alg"]
            jwk = J.jws_key_for(alg)
            hdr = J.jws_header(alg, ser)
            payload = J.jws_payload(ser)
            kw = J.jws_allow_args(allow, via, rfc7797=ser.startswith("7797"))
            if op == "produce":
                tok = J.jws_produce(ser, hdr, payload, J.jkey(jwk), **kw)
                if not tok:
                    return "fail:empty"
                return "ok"
            if ser == "jwt":
                hdr = {"typ": "JWT", **hdr}
            tok = J.jws_forge(ser, hdr, payload, jwk)
            got = J.jws_consume(ser, tok, J.jkey(J.pub(jwk)), **kw)
            return "ok" if got == payload else "fail:content"
        alg, enc, zp = c["alg"], c["enc"], c["zip"]
        jwk = J.jwe_key_for(alg, enc)
        sender = K.get(K.jwe_key_kind(alg, enc), 1) if isinstance(alg, str) and alg.startswith("ECDH-1PU") else None
        hdr = J.jwe_header(alg, enc, zp)
        pt = J.jwe_plain(ser)
        kw = J.jwe_allow_args(allow, via, jwt=(ser == "jwt"))
        if op == "produce":
            tok = J.jwe_produce("general" if ser == "general_any" else ser, hdr, pt, J.jkey(J.pub(jwk)), sender=J.jkey(sender) if sender else None, **kw)
            return "ok" if tok else "fail:empty"
        if ser == "jwt":
            hdr = {"typ": "JWT", **hdr}
        if ser == "general_any":
            multi = (via == "registry" and isinstance(alg, str) and alg in R.JWE_ALGS and alg not in ("dir", "ECDH-ES")
                     and isinstance(enc, str) and enc in R.ENC and zp in ("", "DEF"))
            if not multi:
                ser = "general"          # (no such token exists for direct modes / names refimpl cannot produce; algorithms= builds its own registry)
            else:
                other, okind = ("A256KW", "oct256") if alg == "A128KW" else ("A128KW", "oct128")
                prot = {k: v for k, v in hdr.items() if k not in ("alg", "p2c")}       # (algorithm-specific members go with their recipient)
                mine = {k: v for k, v in hdr.items() if k in ("alg", "p2c")}
                parts = R.jwe_encrypt(prot, pt, [{"jwk": jwk, "header": mine}, {"jwk": K.get(okind), "header": {"alg": other}}])
                tok = R.jwe_json(parts, flattened=False)
                lst = None if allow["kind"] in ("absent", "empty") else sorted(set(allow["names"]) | {other})
                reg = jwe.JWERegistry(algorithms=lst, verify_all_recipients=False)
                got = jwe.decrypt_json(tok, J.jkey(K.get(okind)), registry=reg).plaintext
                return "ok" if got == pt else "fail:content"
        tok = J.jwe_forge(ser, hdr, pt, jwk, sender)
        got = J.jwe_consume(ser, tok, J.jkey(jwk), sender=J.jkey(J.pub(sender)) if sender else None, **kw)
        return "ok" if got == pt else "fail:content"
    except UnsupportedAlgorithmError:
        return "unsupported"
    except BaseException as e:  # noqa
        if isinstance(e, (KeyboardInterrupt, SystemExit)):
            raise
        return "fail:" + type(e).__name__


def run_call_nested(c: dict) -> str:
    """the same call, but the key is a callable that - before handing out the key - performs another joserfc operation with
    a *different* allow-list (a re-entrant caller); the outer call must still honour exactly its own list"""
    from joserfc import jwe, jws
    from joserfc.errors import UnsupportedAlgorithmError
    side, op, ser, via, allow = c["side"], c["op"], c["ser"], c["via"], c["allow"]
    ser = "general" if ser == "general_any" else ser
    try:
        if side == "jws":
            alg = c["alg"]
            jwk = J.jws_key_for(alg)
            inner = J.jkey(K.get("oct512"))

            def keyfn(obj):
                jws.serialize_compact({"alg": "HS512"}, b"inner", inner, algorithms=["HS512"])
                return J.jkey(jwk if op == "produce" else J.pub(jwk))
            hdr, payload = J.jws_header(alg, ser), J.jws_payload(ser)
            kw = J.jws_allow_args(allow, via, rfc7797=ser.startswith("7797"))
            if op == "produce":
                return "ok" if J.jws_produce(ser, hdr, payload, keyfn, **kw) else "fail:empty"
            tok = J.jws_forge(ser, ({"typ": "JWT", **hdr} if ser == "jwt" else hdr), payload, jwk)
            return "ok" if J.jws_consume(ser, tok, keyfn, **kw) == payload else "fail:content"
        alg, enc, zp = c["alg"], c["enc"], c["zip"]
        jwk = J.jwe_key_for(alg, enc)
        inner = J.jkey(K.get("oct192"))

        def keyfn(obj):
            jwe.encrypt_compact({"alg": "A192KW", "enc": "A192GCM"}, b"inner", inner, algorithms=["A192KW", "A192GCM"])
            return J.jkey(J.pub(jwk) if op == "produce" else jwk)
        hdr, pt = J.jwe_header(alg, enc, zp), J.jwe_plain(ser)
        kw = J.jwe_allow_args(allow, via, jwt=(ser == "jwt"))
        if op == "produce":
            if ser in ("flattened", "general"):
                cls = jwe.FlattenedJSONEncryption if ser == "flattened" else jwe.GeneralJSONEncryption
                obj = cls(hdr, pt); obj.add_recipient(None)
                return "ok" if jwe.encrypt_json(obj, keyfn, **kw) else "fail:empty"
            return "ok" if J.jwe_produce(ser, hdr, pt, keyfn, **kw) else "fail:empty"
        tok = J.jwe_forge(ser, ({"typ": "JWT", **hdr} if ser == "jwt" else hdr), pt, jwk)
        return "ok" if J.jwe_consume(ser, tok, keyfn, **kw) == pt else "fail:content"
    except UnsupportedAlgorithmError:
        return "unsupported"
    except BaseException as e:  # noqa
        if isinstance(e, (KeyboardInterrupt, SystemExit)):
            raise
        return "fail:" + type(e).__name__


def _nested_group(hists):
    out = []
    for h in hists:
        c = h[0]["c"]
        if skip(c) or (isinstance(c["alg"], str) and c["alg"].startswith("ECDH-1PU")):
            out.append("skip")
        else:
            out.append(run_call_nested(c))
    return out


def skip(c: dict) -> bool:
    # jwt.encode/decode have no sender_key parameter: ECDH-1PU cannot be used through that API
    return c["side"] == "jwe" and c["ser"] == "jwt" and isinstance(c["alg"], str) and c["alg"].startswith("ECDH-1PU")


def run_history(hist: list) -> list:
    """one behaviour in this (fresh) process: registrations and calls in order -> list of observed outcomes"""
    out = []
    for step in hist:
        if step["t"] == "register":
            J.register_drafts([step["d"]])
            out.append("registered")
        else:
            if set(step["reg"]) != J.registered_drafts():
                out.append("machinery:registered-drafts-mismatch")
            elif skip(step["c"]):
                out.append("skip")
            else:
                out.append(run_call(step["c"]))
    return out


def _single_group(args):
    reg, hists = args
    J.register_drafts(reg)
    return [run_history(h) for h in hists]


def sig(c: dict, obs: str, pos: int, n: int) -> str:
    al = c["allow"]
    names = sorted(al["names"])
    shape = al["kind"] if al["kind"] != "list" else ("list" + (str(names) if len(names) <= 4 else f"[{len(names)} names]"))
    return (f"{c['side']}.{c['op']}.{c['ser']} alg={c['alg']} enc={c['enc']} zip={c['zip']} allow={shape}"
            f" via={c['via']} -> {obs} (call {pos}/{n})")


def judge(ctx: Ctx, hist: list, obs: list) -> None:
    calls = [s for s in hist if s["t"] == "call"]
    k = 0
    for step, o in zip(hist, obs):
        if step["t"] != "call":
            continue
        k += 1
        if o == "skip":
            continue
        if o.startswith("machinery:"):
            raise MachineryError(o)
        ctx.evaluations += 1
        c = step["c"]
        kind = o.split(":")[0]
        if kind not in step["allowed"]:
            ctx.violation(sig(c, o, k, len(calls)), {"history": hist, "observed": obs, "failing_call": k})
        elif kind != step["out"]:
            ctx.note_drift({"call": c, "predicted": step["out"], "observed": o})
        ctx.nontrivial.add(json.dumps(c, sort_keys=True) + "|" + json.dumps(step["reg"]))


def trace_api(ctx: Ctx, prop: str = "C05") -> None:
    """B2: the repository's own test-suite, run under the API tracer, must be a behaviour of the gate (TraceApi.tla)."""
    import os, subprocess, copy
    from .common import REPO, VERIF
    nd = ctx.scratch / "api.ndjson"
    env = dict(os.environ, JOSERFC_VERIF="1", JOSERFC_VERIF_TRACE=str(nd), PYTHONPATH=f"{REPO / 'src'}:{VERIF}", PYTHONDONTWRITEBYTECODE="1")
    p = subprocess.run(["/venv/bin/python", "-B", "-m", "pytest", "-q", "-p", "no:cacheprovider", "-p", "harness.verif_pytest_plugin", "-x", "--co", "-q"],
                       cwd=str(REPO), env=env, capture_output=True, text=True, timeout=300)
    p = subprocess.run(["/venv/bin/python", "-B", "-m", "pytest", "-q", "-p", "no:cacheprovider", "-p", "harness.verif_pytest_plugin"],
                       cwd=str(REPO), env=env, capture_output=True, text=True, timeout=900)
    if not nd.exists():
        raise MachineryError("tracer produced no events: " + p.stdout[-300:] + p.stderr[-300:])
    events = [json.loads(l) for l in nd.read_text().splitlines() if l.strip()]
    if len(events) < 300:
        raise MachineryError(f"only {len(events)} API events recorded from the repository's tests")

    def validate(evs, name):
        f = ctx.scratch / f"{name}.json"
        f.write_text(json.dumps(evs))
        r = ctx.tlc("TraceApi", env={"TRACE_FILE": str(f)}, timeout=600)
        if not r.cases or r.distinct < len(evs):
            raise MachineryError("TraceApi did not consume the whole trace")
        return r.cases[-1]
    rep = validate(events, "api_trace")
    for rj in rep["rejected"]:
        owner = "C15" if rj["clause"].startswith("operation succeeded although") else \
            ("C06" if rj["clause"].startswith(("operation succeeded with a key", "operation succeeded with a public key")) else "C05")
        if owner != prop:
            continue                      # header-rule clauses belong to C15, key-suitability clauses to C06, algorithm clauses to C05
        ctx.violation(f"traceapi:{rj['api']} {rj['clause']}", {"event_seq": rj["seq"], "names": rj["names"], "source": "repository test-suite under the API tracer"})
    # binding demonstration: corrupt one recorded field -> the trace must be rejected at that event
    ok_ev = next(i for i, e in enumerate(events) if e["judged"] and e["outcome"] == "ok" and e["side"] == "jws" and e["entries"] and e["entries"][0]["alg"] == "HS256")
    bad = copy.deepcopy(events[:ok_ev + 1]); bad[ok_ev]["entries"][0]["alg"] = "HS384"; bad[ok_ev]["algorithms"] = []; bad[ok_ev]["algorithms_given"] = False
    bad[ok_ev]["registry_given"] = False; bad[ok_ev]["registry_has_list"] = False
    rep2 = validate(bad, "api_trace_corrupted")
    if not any(r["seq"] == bad[ok_ev]["seq"] for r in rep2["rejected"]):
        raise MachineryError("binding demonstration failed: a corrupted API event was accepted by TraceApi")
    # ... and one header member of a wrong JSON type in a successful call (the C15 rule evaluated on recorded calls)
    hi = next(i for i, e in enumerate(events) if e["headers_judged"] and e["outcome"] == "ok" and "alg" in e["headers"][0]["names"])
    bad2 = copy.deepcopy(events[:hi + 1]); h0 = bad2[hi]["headers"][0]; h0["classes"][h0["names"].index("alg")] = "int"
    rep3 = validate(bad2, "api_trace_corrupted_header")
    if not any(r["seq"] == bad2[hi]["seq"] and "wrong JSON type" in r["clause"] for r in rep3["rejected"]):
        raise MachineryError("binding demonstration failed: a successful call with an ill-typed header member was accepted by TraceApi")
    if rep["keys_judged_ok"] < 200:
        raise MachineryError(f"only {rep['keys_judged_ok']} successful calls had their key judged")
    if rep["headers_judged_ok"] < 200:
        raise MachineryError(f"only {rep['headers_judged_ok']} successful calls had their header judged")
    ctx.traces += 1
    ctx.evaluations += len(events)
    ctx.notes["api_trace"] = {"events": len(events), "judged_ok": rep["judged_ok"], "headers_judged_ok": rep["headers_judged_ok"], "keys_judged_ok": rep["keys_judged_ok"], "rejected": len(rep["rejected"]),
                              "source": "repository test-suite (pytest -p harness.verif_pytest_plugin)", "binding_demo": "corrupted event rejected"}


def dedupe(cases):
    seen, out = set(), []
    for h in cases:
        s = json.dumps(h, sort_keys=True)
        if s not in seen:
            seen.add(s); out.append(h)
    return out


def run(ctx: Ctx) -> None:
    from .common import FreshPool
    thorough = ctx.tier == "thorough"
    rnd = random.Random(ctx.seed)
    with FreshPool() as pool:               # created while this process is still small
        singles = []
        for fam in ("jws", "jwealg", "jweenc"):
            r = ctx.tlc("AlgRegistry", "AlgRegistry_" + fam, timeout=900)
            singles += dedupe(r.cases)
        for d in ("AllowListLeaks", "RecommendedFlipped", "NoneVerifies", "JsonConsumeSkipsGate", "EmptyListMeansNothing", "EncNotGated"):
            ctx.sensitivity("AlgRegistry", "AlgRegistry_dev_" + d)
        rh = ctx.tlc("AlgRegistry", "AlgRegistry_history", timeout=900)
        hists2 = dedupe(rh.cases)
        if len(singles) < 50000 or len(hists2) < 20000:
            raise MachineryError(f"behaviour export too small: {len(singles)} {len(hists2)}")
        rs = ctx.tlc("AlgRegistry", "AlgRegistry_history_sim", simulate=f"num={3000 if thorough else 300}", depth=7,
                     seed=ctx.seed + 1, timeout=1200)
        hists4 = dedupe(rs.cases)
        # quick: every JWS call, a seeded third of the JWE calls, 1500 two-call and all simulated histories
        if not thorough:
            singles = [h for h in singles if h[0]["c"]["side"] == "jws" or rnd.random() < 0.34]
            hists2 = rnd.sample(hists2, 1500)
            hists4 = rnd.sample(hists4, min(len(hists4), 1500))
        # single calls: batches that share the registered-drafts state, each batch in its own fresh process
        groups: dict = {}
        for h in singles:
            groups.setdefault(tuple(h[0]["reg"]), []).append(h)
        tasks = []
        for reg, hs in groups.items():
            for i in range(0, len(hs), 250):
                tasks.append((list(reg), hs[i:i + 250]))
        res = pool.map(_single_group, tasks)
        for (reg, hs), obs in zip(tasks, res):
            for h, o in zip(hs, obs):
                judge(ctx, h, o)
        # re-entrant callers: a seeded sample of the single calls again, with a callable key that makes a nested call
        nest = [h for h in singles if not h[0]["reg"] and h[0]["c"]["allow"]["kind"] == "list" and rnd.random() < (1.0 if thorough else 0.12)]
        ntasks = [nest[i:i + 200] for i in range(0, len(nest), 200)]
        for hs, obs in zip(ntasks, pool.map(_nested_group, ntasks)):
            for h, o in zip(hs, obs):
                if o == "skip":
                    continue
                ctx.evaluations += 1
                if o.split(":")[0] not in h[0]["allowed"]:
                    ctx.violation("nested-call " + sig(h[0]["c"], o, 1, 1), {"history": h, "observed": o, "how": "key given as a callable that makes another joserfc call with a different allow-list"})
        ctx.notes["nested_call_cases"] = len(nest)
        hists = hists2 + hists4
        obs_h = pool.map(run_history, hists, chunksize=8)       # a fresh process per history
        for h, o in zip(hists, obs_h):
            judge(ctx, h, o)
    ctx.traces = len(singles) + len(hists)
    trace_api(ctx)
    ctx.exhaustive = thorough
    ctx.notes["behaviours"] = {"single_calls": len(singles), "histories_2": len(hists2), "histories_sim": len(hists4)}
    ctx.rule = ("each TLC behaviour = a sequence of draft registrations and calls (side, op, serialization, alg/enc/zip name incl. unknown, "
                "wrong-position and ill-typed names, allow-list shape, algorithms=/registry=); replayed in a process whose registered drafts "
                "match, a fresh process per multi-call history; distinct_nontrivial = distinct (call, registered drafts) pairs executed")
    ctx.sample(singles[17]); ctx.sample(hists2[3]); ctx.sample(hists4[0] if hists4 else hists2[4])
    ctx.assumptions = ["algorithms=[] behaves as absent (DESIGN 5); algorithms= and registry= given together only for jwt over JWE",
                       "ECDH-1PU through jwt.encode/decode is skipped (no sender_key parameter)",
                       "ill-typed names: any failure accepted (escape types are C16's concern)"]


def replay(ctx: Ctx, rec: dict) -> None:
    from .common import FreshPool
    with FreshPool(1) as pool:
        obs = pool.map(run_history, [rec["history"]])[0]
    print(json.dumps(rec["history"], indent=1)); print("observed now:", obs)
    judge(ctx, rec["history"], obs)
