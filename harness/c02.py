"""C02 - JWE decryption returns only authenticated plaintext.

Spec: spec/Jwe.tla (Dolev-Yao model with ideal AEAD whose associated data is the *received* protected header octets;
two honest tokens; attacker edits of protected header (incl. re-spelling), AAD, IV, ciphertext, tag, recipient entries
(encrypted key, per-recipient epk/header), recipient list; keys offered; any-recipient opt-in).  TLC checks AuthPlain on
every reachable verdict for the four key-management shapes (wrap, wrap with tag-bound KEK, shared key, direct agreement)
and exports each behaviour with the intended verdict.  Binding B1: behaviours are concretised for every algorithm with
refimpl-made honest tokens and octet-level edits and fed to jwe.decrypt_compact / decrypt_json.
"""
from __future__ import annotations
import json
import random

from .common import Ctx, MachineryError
from . import joseops as J
from . import refimpl as R
from . import keys as K

ALL_ALGS = R.JWE_ALGS + R.JWE_1PU
ENCS = list(R.ENC)


def mode_of(alg: str) -> str:
    if alg == "dir": return "dir"
    if alg in ("ECDH-ES", "ECDH-1PU"): return "agree"
    if alg.startswith("ECDH-1PU+"): return "wraptag"
    return "wrap"


def flip(b: bytes, v: int) -> bytes:
    if not b:
        return b"\x01"
    o = bytearray(b)
    bit = v % (len(o) * 8)
    o[bit // 8] ^= 1 << (bit % 8)
    return bytes(o)


def lib_encrypt(prot, pt, recs, aad, ser):
    """the honest token made by joserfc, taken apart into the parts refimpl.jwe_encrypt returns"""
    from joserfc import jwe
    names = list(R.JWE_ALGS + R.JWE_1PU) + list(R.ENC)
    reg = jwe.JWERegistry(algorithms=names)
    key = J.jkey(J.pub(recs[0]["jwk"]))
    kw = {"sender_key": J.jkey(recs[0]["sender"])} if recs[0].get("sender") else {}
    if ser == "compact":
        tok = jwe.encrypt_compact(dict(prot), pt, key, registry=reg, **kw)
        h, ek, iv, ct, tag = tok.split(".")
        rl = [{"header": None, "encrypted_key": R.b64d(ek)}]
    else:
        cls = jwe.FlattenedJSONEncryption if ser == "flattened" else jwe.GeneralJSONEncryption
        obj = cls(dict(prot), pt, None, aad)
        for _ in recs:
            obj.add_recipient(None, key)
            if ser == "flattened":
                break
        tok = jwe.encrypt_json(obj, None, registry=reg, **kw)
        h, iv, ct, tag = tok["protected"], tok["iv"], tok["ciphertext"], tok["tag"]
        rl = [{"header": r.get("header"), "encrypted_key": R.b64d(r.get("encrypted_key", ""))} for r in (tok["recipients"] if "recipients" in tok else [tok])]
    return {"protected": h.encode(), "unprotected": None, "aad": aad, "iv": R.b64d(iv), "ciphertext": R.b64d(ct), "tag": R.b64d(tag),
            "recipients": rl, "protected_dict": json.loads(R.b64d(h))}


class Material:
    def __init__(self, alg, enc, ser, n, haad, aligned=False):
        self.alg, self.enc, self.ser, self.n = alg, enc, ser, n
        kind = K.jwe_key_kind(alg, enc)
        self.r1, self.r2 = K.get(kind, 0), K.get(kind, 1)
        self.is1pu = alg.startswith("ECDH-1PU")
        skind = kind if self.r1["kty"] in ("EC", "OKP") else "EC:P-256"
        self.s1 = K.get(skind, 1) if self.is1pu else None
        self.s2 = K.get(skind, 0) if self.is1pu else None
        if self.is1pu:       # sender keys distinct from the recipient's
            self.s1 = R.gen_like(self.r1); self.s2 = R.gen_like(self.r1)
        self.P = {1: b"plaintext of token one \x00\xff", 2: b"the second plaintext \x01\xfe!"}
        if aligned:     # ciphertexts of exactly 4096 and 8192 octets under CBC (PKCS#7 pads 4090 -> 4096, 8180 -> 8192)
            self.P = {1: (b"aligned plaintext one " * 200)[:4090], 2: (b"the second aligned plaintext " * 300)[:8180]}
        self.Av = {1: b"aad-one", 2: b"aad-two"}                 # AAD values the attacker may put on the wire
        self.A = self.Av if haad else {1: None, 2: None}        # AAD the honest tokens were made with
        self.T = {}
        for i in (1, 2):
            prot = {"alg": alg, "enc": enc, "cty": "tok%d" % i}
            if alg.startswith("PBES2"):
                prot["p2c"] = 8
            recs = [{"jwk": self.r1, "sender": self.s1, "where": "protected" if ser == "compact" else "header"} for _ in range(n)]
            # block-aligned materials are produced by joserfc itself: what it leaves unauthenticated when producing AND
            # consuming would never show on tokens whose tag an independent implementation computed
            self.T[i] = lib_encrypt(prot, self.P[i], recs, self.A[i], ser) if aligned else R.jwe_encrypt(prot, self.P[i], recs, aad=self.A[i])
        d1 = self.T[1]["protected_dict"]
        self.R1 = R.b64e(json.dumps(d1, separators=(" , ", " : ")).encode())
        self.otherpub = R.public_jwk(R.gen_like(self.r1)) if self.r1["kty"] in ("EC", "OKP") else {"kty": "EC", "crv": "P-256", "x": "AA", "y": "AA"}

    def build(self, w, v):
        T = self.T
        hseg = {"H1": T[1]["protected"], "H2": T[2]["protected"], "R1": self.R1}.get(w["h"]) or R.b64e(flip(R.b64d(T[1]["protected"]), v))
        iv = {"IV1": T[1]["iv"], "IV2": T[2]["iv"], "IVX": flip(T[1]["iv"], v), "IVshort": T[1]["iv"][:-1 - (v % 3)],
              "IVlong": T[1]["iv"] + bytes(1 + v % 4)}[w["iv"]]
        ct = {"C1": T[1]["ciphertext"], "C2": T[2]["ciphertext"], "CX": flip(T[1]["ciphertext"], v)}[w["ct"]]
        t1 = T[1]["tag"]
        tag = {"T1": t1, "T2": T[2]["tag"], "TX": flip(t1, v), "Tshort": t1[:[-1, 8, 0, 12, 4][v % 5]] if v % 5 else t1[:-1],
               "Tlong": t1 + bytes(1 + v % 3)}[w["tag"]]
        aad = {"none": None, "A1": self.Av[1], "A2": self.Av[2], "AX": flip(self.Av[1], v), "A0": b""}[w["aad"]]
        # paired faults: a length change of one segment together with the complementary change of its neighbour
        # (the octets only move across the segment boundary, so naive concatenation sees the same string)
        if v % 2 == 0 and w["ct"] == "CX":
            k = 1 + (v // 2) % 15
            c1 = T[1]["ciphertext"]
            if w["tag"] == "Tshort" and w["iv"] == "IV1":
                ct, tag = c1 + t1[:k], t1[k:]
            elif w["tag"] == "Tlong" and w["iv"] == "IV1" and len(c1) > k:
                ct, tag = c1[:-k], c1[-k:] + t1
            elif w["iv"] == "IVshort" and w["tag"] == "T1":
                i1 = T[1]["iv"]; k = 1 + (v // 2) % 4
                iv, ct = i1[:-k], i1[-k:] + c1
            elif w["iv"] == "IVlong" and w["tag"] == "T1" and len(c1) > 4:
                i1 = T[1]["iv"]; k = 1 + (v // 2) % 4
                iv, ct = i1 + c1[:k], c1[k:]
        recs = []
        for j, r in enumerate(w["recs"]):
            src = T[r["from"]]["recipients"][j % self.n]
            ek = src["encrypted_key"]
            hdr = dict(src["header"]) if src["header"] else {}
            m = r["mod"]
            if m == "ek_junk": ek = flip(ek, v)
            elif m == "ek_empty": ek = b""
            elif m == "ek_extra": ek = ek + bytes([v % 256 or 1])
            elif m == "epk_other": hdr["epk"] = self.otherpub
            elif m == "epk_bad":
                e = dict(hdr.get("epk") or self.otherpub)
                # X25519 ignores the most significant bit of the u-coordinate (RFC 7748 section 5): flipping it is the same key
                nbits = 255 if e.get("crv") == "X25519" else len(R.b64d(e["x"])) * 8
                e["x"] = R.b64e(flip(R.b64d(e["x"]), (3 + v) % nbits)).decode()
                hdr["epk"] = e
            elif m == "hdr_unknown": hdr["zzz"] = 1
            recs.append((ek, hdr))
        if w["ser"] == "compact":
            ek = recs[0][0]
            return b".".join([hseg, R.b64e(ek), R.b64e(iv), R.b64e(ct), R.b64e(tag)]).decode()
        d = {"protected": hseg.decode(), "iv": R.b64e(iv).decode(), "ciphertext": R.b64e(ct).decode(), "tag": R.b64e(tag).decode()}
        if aad is not None:
            d["aad"] = R.b64e(aad).decode()
        rl = []
        for ek, hdr in recs:
            e = {}
            if hdr: e["header"] = hdr
            if ek: e["encrypted_key"] = R.b64e(ek).decode()
            rl.append(e)
        if w["ser"] == "flattened":
            d.update(rl[0])
        else:
            d["recipients"] = rl
        return d


_MAT: dict = {}


def material(alg, enc, ser, n, haad, aligned=False) -> Material:
    k = (alg, enc, ser, n, haad, aligned)
    if k not in _MAT:
        _MAT[k] = Material(alg, enc, ser, n, haad, aligned)
    return _MAT[k]


def call_style(sc) -> int:
    import zlib
    st = zlib.crc32(json.dumps([sc["w"], sc["edits"], sc["key"]], sort_keys=True).encode()) % 4
    # the model judges header members the strict way; a registry that tolerates unregistered names is used only where the
    # attacker added none to the (unauthenticated) per-recipient header
    if any(r["mod"] in ("epk_other", "epk_bad", "hdr_unknown") for r in sc["w"]["recs"]):
        return 0 if st in (0, 2, 3) and not sc["anyrec"] else (1 if not sc["anyrec"] else 0)
    return st


def decrypt(sc, m: Material, tok):
    from joserfc import jwe
    key = J.jkey(m.r1 if sc["key"] == "R1" else m.r2)
    kw = {}
    if m.is1pu:
        kw["sender_key"] = J.jkey(R.public_jwk(m.s1 if sc["sender"] == "S1" else m.s2))
    names = [m.alg, m.enc, "DEF"]
    # the ways a caller conveys its configuration; only verify_all_recipients=False is an opt-in to any-recipient validation
    style = call_style(sc)
    if sc["anyrec"]:
        kw["registry"] = jwe.JWERegistry(algorithms=names, verify_all_recipients=False, strict_check_header=style % 2 == 0)
    elif style == 0:
        kw["registry"] = jwe.JWERegistry(algorithms=names)
    elif style == 1:
        kw["algorithms"] = names
    elif style == 2:
        kw["algorithms"] = names; kw["registry"] = jwe.JWERegistry(strict_check_header=False)
    else:
        kw["registry"] = jwe.JWERegistry(algorithms=names, strict_check_header=False)
    try:
        if sc["w"]["ser"] == "compact":
            o = jwe.decrypt_compact(J.F(tok), key, **kw)
        else:
            o = jwe.decrypt_json(tok, key, **kw)
        return "ok", o.plaintext
    except BaseException as e:  # noqa
        if isinstance(e, (KeyboardInterrupt, SystemExit)):
            raise
        return "reject", type(e).__name__


def _init():
    from .common import _pool_init
    _pool_init()
    J.register_drafts({"1pu", "chacha"})


def run_batch(args):
    (alg, enc), scs, nvar, seed, sweep = args
    out = []
    n = nok = 0
    for si, sc in scs:
        w = sc["w"]
        if sc["sender"] == "S2" and not alg.startswith("ECDH-1PU"):
            continue                      # a sender key exists for ECDH-1PU only
        m = material(alg, enc, w["ser"], _orig_n(sc), w["haad"])
        exp_ok = sc["verdict"] == "ok"
        if sweep and len(sc["edits"]) == 1 and sc["edits"][0][-1] in ("X", "AX", "IVX", "CX", "TX", "ek_junk", "Tshort"):
            target = {"X": R.b64d(m.T[1]["protected"]), "AX": m.A[1] or b"x", "IVX": m.T[1]["iv"], "CX": m.T[1]["ciphertext"],
                      "TX": m.T[1]["tag"], "ek_junk": m.T[1]["recipients"][0]["encrypted_key"] or b"x", "Tshort": b"12345"[:1] * 1}[sc["edits"][0][-1]]
            variants = range(max(5, len(target) * 8))
        else:
            variants = [(seed + si * 7 + j * 13) % 997 for j in range(nvar)]
            if len(sc["edits"]) == 2 and w["ct"] == "CX" and (w["tag"] in ("Tshort", "Tlong") or w["iv"] in ("IVshort", "IVlong")):
                variants = [2 * j for j in range(6)] + variants          # boundary shifts of 1..6 octets
        runs = [(m, v) for v in variants]
        if w["ct"] in ("CX", "C2") or not sc["edits"]:
            # the same behaviour on block-aligned long ciphertexts (4096 / 8192 octets): altered octets anywhere in them
            ma = material(alg, enc, w["ser"], _orig_n(sc), w["haad"], True)
            runs += [(ma, (seed * 31 + si * 977 + j * 4099) % 32768) for j in range(2)]
        for m, v in runs:
            try:
                tok = m.build(w, v)
            except Exception as e:  # noqa
                out.append(("machinery", si, v, alg, enc, repr(e)[:100])); break
            res = decrypt(sc, m, tok)
            n += 1
            if res[0] == "ok":
                nok += 1
                if not exp_ok:
                    out.append(("accepted", si, v, alg, enc, repr(res[1])[:60]))
                elif res[1] != m.P[1 if sc["returned"] == "P1" else 2]:
                    out.append(("wrong-plaintext", si, v, alg, enc, repr(res[1])[:60]))
            elif exp_ok:
                out.append(("drift", si, v, alg, enc, res[1]))
    return out, n, nok


def _orig_n(sc) -> int:
    n = len(sc["w"]["recs"])
    for e in sc["edits"]:
        if e[0] == "drop": n += 1
        if e[0] == "add_rec_from": n -= 1
    return max(1, min(2, n))


def sig_of(sc, what) -> str:
    ed = ";".join("/".join(str(x) for x in e) for e in sc["edits"]) or "none"
    w = sc["w"]
    return (f"jwe:{sc['mode']}{'+tag' if sc['tagbound'] else ''}.{w['ser']} aad={w['haad']} edits=[{ed}] nrec={len(w['recs'])} key={sc['key']} "
            f"sender={sc['sender']} any={sc['anyrec']} -> {what}")


def load(ctx: Ctx, with_dev: bool):
    rs = ctx.tlc_many([("Jwe", "Jwe_" + m, {"timeout": 1200}) for m in ("wrap", "dir", "agree", "wraptag")])
    if with_dev:
        ctx.tlc_many([("Jwe", "Jwe_dev_" + d, {"timeout": 600, "expect_violation": True})
                      for d in ("AadFromParsedHeader", "TagPrefixCompared", "NonEmptyEkAccepted", "MultipleCekIgnored", "ErrorsAlwaysSwallowed", "EmptyAadReparsed")])
    by_mode = {}
    for name, r in zip(("wrap", "dir", "agree", "wraptag"), rs):
        seen, lst = set(), []
        for c in r.cases:
            k = json.dumps(c, sort_keys=True)
            if k not in seen:
                seen.add(k); lst.append(c)
        if len(lst) < 5000:
            raise MachineryError(f"behaviour export too small for {name}: {len(lst)}")
        by_mode[name] = lst
    return by_mode


def pairs(thorough: bool, seed: int):
    out = []
    for i, a in enumerate(ALL_ALGS):
        encs = ENCS if thorough else [ENCS[(i + seed) % len(ENCS)]]
        for e in encs:
            if a.startswith("ECDH-1PU+") and "CBC" not in e:
                e = "A128CBC-HS256" if not thorough else None
            if e:
                out.append((a, e))
    if not thorough:
        out += [("A128KW", e) for e in ENCS] + [("dir", e) for e in ENCS[:3]]
    return sorted(set(out))


def run(ctx: Ctx) -> None:
    thorough = ctx.tier == "thorough"
    rnd = random.Random(ctx.seed)
    by_mode = load(ctx, True)
    tasks = []
    for (a, e) in pairs(thorough, ctx.seed):
        scs = list(enumerate(by_mode[mode_of(a)]))
        if not thorough:
            def paired(sc):
                kinds = sorted(e[0] + "/" + str(e[-1]) for e in sc["edits"])
                return kinds in (["ct/CX", "tag/Tshort"], ["ct/CX", "tag/Tlong"], ["ct/CX", "iv/IVshort"], ["ct/CX", "iv/IVlong"])
            keep = [x for x in scs if x[1]["verdict"] == "ok" or len(x[1]["edits"]) <= 1 or paired(x[1])]
            rest = [x for x in scs if not (x[1]["verdict"] == "ok" or len(x[1]["edits"]) <= 1 or paired(x[1]))]
            scs = keep + rnd.sample(rest, min(len(rest), 700))
        elif len(ENCS) > 1 and e not in ("A128CBC-HS256", "A256GCM", "XC20P"):
            scs = [x for x in scs if len(x[1]["edits"]) <= 1 or x[1]["verdict"] == "ok"]      # other encs: single edits only
        tasks.append(((a, e), scs, 2 if thorough else 1, ctx.seed, thorough and e in ("A128CBC-HS256", "A256GCM", "XC20P")))
    import multiprocessing as mp
    from .common import NCPU
    with mp.get_context("fork").Pool(NCPU, initializer=_init) as pool:
        res = pool.map(run_batch, tasks, chunksize=1)
    # "the plaintext returned is exactly the one that was encrypted" with zip=DEF around the decompression limit: an error is
    # fine (C17 decides which), a shorter plaintext is not
    from . import c17
    from .common import pmap
    zc = [(cls, c17.CAP + k, enc, ser, "raw", ctx.seed) for cls in ("constant", "periodic") for k in (1, 7, 60, 150, 200, 258, 259)
          for enc, ser in (("A128GCM", "compact"), ("A128CBC-HS256", "flattened"))]
    for a_, what in pmap(c17.case, zc, chunksize=2):
        ctx.evaluations += 1
        if what and what.startswith("over-limit-returned"):
            ctx.violation(f"jwe:zip plaintext of {a_[1]} octets ({a_[0]}) {a_[2]} {a_[3]} -> a shorter plaintext was returned without error",
                          {"class": a_[0], "length": a_[1], "enc": a_[2], "ser": a_[3], "what": what})
    _init()
    nok = 0
    for ((a, e), scs, *_), (findings, n, ok) in zip(tasks, res):
        ctx.evaluations += n
        nok += ok
        lookup = dict(scs)
        for what, si, v, alg, enc, extra in findings:
            sc = lookup[si]
            if what == "machinery":
                raise MachineryError(f"token assembly failed: {extra}")
            if what == "drift":
                ctx.note_drift({"scenario": sig_of(sc, "reject"), "alg": alg, "enc": enc, "reason": extra})
            else:
                ctx.violation(sig_of(sc, what), {"scenario": sc, "alg": alg, "enc": enc, "variant": v, "observed": extra})
        for si, sc in scs:
            ctx.nontrivial.add(mode_of(a) + ":" + str(si))
    if nok < 1000:
        raise MachineryError(f"vacuous run: only {nok} decryptions succeeded")
    ctx.traces = sum(len(t[1]) for t in tasks)
    ctx.exhaustive = thorough
    ctx.notes.update(abstract_behaviours={k: len(v) for k, v in by_mode.items()}, alg_enc_pairs=len(tasks), accepted=nok)
    ctx.rule = ("every behaviour of Jwe.tla with <=2 attacker edits per key-management shape; concretised per (alg, enc) pair with refimpl tokens; quick: "
                "21 algorithms x 1 enc + A128KW/dir x encs, all accepted and single-edit behaviours + a seeded sample of double edits; thorough: all pairs, "
                "all behaviours for 3 encs, and for single edits every bit of every decoded segment; distinct_nontrivial = distinct abstract behaviours run")
    ctx.sample({"behaviour": by_mode["wrap"][11]}); ctx.sample({"behaviour": by_mode["agree"][4000]})
    ctx.assumptions = ["ideal AEAD / key wrapping in the model; strength of the primitives is trusted", "padding-oracle timing not decided"]


def replay(ctx: Ctx, rec: dict) -> None:
    _init()
    sc = rec["scenario"]
    w = sc["w"]
    m = material(rec["alg"], rec["enc"], w["ser"], _orig_n(sc), w["haad"])
    tok = m.build(w, rec.get("variant", 0))
    res = decrypt(sc, m, tok)
    print("scenario:", json.dumps(sc)); print("token:", tok if isinstance(tok, str) else json.dumps(tok)); print("observed now:", res)
    if res[0] == "ok" and sc["verdict"] != "ok":
        ctx.violation(rec["signature"], {"scenario": sc, "alg": rec["alg"], "enc": rec["enc"], "variant": rec.get("variant", 0)})
