"""Common infrastructure for the joserfc TLA+ model-based checks.

Everything the per-property modules share: TLC runner (timeouts, scratch metadir,
summary/coverage parser, exit-code discipline), CASE-line export parser, evidence writer,
known-findings matcher, replay files, multiprocessing pool against the real code.

Exit codes of ./check:  0 = property held on everything explored (KNOWN-FINDING lines allowed)
                        1 = VIOLATION line(s) printed
                        2 = machinery failure (TLC crash, timeout, harness bug) -- never a VIOLATION
"""
from __future__ import annotations

import hashlib
import json
import os
import re
import shutil
import subprocess
import sys
import tempfile
import time
import traceback
from dataclasses import dataclass, field
from pathlib import Path
from typing import Any, Callable, Iterable

VERIF = Path(__file__).resolve().parent.parent
SPEC = VERIF / "spec"
REPO = Path(os.environ.get("VERIF_REPO", "/repo"))
# evidence and replay files of runs against another tree (seeded changes in scratch worktrees) never touch the committed ones
OUT = VERIF if (REPO == Path("/repo") and not os.environ.get("VERIF_SCRATCH_RUN")) else Path(os.environ.get("VERIF_ALT_OUT", "/var/tmp/verif-alt-out"))
SEED = int(os.environ.get("VERIF_SEED", "0") or 0)
NCPU = min(16, os.cpu_count() or 1)
TLC_JAR = "/opt/veriftools/tla/tla2tools.jar:/opt/veriftools/tla/CommunityModules-deps.jar"


class MachineryError(Exception):
    pass


def use_repo() -> None:
    """Make `import joserfc` resolve to the *current working tree* of the repo."""
    src = str(REPO / "src")
    if src in sys.path:
        sys.path.remove(src)
    sys.path.insert(0, src)
    sys.dont_write_bytecode = True
    os.environ["JOSERFC_VERIF"] = "1"


# --------------------------------------------------------------------------- TLC

@dataclass
class TlcResult:
    ok: bool                      # finished without any error
    violated: str | None          # name of violated invariant / property (if any)
    generated: int
    distinct: int
    depth: int
    wall_s: float
    stdout: str
    cases: list[Any] = field(default_factory=list)
    case_lines: list[str] = field(default_factory=list)      # raw export lines when run with lazy_cases (parse with parse_case_line)
    coverage: dict[str, int] = field(default_factory=dict)
    cmd: str = ""


_RE_SUM = re.compile(r"(\d+) states generated, (\d+) distinct states found")
_RE_DEPTH = re.compile(r"depth of the complete state graph search is (\d+)")
_RE_INV = re.compile(r"Invariant (\S+) is violated")
_RE_PROP = re.compile(r"(?:Action property|Temporal properties|property) (\S+)? ?(?:is|were) violated")
_RE_COV = re.compile(r"^<(\w+) line \d+, col \d+ to line \d+, col \d+ of module (\w+)>: (\d+):(\d+)", re.M)


def parse_cases(stdout: str, tag: str = "CASE") -> list[Any]:
    out = []
    prefix = '"' + tag + " "
    for line in stdout.splitlines():
        if line.startswith(prefix):
            s = json.loads(line)
            out.append(json.loads(s[len(tag) + 1:]))
    return out


def parse_case_line(line: str, tag: str = "CASE") -> Any:
    return json.loads(json.loads(line)[len(tag) + 1:])


def run_tlc(module: str, cfg: str | None = None, *, lazy_cases: bool = False, workers: int | str = 1,
            timeout: int = 600, simulate: str | None = None, depth: int | None = None,
            coverage: bool = False, env: dict[str, str] | None = None,
            scratch: Path | None = None, expect_violation: bool = False,
            extra: list[str] | None = None, deque: bool = False, heap: str = "8g",
            seed: int | None = None) -> TlcResult:
    """Run TLC on spec/<module>.tla with spec/<cfg>.cfg. Raises MachineryError on anything
    that is not a clean finish or a property violation."""
    cfg = cfg or module
    own = scratch is None
    scratch = scratch or Path(tempfile.mkdtemp(prefix="tlc-", dir=os.environ.get("TMPDIR", "/var/tmp")))
    meta = Path(tempfile.mkdtemp(prefix=f"meta-{cfg}-", dir=str(scratch)))      # unique: the same configuration may run concurrently (C18 batches)
    java = ["java", "-XX:+UseParallelGC", "-Xmx" + heap, "-Xss64m", f"-Djava.io.tmpdir={meta}"]   # TLC's own temporary directories go with the metadir
    if deque:
        java.append("-Dtlc2.tool.queue.IStateQueue=StateDeque")
    cmd = java + ["-cp", TLC_JAR, "tlc2.TLC", "-workers", str(workers if workers != "auto" else NCPU),
                  "-metadir", str(meta), "-noGenerateSpecTE", "-config", str(SPEC / (cfg + ".cfg"))]
    if simulate:
        cmd += ["-simulate", simulate]
    if depth is not None:
        cmd += ["-depth", str(depth)]
    if seed is not None:
        cmd += ["-seed", str(seed)]
    if coverage:
        cmd += ["-coverage", "1"]
    if extra:
        cmd += extra
    cmd.append(str(SPEC / (module + ".tla")))
    e = dict(os.environ)
    e.pop("JAVA_TOOL_OPTIONS", None)
    if env:
        e.update(env)
    t0 = time.time()
    try:
        p = subprocess.run(cmd, cwd=str(SPEC), env=e, capture_output=True, text=True, timeout=timeout)
    except subprocess.TimeoutExpired:
        subprocess.run(["pkill", "-f", str(meta)], check=False)
        raise MachineryError(f"TLC timeout after {timeout}s on {module}/{cfg}")
    finally:
        shutil.rmtree(meta, ignore_errors=True)
        if own:
            shutil.rmtree(scratch, ignore_errors=True)
    wall = time.time() - t0
    out = p.stdout + p.stderr
    gen = dist = depth_ = 0
    m = None
    for m in _RE_SUM.finditer(out):
        pass
    if m:
        gen, dist = int(m.group(1)), int(m.group(2))
    md = _RE_DEPTH.search(out)
    if md:
        depth_ = int(md.group(1))
    violated = None
    mi = _RE_INV.search(out)
    if mi:
        violated = mi.group(1)
    elif "is violated" in out or "were violated" in out:
        mp = _RE_PROP.search(out)
        violated = (mp.group(1) if mp and mp.group(1) else "property")
    finished = ("Model checking completed" in out) or ("Finished in" in out and simulate is not None) \
        or ("Progress" in out and simulate is not None and p.returncode == 0)
    ok = finished and violated is None and "Error:" not in out
    cov = {}
    if coverage:
        for mm in _RE_COV.finditer(out):
            cov[mm.group(1)] = cov.get(mm.group(1), 0) + int(mm.group(4))
    res = TlcResult(ok=ok, violated=violated, generated=gen, distinct=dist, depth=depth_, wall_s=wall,
                    stdout=out, coverage=cov, cmd=" ".join(cmd[cmd.index("tlc2.TLC"):]))
    if violated is None and not ok:
        tail = "\n".join(out.splitlines()[-40:])
        raise MachineryError(f"TLC failed on {module}/{cfg} (rc={p.returncode}):\n{tail}")
    if violated is not None and not expect_violation:
        tail = "\n".join(out.splitlines()[-60:])
        raise MachineryError(f"specification {module}/{cfg} violates {violated} on the model itself "
                             f"(defect of the specification, not of the code):\n{tail}")
    if expect_violation and violated is None:
        raise MachineryError(f"{module}/{cfg}: expected a counterexample (sensitivity test) but TLC found none")
    if lazy_cases:            # large exports of which the caller replays a seeded sample: parse only what is picked
        res.case_lines = [l for l in out.splitlines() if l.startswith('"CASE ')]
    else:
        res.cases = parse_cases(out)
    return res


# --------------------------------------------------------------------------- known findings

def load_known() -> list[dict]:
    p = VERIF / "known_findings.json"
    if not p.exists():
        return []
    data = json.loads(p.read_text())
    return [f for f in data.get("findings", []) if f.get("status") == "open"]


# --------------------------------------------------------------------------- context

class Ctx:
    def __init__(self, prop: str, tier: str, level: str = "model_checking"):
        self.prop = prop
        self.tier = tier
        self.seed = SEED
        self.level = level
        self.t0 = time.time()
        self.scratch = Path(tempfile.mkdtemp(prefix=f"verif-{prop}-", dir=os.environ.get("TMPDIR", "/var/tmp")))
        self.known = [f for f in load_known() if f["property"] == prop]
        self.known_hit: dict[str, int] = {}
        self.violations: list[dict] = []
        self.states = 0
        self.transitions = 0
        self.traces = 0
        self.evaluations = 0
        self.nontrivial: set[str] = set()
        self.samples: list[Any] = []
        self.drift = 0
        self.drift_samples: list[Any] = []
        self.tlc_runs: list[dict] = []
        self.notes: dict[str, Any] = {}
        self.rule = ""
        self.exhaustive = False
        self.assumptions: list[str] = []
        self.trusted: list[str] = ["TLC 1.8 (tla2tools)", "pyca/cryptography + OpenSSL primitives",
                                   "harness concretisation and projection code"]

    # -- TLC bookkeeping
    def tlc(self, module: str, cfg: str | None = None, **kw) -> TlcResult:
        kw.setdefault("scratch", self.scratch)
        r = run_tlc(module, cfg, **kw)
        self.states += r.distinct
        self.transitions += r.generated
        self.tlc_runs.append({"module": module, "cfg": cfg or module, "distinct": r.distinct,
                              "generated": r.generated, "depth": r.depth, "wall_s": round(r.wall_s, 2),
                              "violated": r.violated, "cases": len(r.cases) or len(r.case_lines),
                              **({"coverage": r.coverage} if r.coverage else {})})
        return r

    def tlc_many(self, jobs: list[tuple], par: int = 6) -> list[TlcResult]:
        """jobs: [(module, cfg, kwargs)] run concurrently (each TLC single-worker unless told otherwise)."""
        from concurrent.futures import ThreadPoolExecutor
        def one(j):
            m, c, kw = j
            kw = dict(kw); kw.setdefault("scratch", self.scratch)
            return run_tlc(m, c, **kw)
        with ThreadPoolExecutor(par) as ex:
            rs = list(ex.map(one, jobs))
        for (m, c, kw), r in zip(jobs, rs):
            if not kw.get("expect_violation"):
                self.states += r.distinct
                self.transitions += r.generated
            self.tlc_runs.append({"module": m, "cfg": c, "distinct": r.distinct, "generated": r.generated, "depth": r.depth,
                                  "wall_s": round(r.wall_s, 2), "violated": r.violated, "cases": len(r.cases) or len(r.case_lines),
                                  **({"sensitivity": True} if kw.get("expect_violation") else {})})
        return rs

    def sensitivity(self, module: str, cfg: str, **kw) -> None:
        """The model with a named deviation switched on must be refuted by TLC."""
        kw.setdefault("scratch", self.scratch)
        kw.setdefault("timeout", 300)
        r = run_tlc(module, cfg, expect_violation=True, **kw)
        self.tlc_runs.append({"module": module, "cfg": cfg, "sensitivity": True, "refuted_by": r.violated,
                              "wall_s": round(r.wall_s, 2)})

    def vacuity(self, r: TlcResult, allow_zero: Iterable[str] = ()) -> None:
        zero = [a for a, n in r.coverage.items() if n == 0 and a not in set(allow_zero)]
        if r.coverage and zero:
            raise MachineryError(f"vacuous model run: actions never taken: {zero}")

    # -- observations
    def sample(self, s: Any, cap: int = 6) -> None:
        if len(self.samples) < cap:
            self.samples.append(s)

    def note_drift(self, what: Any) -> None:
        self.drift += 1
        if len(self.drift_samples) < 5:
            self.drift_samples.append(what)

    def violation(self, signature: str, detail: dict) -> bool:
        """Record a property violation observed on the real code.  Returns True if it is a
        listed known finding (no alarm)."""
        for f in self.known:
            if re.fullmatch(f["signature"], signature):
                n = self.known_hit.get(f["id"], 0)
                self.known_hit[f["id"]] = n + 1
                if n == 0:
                    print(f"KNOWN-FINDING: property={self.prop} {f['id']} {f['what']}", flush=True)
                return True
        if any(v["signature"] == signature for v in self.violations):
            return False
        rec = {"property": self.prop, "signature": signature, "seed": self.seed, "tier": self.tier, **detail}
        h = hashlib.sha256(json.dumps(rec, sort_keys=True, default=str).encode()).hexdigest()[:16]
        d = OUT / "replays" / self.prop
        d.mkdir(parents=True, exist_ok=True)
        path = d / f"{h}.json"
        path.write_text(json.dumps(rec, indent=1, sort_keys=True, default=str))
        rec["replay"] = str(path)
        self.violations.append(rec)
        if len(self.violations) <= 25:
            print(f"VIOLATION property={self.prop} replay={path}", flush=True)
            print(f"  signature: {signature}", flush=True)
        return False

    # -- evidence
    def write_evidence(self) -> None:
        cov: dict[str, Any] = {
            "states": max(self.states, 0),
            "transitions": max(self.transitions, 0),
            "traces_validated_against_impl": self.traces,
            "evaluations": self.evaluations,
            "distinct_nontrivial": len(self.nontrivial),
            "rule": self.rule,
            "samples": self.samples or ["(no sample recorded)"],
            "exhaustive": self.exhaustive,
            "checker_cmd": f"./check {self.prop} --tier {self.tier}",
            "trusted_base": self.trusted,
            "tlc_runs": self.tlc_runs,
            "drift": self.drift,
            "drift_samples": self.drift_samples,
            "known_findings_hit": self.known_hit,
            **self.notes,
        }
        ev = {
            "property_id": self.prop,
            "tier": self.tier,
            "seed": self.seed,
            "level": self.level,
            "coverage": cov,
            "assumptions": self.assumptions,
            "wall_s": round(time.time() - self.t0, 2),
            "violations": len(self.violations),
        }
        d = OUT / "evidence"
        d.mkdir(parents=True, exist_ok=True)
        (d / f"{self.prop}.json").write_text(json.dumps(ev, indent=1, default=str) + "\n")

    def close(self) -> None:
        shutil.rmtree(self.scratch, ignore_errors=True)


# --------------------------------------------------------------------------- pool

def _pool_init():
    use_repo()
    import warnings
    warnings.simplefilter("ignore")


def pmap(fn: Callable[[Any], Any], items: list[Any], chunksize: int | None = None, procs: int | None = None):
    """Run fn over items in fresh worker processes that import joserfc from the working tree."""
    import multiprocessing as mp
    if not items:
        return []
    procs = procs or NCPU
    if len(items) < 32 or procs == 1:
        _pool_init()
        return [fn(x) for x in items]
    ctx = mp.get_context("fork")
    with ctx.Pool(procs, initializer=_pool_init) as pool:
        cs = chunksize or max(1, min(256, len(items) // (procs * 8)))
        return pool.map(fn, items, chunksize=cs)


def outcome_of(fn: Callable[[], Any]) -> tuple[str, Any]:
    """Project a call of the real library to an abstract outcome kind.

    ("ok", value) | ("jose:<ClassName>", msg) | ("value_error:<ClassName>", msg) | ("escape:<ClassName>", msg)
    """
    from joserfc.errors import JoseError
    try:
        return "ok", fn()
    except JoseError as e:
        return "jose:" + type(e).__name__, str(e)
    except ValueError as e:
        return "value_error:" + type(e).__name__, str(e)
    except BaseException as e:  # noqa
        if isinstance(e, (KeyboardInterrupt, SystemExit)):
            raise
        return "escape:" + type(e).__name__, str(e)[:200]


def kind(o: str) -> str:
    """ok / fail (jose or value error) / escape"""
    if o == "ok":
        return "ok"
    if o.startswith("escape:"):
        return "escape"
    return "fail"


def b64u(b: bytes) -> str:
    import base64
    return base64.urlsafe_b64encode(b).rstrip(b"=").decode()


def b64u_dec(s: str | bytes) -> bytes:
    import base64
    if isinstance(s, str):
        s = s.encode()
    return base64.urlsafe_b64decode(s + b"=" * (-len(s) % 4))


# --------------------------------------------------------------------------- fresh-process execution

def _fresh_call(args):
    """Run fn(arg) in a forked child of this (light, joserfc-preloaded) worker so that process-global state the call
    leaves behind (registered drafts, leaked caches) dies with it.  Returns fn's result."""
    import pickle
    fn, arg = args
    r, w = os.pipe()
    pid = os.fork()
    if pid == 0:
        try:
            os.close(r)
            try:
                out = ("ok", fn(arg))
            except BaseException as e:  # noqa
                out = ("err", f"{type(e).__name__}: {e}\n{traceback.format_exc()}")
            with os.fdopen(w, "wb") as f:
                pickle.dump(out, f)
        finally:
            os._exit(0)
    os.close(w)
    with os.fdopen(r, "rb") as f:
        data = f.read()
    os.waitpid(pid, 0)
    if not data:
        return ("err", "child died without result")
    return pickle.loads(data)


def _fresh_init():
    _pool_init()
    import joserfc.jws, joserfc.jwe, joserfc.jwt, joserfc.jwk, joserfc.rfc7797  # noqa: preload, no draft registration


class FreshPool:
    """Create EARLY (while the parent is still small).  map(fn, items) runs every fn(item) in its own forked process."""

    def __init__(self, procs: int | None = None):
        import multiprocessing as mp
        self.pool = mp.get_context("fork").Pool(procs or NCPU, initializer=_fresh_init)

    def map(self, fn, items, chunksize: int = 1):
        res = self.pool.map(_fresh_call, [(fn, it) for it in items], chunksize=chunksize)
        out = []
        for tag, val in res:
            if tag != "ok":
                raise MachineryError("worker failed: " + str(val))
            out.append(val)
        return out

    def close(self):
        self.pool.terminate()
        self.pool.join()

    def __enter__(self):
        return self

    def __exit__(self, *a):
        self.close()


def from_library(exc: BaseException) -> str | None:
    """If the exception was raised while executing joserfc code, return 'Type@file:function' of the innermost joserfc frame
    (then it is an *observation* about the library: a changed library made an operation fail that the harness relies on);
    otherwise None (a harness bug: machinery failure)."""
    tb = traceback.extract_tb(exc.__traceback__)
    for fr in reversed(tb):
        if "/joserfc/" in fr.filename and "/verif/" not in fr.filename:
            return f"{type(exc).__name__}@{fr.filename.split('/joserfc/')[-1]}:{fr.name}"
    return None


def containers(v):
    if isinstance(v, dict):
        yield v
        for x in v.values():
            yield from containers(x)
    elif isinstance(v, list):
        yield v
        for x in v:
            yield from containers(x)


def scribble(v):
    """edit every nested container in place (children first)"""
    for c in list(containers(v))[::-1]:
        if isinstance(c, dict):
            for k in list(c)[:1]:
                del c[k]
            c["scribble"] = [1]
        else:
            c.append("scribble")
            c[0] = None
