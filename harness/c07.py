"""C07 - JWS octets on the wire are those of RFC 7515/7518/8037/8812/7797.

Spec: spec/Wire.tla (byte-exact layouts over Seq(0..255)) evaluated by TLC; harness/refimpl.py must reproduce TLC's
octets on every run (translation validation, wirecheck.py) and is then the independent RFC implementation:
 (a) every token joserfc signs in the JwsRoundTrip.tla scenario space verifies under refimpl holding only the exported
     public JWK;
 (b) tokens signed by refimpl - protected header JSON spelled many ways - verify in joserfc with equal payload/header;
 (c) the published RFC 7520 section 4 and RFC 7797 section 4 tokens verify, and the deterministic ones are
     recomputed bit for bit from their inputs.
"""
from __future__ import annotations
import json
import random

from .common import Ctx, MachineryError, VERIF
from . import joseops as J
from . import refimpl as R
from . import keys as K
from . import c03, wirecheck
from .c01 import ALGS

LEVEL = "translation_validation"
VEC = VERIF / "harness" / "vectors"


def spellings(h: dict) -> list[bytes]:
    items = list(h.items())
    def dump(o, **kw): return json.dumps(o, **kw).encode("utf-8")
    out = [dump(h, separators=(",", ":")),
           dump(h),                                                  # ", " and ": "
           dump(h, indent=2),
           dump(dict(reversed(items)), separators=(",", ":")),
           b" \n\t" + dump(h, separators=(" ,\r\n", " :\t")) + b" \n",
           dump(h, separators=(",", ":"), ensure_ascii=False),
           dump(h, separators=(",", ":")).replace(b"/", b"\\/")]
    # \uXXXX escapes for the first character of every string value and member name
    esc = json.dumps(h, separators=(",", ":"))
    import re
    esc = re.sub(r'"([A-Za-z])', lambda m: '"\\u%04x' % ord(m.group(1)), esc)
    out.append(esc.encode())
    return out


def interop_b(args):
    (alg, kind), n, seed = args
    from joserfc import jws, rfc7797
    rnd = random.Random(f"{seed}-{alg}-{kind}-b")
    jwk = K.get(kind)
    pub = J.jkey(J.pub(jwk))
    if jwk["kty"] == "oct":
        # a shared secret handed over as octets: HMAC is keyed with exactly those octets, whatever they start or end with
        from joserfc.jwk import OctKey
        pub_bytes = OctKey.import_key(R.b64d(jwk["k"]))
    bad = []
    cnt = 0
    for raw in (False, True):
        for i in range(n):
            if jwk["kty"] == "oct":
                pub = pub_bytes if (i + raw) % 2 == 0 else J.jkey(J.pub(jwk))
            hd = {"alg": alg, "cty": "t/x é", "x5t": "dGh1bWI"}
            if raw:
                hd.update({"b64": False, "crit": ["b64"]})
            payload = (("p-%d_" % i) + "".join(rnd.choice("abcXYZ019-_~") for _ in range(rnd.randrange(1, 40)))).encode() if raw \
                else bytes(rnd.randrange(256) for _ in range(rnd.choice([0, 1, 2, 3, 31, 32, 33, 100])))
            for si, octets in enumerate(spellings(hd)):
                for ser in ("compact", "flattened") + (() if raw else ("general",)):
                    cnt += 1
                    try:
                        if ser == "compact":
                            tok = R.jws_compact(octets, payload, alg, jwk, b64=not raw)
                            o = (rfc7797 if raw else jws).deserialize_compact(J.F(tok), pub, algorithms=[alg])
                            got_p, got_h = o.payload, o.protected
                        else:
                            tok = R.jws_flattened(octets, None, payload, alg, jwk, b64=not raw) if ser == "flattened" \
                                else R.jws_general([(octets, None, alg, jwk)], payload)
                            o = (rfc7797 if raw else jws).deserialize_json(tok, pub, algorithms=[alg])
                            got_p, got_h = o.payload, o.members[0].protected
                        if got_p != payload:
                            bad.append((alg, ser, raw, si, "payload-differs", octets.decode("utf-8")[:80]))
                        elif got_h != hd:
                            bad.append((alg, ser, raw, si, "header-differs", json.dumps(got_h)[:80]))
                    except Exception as e:  # noqa
                        bad.append((alg, ser, raw, si, "rejected:" + type(e).__name__, octets.decode("utf-8")[:80]))
    return bad, cnt


def rfc_vectors(ctx: Ctx) -> int:
    from joserfc import jws, rfc7797
    n = 0
    d = json.loads((VEC / "jws_rfc7520.json").read_text())
    payload = d["payload"].encode("utf-8")
    for t in d["tests"]:
        n += 1
        pubj = json.loads((VEC / t["public_key"]).read_text()) if "public_key" in t else json.loads((VEC / t["secret_key"]).read_text()) if "secret_key" in t else None
        privj = json.loads((VEC / t["private_key"]).read_text()) if "private_key" in t else pubj
        if pubj is None:
            continue
        alg = t["protected"]["alg"]
        try:
            o = jws.deserialize_compact(J.F(t["compact"]), J.fresh_jkey(pubj), algorithms=[alg])
            if o.payload != payload:
                ctx.violation(f"jwswire:rfc7520 {t['name']} payload differs", {"vector": t["name"]})
        except Exception as e:  # noqa
            ctx.violation(f"jwswire:rfc7520 {t['name']} rejected {type(e).__name__}", {"vector": t["name"]})
        # the reference implementation agrees with the RFC as well (and recomputes deterministic signatures exactly)
        h, p, s = t["compact"].split(".")
        if not R.jws_verify(alg, {k: v for k, v in pubj.items() if k in ("kty", "n", "e", "crv", "x", "y", "k")}, (h + "." + p).encode(), R.b64d(s)):
            raise MachineryError(f"refimpl does not verify RFC 7520 vector {t['name']}")
        if alg in ("HS256", "RS256"):
            core = {k: v for k, v in privj.items() if k in ("kty", "n", "e", "d", "p", "q", "dp", "dq", "qi", "k")}
            if R.b64e(R.jws_sign(alg, core, (h + "." + p).encode())).decode() != s:
                raise MachineryError(f"refimpl does not reproduce RFC 7520 vector {t['name']}")
        ctx.nontrivial.add("rfc7520:" + t["name"])
    d = json.loads((VEC / "jws_rfc7797.json").read_text())
    key = {"kty": "oct", "k": "AyM1SysPpbyDfgZld3umj1qzKObwVMkoqQ-EstJQLr_T-1qS0gZH75aKtMN3Yj0iPS4hcgUuTwjAzZr1Z9CAow"}
    for t in d["tests"]:
        n += 1
        payload = t.get("payload", d["payload"]).encode()
        detached = t["compact"].split(".")[1] == ""
        try:
            o = rfc7797.deserialize_compact(t["compact"], J.fresh_jkey(key), payload if detached else None)
            o2 = rfc7797.deserialize_json(t["flattened_json"], J.fresh_jkey(key))
            if o.payload != payload or o2.payload != payload:
                ctx.violation(f"jwswire:rfc7797 {t['name']} payload differs", {"vector": t["name"]})
        except Exception as e:  # noqa
            ctx.violation(f"jwswire:rfc7797 {t['name']} rejected {type(e).__name__}", {"vector": t["name"], "err": str(e)})
        hdr = R.b64d(t["compact"].split(".")[0])
        b64 = t["protected"].get("b64", True)
        if R.jws_compact(hdr, payload, "HS256", key, b64=b64, detach=detached) != t["compact"]:
            raise MachineryError(f"refimpl does not reproduce RFC 7797 vector {t['name']}")
        ctx.nontrivial.add("rfc7797:" + t["name"])
    return n


def run(ctx: Ctx) -> None:
    thorough = ctx.tier == "thorough"
    pts, _ = wirecheck.validate(ctx, 100 if thorough else 12)
    ctx.notes["wire_points_tlc_vs_refimpl"] = pts
    ctx.notes["programs"] = 14            # layout operators of Wire.tla validated against refimpl
    ctx.notes["disagreements_checked"] = pts
    # (a) joserfc -> refimpl, over the JwsRoundTrip scenario space
    c03.execute(ctx, with_ref=True, prop_filter=lambda w: w.startswith("ref-") or w in ("sig-length",))
    # (b) refimpl -> joserfc, many spellings
    import multiprocessing as mp
    from .common import NCPU, _pool_init
    tasks = [(ak, 6 if thorough else 1, ctx.seed) for ak in ALGS]
    with mp.get_context("fork").Pool(min(NCPU, len(tasks)), initializer=_pool_init) as pool:
        res = pool.map(interop_b, tasks, chunksize=1)
    for bad, cnt in res:
        ctx.evaluations += cnt
        for alg, ser, raw, si, what, detail in bad:
            ctx.violation(f"jwswire:refimpl->joserfc {ser} raw={raw} spelling#{si} -> {what.split(':')[0]} [{alg}]",
                          {"alg": alg, "ser": ser, "raw": raw, "spelling": si, "what": what, "header_octets": detail})
    for a, k_ in ALGS:
        for si in range(8):
            ctx.nontrivial.add(f"b:{a}:{k_}:{si}")
    # (b') the same wire octets when two threads use the shared algorithm objects with *different* keys: every
    # one-preemption schedule (source-line granularity) of sign/verify pairs, outputs checked by refimpl
    from . import c20
    from .common import pmap
    cpairs = [(k, a, b, 1, ctx.seed, 4) for k in ("oct256", "EC:P-256") for a, b in (("sign", "sign_ks"), ("sign_ks", "verify2"), ("sign2", "sign_ks"), ("verify", "sign_ks"), ("verify", "verify2"))]
    for (kind, a, b, na, nb), n, found in pmap(c20.explore, cpairs, chunksize=1, procs=8):
        ctx.evaluations += n
        for pr, pre, first in found[:2]:
            ctx.violation(f"jwswire:threads {a}||{b} [{kind}] -> {pr.split(':', 1)[-1].strip()[:60]}", {"kind": kind, "ops": [a, b], "preempts": pre, "first": first, "problem": pr})
    # (b'') reference-signed tokens validate whatever else has been parsed meanwhile (split API histories, JwsInFlight.tla)
    from . import inflight
    ctx.evaluations += inflight.run(ctx, "C07")
    # (c) published vectors
    _pi = __import__("harness.common", fromlist=["_pool_init"])._pool_init
    _pi()
    ctx.evaluations += rfc_vectors(ctx)
    ctx.traces += pts
    ctx.rule = ("Wire.tla layouts evaluated by TLC on seeded inputs vs refimpl (translation validation); joserfc-signed tokens of every JwsRoundTrip "
                "scenario x 15 algorithm/key pairs verified by refimpl from the exported public JWK; refimpl-signed tokens in 8 header spellings x "
                "3 serializations x b64 on/off verified by joserfc; RFC 7520/7797 vectors; distinct_nontrivial = distinct abstract scenarios + "
                "(alg, spelling) pairs + vectors")
    ctx.assumptions = ["pyca/cryptography primitives are correct; refimpl's layouts are validated against TLC's evaluation of Wire.tla on every run"]
    ctx.sample({"spellings_of_header": [s.decode("utf-8") for s in spellings({"alg": "ES256", "cty": "t/x é"})][:4]})


def replay(ctx: Ctx, rec: dict) -> None:
    if rec.get("inflight"):
        from . import inflight
        from .common import _pool_init
        _pool_init()
        return inflight.replay(ctx, rec)
    print(json.dumps(rec, indent=1)[:2000])
    print("re-run ./check C07 to re-evaluate (cases are regenerated from the seed)")
