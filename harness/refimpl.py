"""Reference implementation of the JOSE wire formats, a direct transliteration of spec/Wire.tla.

Independent of joserfc: imports nothing from it.  Primitives (hash, HMAC, RSA, ECDSA, EdDSA, AES-CBC/GCM,
AES key wrap, PBKDF2, X25519/X448/ECDH, ChaCha20-Poly1305, DEFLATE) come from hashlib/hmac/zlib,
pyca/cryptography and PyCryptodome; every *layout* (what is concatenated with what, in which order and
width) is written here from the RFCs and validated byte-for-byte against TLC's evaluation of Wire.tla
by harness/wirecheck.py on every run.

Used as (a) the independent peer of C07/C08, (b) the token forge for C01/C02/C09/C15/C16/C17 (validly
authenticated tokens with arbitrary header octets / payloads that joserfc itself refuses to emit).
"""
from __future__ import annotations

import hashlib
import hmac as _hmac
import json
import os
import struct
import zlib

from cryptography.hazmat.primitives import hashes, serialization
from cryptography.hazmat.primitives.asymmetric import ec, ed25519, ed448, padding, rsa, x25519, x448
from cryptography.hazmat.primitives.asymmetric.utils import decode_dss_signature, encode_dss_signature
from cryptography.hazmat.primitives.ciphers import Cipher, algorithms, modes
from cryptography.hazmat.primitives.keywrap import aes_key_unwrap, aes_key_wrap
from cryptography.hazmat.primitives.padding import PKCS7
from cryptography.exceptions import InvalidSignature, InvalidTag

# ----------------------------------------------------------------------------- base64url / ints
_ALPHA = b"ABCDEFGHIJKLMNOPQRSTUVWXYZabcdefghijklmnopqrstuvwxyz0123456789-_"
_IDX = {c: i for i, c in enumerate(_ALPHA)}


def b64e(b: bytes) -> bytes:
    out = bytearray()
    for i in range(0, len(b), 3):
        chunk = b[i:i + 3]
        n = int.from_bytes(chunk + b"\0" * (3 - len(chunk)), "big")
        sext = [(n >> 18) & 63, (n >> 12) & 63, (n >> 6) & 63, n & 63]
        out += bytes(_ALPHA[s] for s in sext[:len(chunk) + 1])
    return bytes(out)


def b64d(t: bytes | str) -> bytes:
    if isinstance(t, str):
        t = t.encode("ascii")
    if len(t) % 4 == 1 or any(c not in _IDX for c in t):
        raise ValueError("bad base64url")
    out = bytearray()
    for i in range(0, len(t), 4):
        chunk = t[i:i + 4]
        n = 0
        for c in chunk:
            n = (n << 6) | _IDX[c]
        n <<= 6 * (4 - len(chunk))
        out += n.to_bytes(3, "big")[:len(chunk) - 1]
    return bytes(out)


def i2o(n: int, width: int | None = None) -> bytes:
    """minimal big-endian (width None) or fixed width"""
    if width is None:
        width = max(1, (n.bit_length() + 7) // 8)
    return n.to_bytes(width, "big")


def o2i(b: bytes) -> int:
    return int.from_bytes(b, "big")


def u32(n: int) -> bytes:
    return struct.pack(">I", n)


# ----------------------------------------------------------------------------- keys
EC_CURVES = {"P-256": (ec.SECP256R1, 32), "P-384": (ec.SECP384R1, 48), "P-521": (ec.SECP521R1, 66),
             "secp256k1": (ec.SECP256K1, 32)}
OKP_PRIV = {"Ed25519": ed25519.Ed25519PrivateKey, "Ed448": ed448.Ed448PrivateKey,
            "X25519": x25519.X25519PrivateKey, "X448": x448.X448PrivateKey}
OKP_PUB = {"Ed25519": ed25519.Ed25519PublicKey, "Ed448": ed448.Ed448PublicKey,
           "X25519": x25519.X25519PublicKey, "X448": x448.X448PublicKey}
OKP_LEN = {"Ed25519": 32, "Ed448": 57, "X25519": 32, "X448": 56}


def jwk_to_native(jwk: dict, private: bool | None = None):
    """RFC 7517/7518/8037 JWK -> native key object (bytes for oct)."""
    kty = jwk["kty"]
    if kty == "oct":
        return b64d(jwk["k"])
    want_priv = ("d" in jwk) if private is None else private
    if kty == "RSA":
        pub = rsa.RSAPublicNumbers(o2i(b64d(jwk["e"])), o2i(b64d(jwk["n"])))
        if not want_priv:
            return pub.public_key()
        d = o2i(b64d(jwk["d"]))
        if "p" in jwk:
            p, q = o2i(b64d(jwk["p"])), o2i(b64d(jwk["q"]))
            dp, dq, qi = o2i(b64d(jwk["dp"])), o2i(b64d(jwk["dq"])), o2i(b64d(jwk["qi"]))
        else:
            p, q = rsa.rsa_recover_prime_factors(pub.n, pub.e, d)
            dp, dq, qi = rsa.rsa_crt_dmp1(d, p), rsa.rsa_crt_dmq1(d, q), rsa.rsa_crt_iqmp(p, q)
        return rsa.RSAPrivateNumbers(p, q, d, dp, dq, qi, pub).private_key()
    if kty == "EC":
        curve, size = EC_CURVES[jwk["crv"]]
        x, y = b64d(jwk["x"]), b64d(jwk["y"])
        if len(x) != size or len(y) != size:
            raise ValueError("EC coordinate of wrong length")
        pub = ec.EllipticCurvePublicNumbers(o2i(x), o2i(y), curve())
        if not want_priv:
            return pub.public_key()
        d = b64d(jwk["d"])
        if len(d) != size:
            raise ValueError("EC d of wrong length")
        return ec.EllipticCurvePrivateNumbers(o2i(d), pub).private_key()
    if kty == "OKP":
        crv = jwk["crv"]
        if want_priv:
            d = b64d(jwk["d"])
            if len(d) != OKP_LEN[crv]:
                raise ValueError("OKP d of wrong length")
            return OKP_PRIV[crv].from_private_bytes(d)
        x = b64d(jwk["x"])
        if len(x) != OKP_LEN[crv]:
            raise ValueError("OKP x of wrong length")
        return OKP_PUB[crv].from_public_bytes(x)
    raise ValueError("kty")


def native_to_jwk(key, private: bool) -> dict:
    """native key -> RFC-conformant JWK (fixed-length EC coordinates, minimal RSA integers)."""
    s = lambda b: b64e(b).decode()
    if isinstance(key, bytes):
        return {"kty": "oct", "k": s(key)}
    if isinstance(key, (rsa.RSAPrivateKey, rsa.RSAPublicKey)):
        pubn = key.public_key().public_numbers() if isinstance(key, rsa.RSAPrivateKey) else key.public_numbers()
        j = {"kty": "RSA", "n": s(i2o(pubn.n)), "e": s(i2o(pubn.e))}
        if private:
            pn = key.private_numbers()
            j.update(d=s(i2o(pn.d)), p=s(i2o(pn.p)), q=s(i2o(pn.q)), dp=s(i2o(pn.dmp1)), dq=s(i2o(pn.dmq1)), qi=s(i2o(pn.iqmp)))
        return j
    if isinstance(key, (ec.EllipticCurvePrivateKey, ec.EllipticCurvePublicKey)):
        pubk = key.public_key() if isinstance(key, ec.EllipticCurvePrivateKey) else key
        nums = pubk.public_numbers()
        crv = {"secp256r1": "P-256", "secp384r1": "P-384", "secp521r1": "P-521", "secp256k1": "secp256k1"}[nums.curve.name]
        size = EC_CURVES[crv][1]
        j = {"kty": "EC", "crv": crv, "x": s(i2o(nums.x, size)), "y": s(i2o(nums.y, size))}
        if private:
            j["d"] = s(i2o(key.private_numbers().private_value, size))
        return j
    for crv, cls in OKP_PRIV.items():
        if isinstance(key, cls):
            pub = key.public_key().public_bytes(serialization.Encoding.Raw, serialization.PublicFormat.Raw)
            j = {"kty": "OKP", "crv": crv, "x": s(pub)}
            if private:
                j["d"] = s(key.private_bytes(serialization.Encoding.Raw, serialization.PrivateFormat.Raw, serialization.NoEncryption()))
            return j
    for crv, cls in OKP_PUB.items():
        if isinstance(key, cls):
            return {"kty": "OKP", "crv": crv, "x": s(key.public_bytes(serialization.Encoding.Raw, serialization.PublicFormat.Raw))}
    raise ValueError("key")


def public_jwk(jwk: dict) -> dict:
    priv = {"oct": (), "RSA": ("d", "p", "q", "dp", "dq", "qi", "oth"), "EC": ("d",), "OKP": ("d",)}[jwk["kty"]]
    return {k: v for k, v in jwk.items() if k not in priv}


THUMB_MEMBERS = {"oct": ["k", "kty"], "RSA": ["e", "kty", "n"], "EC": ["crv", "kty", "x", "y"], "OKP": ["crv", "kty", "x"]}


def thumbprint_input(jwk: dict) -> bytes:
    """RFC 7638 section 3: required members, lexicographic order, no whitespace."""
    parts = [b'"' + m.encode() + b'":"' + jwk[m].encode() + b'"' for m in THUMB_MEMBERS[jwk["kty"]]]
    return b"{" + b",".join(parts) + b"}"


def thumbprint(jwk: dict, digest: str = "sha256") -> str:
    return b64e(hashlib.new(digest, thumbprint_input(jwk)).digest()).decode()


# ----------------------------------------------------------------------------- JWS
_HASH = {"256": hashes.SHA256, "384": hashes.SHA384, "512": hashes.SHA512}
ES_CURVE = {"ES256": "P-256", "ES384": "P-384", "ES512": "P-521", "ES256K": "secp256k1"}
ES_HASH = {"ES256": "256", "ES384": "384", "ES512": "512", "ES256K": "256"}
JWS_ALGS = ["HS256", "HS384", "HS512", "RS256", "RS384", "RS512", "ES256", "ES384", "ES512", "ES256K",
            "PS256", "PS384", "PS512", "EdDSA"]


def signing_input(protected_segment: bytes, payload: bytes, b64: bool = True) -> bytes:
    return protected_segment + b"." + (b64e(payload) if b64 else payload)


def ecdsa_rs(r: int, s: int, size: int) -> bytes:
    return i2o(r, size) + i2o(s, size)


def jws_sign(alg: str, jwk: dict, msg: bytes) -> bytes:
    if alg == "none":
        return b""
    key = jwk_to_native(jwk, private=True)
    if alg.startswith("HS"):
        return _hmac.new(key, msg, "sha" + alg[2:]).digest()
    if alg.startswith("RS"):
        return key.sign(msg, padding.PKCS1v15(), _HASH[alg[2:]]())
    if alg.startswith("PS"):
        h = _HASH[alg[2:]]
        return key.sign(msg, padding.PSS(padding.MGF1(h()), h.digest_size), h())
    if alg.startswith("ES"):
        size = EC_CURVES[ES_CURVE[alg]][1]
        r, s = decode_dss_signature(key.sign(msg, ec.ECDSA(_HASH[ES_HASH[alg]]())))
        return ecdsa_rs(r, s, size)
    if alg == "EdDSA":
        return key.sign(msg)
    raise ValueError(alg)


def jws_verify(alg: str, jwk: dict, msg: bytes, sig: bytes) -> bool:
    if alg == "none":
        return False
    try:
        if alg.startswith("HS"):
            return _hmac.compare_digest(_hmac.new(jwk_to_native(jwk), msg, "sha" + alg[2:]).digest(), sig)
        key = jwk_to_native(jwk, private=False)
        if alg.startswith("RS"):
            key.verify(sig, msg, padding.PKCS1v15(), _HASH[alg[2:]]())
        elif alg.startswith("PS"):
            h = _HASH[alg[2:]]
            key.verify(sig, msg, padding.PSS(padding.MGF1(h()), h.digest_size), h())
        elif alg.startswith("ES"):
            crv = ES_CURVE[alg]
            if jwk["crv"] != crv:
                return False
            size = EC_CURVES[crv][1]
            if len(sig) != 2 * size:
                return False
            key.verify(encode_dss_signature(o2i(sig[:size]), o2i(sig[size:])), msg, ec.ECDSA(_HASH[ES_HASH[alg]]()))
        elif alg == "EdDSA":
            key.verify(sig, msg)
        else:
            return False
        return True
    except InvalidSignature:
        return False


def jdump(obj) -> bytes:
    return json.dumps(obj, separators=(",", ":"), ensure_ascii=False).encode("utf-8")


def jws_compact(protected_octets: bytes, payload: bytes, alg: str, jwk: dict, b64: bool = True, detach: bool = False) -> str:
    """protected_octets: the exact UTF-8 octets of the protected header JSON (any spelling)."""
    seg = b64e(protected_octets)
    sig = jws_sign(alg, jwk, signing_input(seg, payload, b64))
    mid = b"" if detach else (b64e(payload) if b64 else payload)
    return (seg + b"." + mid + b"." + b64e(sig)).decode("utf-8")


def jws_json_signature(protected_octets: bytes | None, header: dict | None, payload: bytes, alg: str, jwk: dict, b64: bool = True) -> dict:
    seg = b64e(protected_octets) if protected_octets is not None else b""
    sig = jws_sign(alg, jwk, signing_input(seg, payload, b64))
    m: dict = {"signature": b64e(sig).decode()}
    if protected_octets is not None:
        m["protected"] = seg.decode()
    if header is not None:
        m["header"] = header
    return m


def jws_flattened(protected_octets, header, payload: bytes, alg: str, jwk: dict, b64: bool = True) -> dict:
    m = jws_json_signature(protected_octets, header, payload, alg, jwk, b64)
    return {"payload": (b64e(payload) if b64 else payload).decode("utf-8"), **m}


def jws_general(members: list[tuple], payload: bytes) -> dict:
    """members: list of (protected_octets|None, header|None, alg, jwk)"""
    return {"payload": b64e(payload).decode(),
            "signatures": [jws_json_signature(p, h, payload, a, k) for (p, h, a, k) in members]}


def jws_verify_compact(token: str, jwk: dict, payload: bytes | None = None):
    """-> (header dict, payload) or raises ValueError.  alg comes from the header; the caller decides whether
    it is acceptable.  Honours b64=false only from the protected header with crit."""
    h, p, s = token.encode("utf-8").split(b".")
    hdr = json.loads(b64d(h))
    b64 = hdr.get("b64", True)
    if b64 is False and "b64" not in hdr.get("crit", []):
        raise ValueError("b64 without crit")
    if b64:
        body = b64d(p)
    else:
        body = p if payload is None else payload
    if not jws_verify(hdr["alg"], jwk, signing_input(h, body, b64), b64d(s)):
        raise ValueError("bad signature")
    return hdr, body


def jws_verify_json(obj: dict, jwks: list[dict]):
    """flattened or general; every signature must verify (key i for signature i; a single key is reused)."""
    sigs = obj["signatures"] if "signatures" in obj else [obj]
    if not sigs:
        raise ValueError("no signature")
    out = []
    body = None
    for i, s in enumerate(sigs):
        seg = s.get("protected", "").encode()
        prot = json.loads(b64d(seg)) if seg else {}
        hdr = {**prot, **s.get("header", {})}
        b64 = prot.get("b64", True)
        body = b64d(obj["payload"]) if b64 else obj["payload"].encode("utf-8")
        jwk = jwks[i] if i < len(jwks) else jwks[-1]
        if not jws_verify(hdr["alg"], jwk, signing_input(seg, body, b64), b64d(s["signature"])):
            raise ValueError("bad signature %d" % i)
        out.append(hdr)
    return out, body


# ----------------------------------------------------------------------------- JWE content encryption
ENC = {  # name: (family, cek bytes, iv bytes, key_len for CBC / tag len)
    "A128CBC-HS256": ("cbc", 32, 16, 16, "sha256"), "A192CBC-HS384": ("cbc", 48, 16, 24, "sha384"),
    "A256CBC-HS512": ("cbc", 64, 16, 32, "sha512"),
    "A128GCM": ("gcm", 16, 12, 16, None), "A192GCM": ("gcm", 24, 12, 16, None), "A256GCM": ("gcm", 32, 12, 16, None),
    "C20P": ("chacha", 32, 12, 16, None), "XC20P": ("chacha", 32, 24, 16, None),
}


def al(aad: bytes) -> bytes:
    return struct.pack(">Q", len(aad) * 8)


def cbc_hs_split(cek: bytes, key_len: int):
    return cek[:key_len], cek[key_len:]          # (MAC_KEY, ENC_KEY)


def cbc_hs_mac_input(aad: bytes, iv: bytes, ct: bytes) -> bytes:
    return aad + iv + ct + al(aad)


def enc_encrypt(enc: str, cek: bytes, iv: bytes, aad: bytes, pt: bytes):
    fam, cl, il, kl, h = ENC[enc]
    assert len(cek) == cl and len(iv) == il
    if fam == "cbc":
        mk, ek = cbc_hs_split(cek, kl)
        p = PKCS7(128).padder()
        c = Cipher(algorithms.AES(ek), modes.CBC(iv)).encryptor()
        ct = c.update(p.update(pt) + p.finalize()) + c.finalize()
        tag = _hmac.new(mk, cbc_hs_mac_input(aad, iv, ct), h).digest()[:kl]
        return ct, tag
    if fam == "gcm":
        c = Cipher(algorithms.AES(cek), modes.GCM(iv)).encryptor()
        c.authenticate_additional_data(aad)
        ct = c.update(pt) + c.finalize()
        return ct, c.tag
    from Crypto.Cipher import ChaCha20_Poly1305
    c = ChaCha20_Poly1305.new(key=cek, nonce=iv)
    c.update(aad)
    return c.encrypt_and_digest(pt)


def enc_decrypt(enc: str, cek: bytes, iv: bytes, aad: bytes, ct: bytes, tag: bytes) -> bytes:
    fam, cl, il, kl, h = ENC[enc]
    if len(cek) != cl or len(iv) != il:
        raise ValueError("size")
    if fam == "cbc":
        mk, ek = cbc_hs_split(cek, kl)
        exp = _hmac.new(mk, cbc_hs_mac_input(aad, iv, ct), h).digest()[:kl]
        if not _hmac.compare_digest(exp, tag):
            raise ValueError("tag")
        c = Cipher(algorithms.AES(ek), modes.CBC(iv)).decryptor()
        u = PKCS7(128).unpadder()
        return u.update(c.update(ct) + c.finalize()) + u.finalize()
    if fam == "gcm":
        if len(tag) != 16:
            raise ValueError("tag")
        c = Cipher(algorithms.AES(cek), modes.GCM(iv, tag)).decryptor()
        c.authenticate_additional_data(aad)
        try:
            return c.update(ct) + c.finalize()
        except InvalidTag:
            raise ValueError("tag")
    from Crypto.Cipher import ChaCha20_Poly1305
    c = ChaCha20_Poly1305.new(key=cek, nonce=iv)
    c.update(aad)
    return c.decrypt_and_verify(ct, tag)


def deflate_raw(b: bytes) -> bytes:
    c = zlib.compressobj(9, zlib.DEFLATED, -15)
    return c.compress(b) + c.flush()


def inflate_raw(b: bytes, limit: int | None = None) -> bytes:
    d = zlib.decompressobj(-15)
    out = d.decompress(b, limit + 1 if limit else 0)
    if limit and len(out) > limit:
        raise ValueError("too large")
    if not d.eof:
        raise ValueError("not a complete raw DEFLATE stream (RFC 1951): the final block is missing")     # strict, as a peer may be
    return out


# ----------------------------------------------------------------------------- JWE key management
def other_info(alg_id: bytes, apu: bytes, apv: bytes, keydatalen_bits: int, tag: bytes | None = None) -> bytes:
    oi = u32(len(alg_id)) + alg_id + u32(len(apu)) + apu + u32(len(apv)) + apv + u32(keydatalen_bits)
    if tag is not None:
        oi += u32(len(tag)) + tag
    return oi


def concat_kdf_round_input(i: int, z: bytes, oi: bytes) -> bytes:
    return u32(i) + z + oi


def concat_kdf(z: bytes, oi: bytes, bits: int) -> bytes:
    out = b""
    i = 1
    while len(out) * 8 < bits:
        out += hashlib.sha256(concat_kdf_round_input(i, z, oi)).digest()
        i += 1
    return out[:bits // 8]


def pbes2_salt(alg: str, p2s: bytes) -> bytes:
    return alg.encode("utf-8") + b"\x00" + p2s


KW_BITS = {"A128KW": 128, "A192KW": 192, "A256KW": 256}
JWE_ALGS = ["RSA1_5", "RSA-OAEP", "RSA-OAEP-256", "A128KW", "A192KW", "A256KW", "dir", "ECDH-ES", "ECDH-ES+A128KW",
            "ECDH-ES+A192KW", "ECDH-ES+A256KW", "A128GCMKW", "A192GCMKW", "A256GCMKW", "PBES2-HS256+A128KW",
            "PBES2-HS384+A192KW", "PBES2-HS512+A256KW"]
JWE_1PU = ["ECDH-1PU", "ECDH-1PU+A128KW", "ECDH-1PU+A192KW", "ECDH-1PU+A256KW"]


def _rsa_pad(alg):
    if alg == "RSA1_5":
        return padding.PKCS1v15()
    h = hashes.SHA1 if alg == "RSA-OAEP" else hashes.SHA256
    return padding.OAEP(padding.MGF1(h()), h(), None)


def _dh(priv_jwk: dict, pub_jwk: dict) -> bytes:
    priv = jwk_to_native(priv_jwk, True)
    pub = jwk_to_native(public_jwk(pub_jwk), False)
    if priv_jwk["kty"] == "EC":
        if priv_jwk["crv"] != pub_jwk["crv"]:
            raise ValueError("curve mismatch")
        return priv.exchange(ec.ECDH(), pub)
    return priv.exchange(pub)


def gen_like(jwk: dict) -> dict:
    if jwk["kty"] == "EC":
        return native_to_jwk(ec.generate_private_key(EC_CURVES[jwk["crv"]][0]()), True)
    return native_to_jwk(OKP_PRIV[jwk["crv"]].generate(), True)


def _agreed_key(alg: str, enc: str, hdr: dict, z: bytes, tag: bytes | None) -> bytes:
    apu = b64d(hdr["apu"]) if hdr.get("apu") else b""
    apv = b64d(hdr["apv"]) if hdr.get("apv") else b""
    if "+" in alg:
        bits = KW_BITS[alg.split("+")[1]]
        alg_id = alg.encode()
    else:
        bits = ENC[enc][1] * 8
        alg_id = enc.encode()
    return concat_kdf(z, other_info(alg_id, apu, apv, bits, tag), bits)


def wrap_for_recipient(alg: str, enc: str, hdr: dict, rjwk: dict, cek: bytes | None, sender: dict | None = None,
                       tag_for_1pu: bytes | None = None, epk_priv: dict | None = None):
    """-> (cek, encrypted_key, extra header members).  hdr: the merged header seen by this recipient (for apu/apv/p2s/p2c).
    For key-wrapping 1PU the content tag must be known first (tag_for_1pu)."""
    extra: dict = {}
    cl = ENC[enc][1]
    if alg == "dir":
        k = jwk_to_native(rjwk)
        return k, b"", extra
    if alg in ("RSA1_5", "RSA-OAEP", "RSA-OAEP-256"):
        cek = cek or os.urandom(cl)
        return cek, jwk_to_native(rjwk, False).encrypt(cek, _rsa_pad(alg)), extra
    if alg in KW_BITS:
        cek = cek or os.urandom(cl)
        return cek, aes_key_wrap(jwk_to_native(rjwk), cek), extra
    if alg.endswith("GCMKW"):
        cek = cek or os.urandom(cl)
        iv = os.urandom(12)
        c = Cipher(algorithms.AES(jwk_to_native(rjwk)), modes.GCM(iv)).encryptor()
        ek = c.update(cek) + c.finalize()
        extra = {"iv": b64e(iv).decode(), "tag": b64e(c.tag).decode()}
        return cek, ek, extra
    if alg.startswith("PBES2"):
        cek = cek or os.urandom(cl)
        p2s = b64d(hdr["p2s"]) if "p2s" in hdr else os.urandom(16)
        p2c = hdr.get("p2c", 1000)
        if "p2s" not in hdr: extra["p2s"] = b64e(p2s).decode()
        if "p2c" not in hdr: extra["p2c"] = p2c
        hname = {"256": "sha256", "384": "sha384", "512": "sha512"}[alg[8:11]]
        kw = alg.split("+")[1]
        kek = hashlib.pbkdf2_hmac(hname, jwk_to_native(rjwk), pbes2_salt(alg, p2s), p2c, KW_BITS[kw] // 8)
        return cek, aes_key_wrap(kek, cek), extra
    if alg.startswith("ECDH-"):
        eph = epk_priv or gen_like(rjwk)
        extra["epk"] = public_jwk(eph)
        z = _dh(eph, rjwk)
        if alg.startswith("ECDH-1PU"):
            z = z + _dh(sender, rjwk)
        if "+" not in alg:
            return _agreed_key(alg, enc, {**hdr, **extra}, z, None), b"", extra
        cek = cek or os.urandom(cl)
        if alg.startswith("ECDH-1PU") and tag_for_1pu is None:
            return cek, None, {**extra, "_eph": eph}          # caller must call again with the tag
        kek = _agreed_key(alg, enc, {**hdr, **extra}, z, tag_for_1pu if alg.startswith("ECDH-1PU") else None)
        return cek, aes_key_wrap(kek, cek), extra
    raise ValueError(alg)


def unwrap_for_recipient(alg: str, enc: str, hdr: dict, rjwk: dict, ek: bytes, sender: dict | None = None, tag: bytes | None = None) -> bytes:
    if alg == "dir":
        if ek:
            raise ValueError("non-empty encrypted key")
        return jwk_to_native(rjwk)
    if alg in ("RSA1_5", "RSA-OAEP", "RSA-OAEP-256"):
        return jwk_to_native(rjwk, True).decrypt(ek, _rsa_pad(alg))
    if alg in KW_BITS:
        return aes_key_unwrap(jwk_to_native(rjwk), ek)
    if alg.endswith("GCMKW"):
        c = Cipher(algorithms.AES(jwk_to_native(rjwk)), modes.GCM(b64d(hdr["iv"]), b64d(hdr["tag"]))).decryptor()
        return c.update(ek) + c.finalize()
    if alg.startswith("PBES2"):
        hname = {"256": "sha256", "384": "sha384", "512": "sha512"}[alg[8:11]]
        kw = alg.split("+")[1]
        kek = hashlib.pbkdf2_hmac(hname, jwk_to_native(rjwk), pbes2_salt(alg, b64d(hdr["p2s"])), hdr["p2c"], KW_BITS[kw] // 8)
        return aes_key_unwrap(kek, ek)
    if alg.startswith("ECDH-"):
        epk = hdr["epk"]
        z = _dh(rjwk, epk)
        if alg.startswith("ECDH-1PU"):
            z = z + _dh(rjwk, sender)
        if "+" not in alg:
            if ek:
                raise ValueError("non-empty encrypted key")
            return _agreed_key(alg, enc, hdr, z, None)
        kek = _agreed_key(alg, enc, hdr, z, tag if alg.startswith("ECDH-1PU") else None)
        return aes_key_unwrap(kek, ek)
    raise ValueError(alg)


def aad_of(protected_segment: bytes, aad: bytes | None) -> bytes:
    return protected_segment + (b"." + b64e(aad) if aad else b"")


def jwe_encrypt(protected: dict, plaintext: bytes, recipients: list[dict], *, unprotected: dict | None = None,
                aad: bytes | None = None, spell=None, iv: bytes | None = None, cek: bytes | None = None,
                raw_deflate=deflate_raw, ops: dict | None = None, mutate=None):
    """Independent JWE producer.
    recipients: [{"jwk":..., "header": {...} | None, "sender": jwk | None}]
    Returns a dict with every part (segments as bytes) from which compact / flattened / general forms are assembled.
    Single-recipient tokens put algorithm-generated members (epk, iv, tag, p2s, p2c) into the protected header;
    multi-recipient ones into the per-recipient header.
    spell: function(dict) -> bytes giving the protected-header JSON octets (default compact separators)."""
    spell = spell or jdump
    ops = ops or {}
    enc = ops.get("enc", protected["enc"])     # ops: algorithms actually used, when the header is to *name* other ones
    single = len(recipients) == 1
    prot = dict(protected)
    pre = []
    for r in recipients:
        hdr = {**prot, **(unprotected or {}), **(r.get("header") or {})}
        alg = ops.get("alg", hdr["alg"])
        c, ek, extra = wrap_for_recipient(alg, enc, hdr, r["jwk"], cek, r.get("sender"))
        cek = c
        eph = extra.pop("_eph", None)
        where = r.get("where") or ("protected" if single else "header")
        if extra:
            if where == "protected":
                prot.update(extra)
            else:
                if r.get("header") is None:
                    r["header"] = {}
                r["header"].update(extra)
        pre.append((r, alg, ek, eph))
    if mutate is not None:
        # last-minute edits of the headers (after key management ran with the good values, before authentication)
        unprotected = dict(unprotected or {})
        for r in recipients:
            if r.get("header") is None:
                r["header"] = {}
        mutate(prot, unprotected, [r["header"] for r in recipients])
        unprotected = unprotected or None
    iv = iv or os.urandom(ENC[enc][2])
    pt = raw_deflate(plaintext) if ops.get("zip", prot.get("zip")) == "DEF" else plaintext
    pseg = b64e(spell(prot))
    a = aad_of(pseg, aad)
    ct, tag = enc_encrypt(enc, cek, iv, a, pt)
    out_r = []
    for r, alg, ek, eph in pre:
        if ek is None:   # 1PU key wrapping: needs the tag
            hdr = {**prot, **(unprotected or {}), **(r.get("header") or {})}
            _, ek, _ = wrap_for_recipient(alg, enc, hdr, r["jwk"], cek, r.get("sender"), tag_for_1pu=tag, epk_priv=eph)
        out_r.append({"header": r.get("header") or None, "encrypted_key": ek})
    return {"protected": pseg, "unprotected": unprotected, "aad": aad, "iv": iv, "ciphertext": ct, "tag": tag,
            "recipients": out_r, "cek": cek, "protected_dict": prot}


def jwe_compact(parts: dict) -> str:
    r = parts["recipients"][0]
    return b".".join([parts["protected"], b64e(r["encrypted_key"]), b64e(parts["iv"]), b64e(parts["ciphertext"]),
                      b64e(parts["tag"])]).decode()


def jwe_json(parts: dict, flattened: bool) -> dict:
    d: dict = {"protected": parts["protected"].decode(), "iv": b64e(parts["iv"]).decode(),
               "ciphertext": b64e(parts["ciphertext"]).decode(), "tag": b64e(parts["tag"]).decode()}
    if parts["unprotected"]:
        d["unprotected"] = parts["unprotected"]
    if parts["aad"]:
        d["aad"] = b64e(parts["aad"]).decode()
    rs = []
    for r in parts["recipients"]:
        m = {}
        if r["header"]:
            m["header"] = r["header"]
        if r["encrypted_key"]:
            m["encrypted_key"] = b64e(r["encrypted_key"]).decode()
        rs.append(m)
    if flattened:
        d.update(rs[0])
    else:
        d["recipients"] = rs
    return d


def jwe_decrypt(token, rjwk: dict, sender: dict | None = None, limit: int | None = 256000, index: int | None = None):
    """Independent JWE consumer (compact str or JSON dict). -> (merged header, plaintext).  Raises on any failure."""
    if isinstance(token, (str, bytes)):
        t = token.encode() if isinstance(token, str) else token
        pseg, ek, iv, ct, tag = t.split(b".")
        recs = [{"encrypted_key": b64d(ek), "header": None}]
        unprot, aad = None, None
        iv, ct, tag = b64d(iv), b64d(ct), b64d(tag)
    else:
        pseg = token["protected"].encode()
        unprot = token.get("unprotected")
        aad = b64d(token["aad"]) if "aad" in token else None
        iv, ct, tag = b64d(token["iv"]), b64d(token["ciphertext"]), b64d(token["tag"])
        raw = token["recipients"] if "recipients" in token else [token]
        recs = [{"encrypted_key": b64d(r.get("encrypted_key", "")), "header": r.get("header")} for r in raw]
    prot = json.loads(b64d(pseg))
    err = None
    for i, r in enumerate(recs):
        if index is not None and i != index:
            continue
        hdr = {**prot, **(unprot or {}), **(r["header"] or {})}
        try:
            cek = unwrap_for_recipient(hdr["alg"], prot["enc"], hdr, rjwk, r["encrypted_key"], sender, tag)
            pt = enc_decrypt(prot["enc"], cek, iv, aad_of(pseg, aad), ct, tag)
            if prot.get("zip") == "DEF":
                pt = inflate_raw(pt, limit)
            return hdr, pt
        except Exception as e:  # noqa
            err = e
    raise ValueError(f"no recipient decrypted: {err!r}")
