"""C10 - claims validation accepts exactly the claim sets that satisfy the request.

Spec: spec/Claims.tla.  TLC checks the operational decision procedure (layer O) against the declarative
acceptance predicate (layer D) on every case and exports every case with its allowed outcome set; each
exported case is concretised (several epochs, int/float spellings, now=None with a patched clock) and run
through the real JWTClaimsRegistry (binding B1).
"""
from __future__ import annotations
import copy
import json

from .common import Ctx, MachineryError

EPOCHS = [1_700_000_000, 2 ** 31 - 3, 2 ** 31 + 4, 10_000, 4_102_444_800, 2 ** 32 + 1]


def conc_val(v, E, flt):
    k = v["k"]
    if k == "null": return None
    if k == "obj": return {"x": 1}
    if k == "str": return v["s"]
    if k == "bool": return v["b"]
    if k == "num":
        t = v["n"]
        if t % 2 == 0:
            return float(E + t // 2) if flt else E + t // 2
        return E + t / 2
    if k == "list": return [conc_val(x, E, flt) for x in v["l"]]
    raise ValueError(k)


def conc_opt(o, E, flt):
    d = {}
    if o["ess"] != "absent": d["essential"] = o["ess"] == "true"
    if o["blank"] != "absent": d["allow_blank"] = o["blank"] == "true"
    r = o["req"]
    if r["k"] in ("value", "both"): d["value"] = conc_val(r["v"], E, flt)
    if r["k"] in ("values", "both"): d["values"] = [conc_val(x, E, flt) for x in r["q"]]
    return d


def concretize(case, variant):
    E = EPOCHS[variant % len(EPOCHS)]
    flt = (variant // len(EPOCHS)) % 2 == 1
    use_clock = (variant // (2 * len(EPOCHS))) % 2 == 1
    claims, opts = {}, {}
    for e in case["e"]:
        if e["v"]["k"] != "absent":
            claims[e["n"]] = conc_val(e["v"], E, flt)
        if e["o"]["ess"] != "none":
            opts[e["n"]] = conc_opt(e["o"], E, flt)
    # the float spelling covers `now` as well: the same instant given as 1700000000.0 (time.time(), datetime.timestamp())
    return (float(E) if flt else E), case["lw"] // 2, claims, opts, use_clock


CLASS = {"MissingClaimError": "missing", "InvalidClaimError": "invalid", "ExpiredTokenError": "expired",
         "InvalidTokenError": "notyet"}


def execute(E, leeway, claims, opts, use_clock):
    from joserfc.jwt import JWTClaimsRegistry
    from joserfc.errors import JoseError
    import joserfc.rfc7519.registry as reg
    before = repr(claims)
    work = copy.deepcopy(claims)
    try:
        if use_clock:
            real = reg.time.time
            reg.time.time = lambda: E + 0.25
            try:
                r = JWTClaimsRegistry(leeway=leeway, **copy.deepcopy(opts))
            finally:
                reg.time.time = real
        else:
            r = JWTClaimsRegistry(now=E, leeway=leeway, **copy.deepcopy(opts))
        r.validate(work)
        out = "ok"
    except JoseError as e:
        out = CLASS.get(type(e).__name__, "jose:" + type(e).__name__)
    except BaseException as e:  # noqa
        out = "escape:" + type(e).__name__
    return out, repr(work) == before


def sig_of(case, out):
    parts = []
    for e in case["e"]:
        o = e["o"]
        parts.append(f"{e['n']}={e['v']['k']}" + ("" if o["ess"] == "none" else f"[{o['ess']},{o['req']['k']},{o['blank']}]"))
    return "claims:" + "+".join(parts) + "->" + out


def check_cases(ctx: Ctx, cases, variants):
    n = 0
    for c in cases:
        case, allowed, pred = c["c"], set(c["allowed"]), c["predicted"]
        key = json.dumps(case, sort_keys=True)
        for var in variants(key):
            args = concretize(case, var)
            out, unmodified = execute(*args)
            n += 1
            if out not in allowed:
                ctx.violation(sig_of(case, out), {"case": case, "allowed": sorted(allowed), "observed": out, "variant": var,
                                                  "concrete": {"now": args[0], "leeway": args[1], "claims": repr(args[2]), "request": repr(args[3]), "clock": args[4]}})
            elif out != pred:
                ctx.note_drift({"case": case, "predicted": pred, "observed": out})
            if not unmodified:
                ctx.violation("claims:modified:" + sig_of(case, out), {"case": case, "variant": var})
        if allowed != {"ok"}:
            ctx.nontrivial.add(key)
    return n


def reuse_pass(ctx: Ctx, cases, thorough: bool):
    """histories on ONE registry object: (1) ClaimsReuse.tla behaviours (presence patterns of essential claims); (2) all
    single-claim cases of Claims.tla that share a request are validated one after the other by the same registry object
    (seeded order), each verdict must be in the set TLC computed for the case on its own"""
    import random
    from joserfc.jwt import JWTClaimsRegistry
    from joserfc.errors import JoseError
    r = ctx.tlc("ClaimsReuse", timeout=300)
    ctx.sensitivity("ClaimsReuse", "ClaimsReuse_dev_EssentialConsumed")
    n = 0
    for c in {json.dumps(x, sort_keys=True): x for x in r.cases}.values():
        reg = JWTClaimsRegistry(now=1_700_000_000, **{name: {"essential": True} for name in c["essential"]})
        for i, step in enumerate(c["hist"]):
            claims = {name: ("v-" + name if name != "aud" else ["v-aud"]) for name in step["present"]}
            if i % 2 and "sub" not in claims:
                claims["sub"] = None                       # an essential claim given as null is missing as well
            try:
                reg.validate(claims); out = "ok"
            except JoseError as e:
                out = CLASS.get(type(e).__name__, "jose:" + type(e).__name__)
            n += 1
            if out != step["verdict"]:
                ctx.violation(f"claims:reused-registry essential={sorted(c['essential'])} call {i + 1} present={sorted(step['present'])} -> {out}",
                              {"history": c, "call": i + 1, "observed": out})
    rnd = random.Random(ctx.seed)
    groups: dict = {}
    for c in cases:
        case = c["c"]
        if len(case["e"]) != 1 or case["e"][0]["o"]["ess"] == "none":
            continue
        e = case["e"][0]
        groups.setdefault(json.dumps([case["lw"], e["n"], e["o"]], sort_keys=True), []).append(c)
    keys = sorted(groups)
    if not thorough:
        keys = rnd.sample(keys, min(len(keys), 600))
    for k in keys:
        grp = groups[k][:]
        rnd.shuffle(grp)
        E = EPOCHS[rnd.randrange(len(EPOCHS))]
        _, leeway, _, opts, _ = concretize(grp[0]["c"], 0)
        opts = conc_opts_at(grp[0]["c"], E)
        reg = JWTClaimsRegistry(now=E, leeway=leeway, **opts)
        for pos, c in enumerate(grp):
            claims = conc_claims_at(c["c"], E)
            try:
                reg.validate(copy.deepcopy(claims)); out = "ok"
            except JoseError as e:
                out = CLASS.get(type(e).__name__, "jose:" + type(e).__name__)
            except BaseException as e:  # noqa
                out = "escape:" + type(e).__name__
            n += 1
            if out not in set(c["allowed"]):
                ctx.violation("claims:reused-registry " + sig_of(c["c"], out), {"case": c["c"], "allowed": c["allowed"], "observed": out,
                                                                                "position_in_history": pos, "now": E})
    ctx.notes["reuse_pass"] = {"model_histories": len(r.cases), "request_groups": len(keys), "calls": n}
    return n


def abstract_event(ev):
    """recorded validate() call -> case of Claims.tla, or None when a value has no counterpart in the model"""
    now, lee = ev.get("now"), ev.get("leeway")
    if ev.get("cls") != "JWTClaimsRegistry" or not isinstance(now, int) or not isinstance(lee, int) or not isinstance(ev.get("claims"), dict):
        return None
    TIME = ("exp", "nbf", "iat")

    def tick(x, rel):
        t = 2 * (x - now) if rel else 2 * x
        if t != int(t):
            raise ValueError("not on the half-second grid")
        t = int(t)
        return max(-10 ** 8, min(10 ** 8, t))         # far past / far future keep their side of every boundary

    def val(v, rel, top=True):
        if v is None: return {"k": "null"}
        if isinstance(v, bool): return {"k": "bool", "b": v}
        if isinstance(v, (int, float)): return {"k": "num", "n": tick(v, rel)}
        if isinstance(v, str): return {"k": "str", "s": v}
        if isinstance(v, dict): return {"k": "obj"}
        if isinstance(v, list) and top:
            items = [val(x, rel, False) for x in v]
            if any(i["k"] in ("list", "obj") for i in items): raise ValueError("nested")
            return {"k": "list", "l": items}
        raise ValueError("no counterpart")
    try:
        es = []
        names = list(ev["claims"]) + [n for n in ev["options"] if n not in ev["claims"]]
        for n in names:
            rel = n in TIME
            v = val(ev["claims"][n], rel) if n in ev["claims"] else {"k": "absent"}
            if n in ev["options"]:
                o = ev["options"][n]
                if not isinstance(o, dict) or set(o) - {"essential", "allow_blank", "value", "values"}:
                    return None
                tri = lambda x: "absent" if x is None else ("true" if x else "false")
                hv, hq = o.get("value") is not None, o.get("values") is not None
                req = {"k": "none"}
                if hv and hq: req = {"k": "both", "v": val(o["value"], rel), "q": [val(x, rel, False) for x in o["values"]]}
                elif hv: req = {"k": "value", "v": val(o["value"], rel)}
                elif hq: req = {"k": "values", "q": [val(x, rel, False) for x in o["values"]]}
                opt = {"ess": tri(o.get("essential")), "req": req, "blank": tri(o.get("allow_blank"))}
            else:
                opt = {"ess": "none"}
            es.append({"n": n, "v": v, "o": opt})
        return {"lw": 2 * lee, "e": es}
    except (ValueError, TypeError, KeyError):
        return None


def trace_claims(ctx: Ctx) -> int:
    """B2: claims validations performed by the repository's own test-suite, judged by TLC with the declarative rule"""
    import os, subprocess
    from .common import REPO, VERIF
    nd = ctx.scratch / "api.ndjson"
    env = dict(os.environ, JOSERFC_VERIF="1", JOSERFC_VERIF_TRACE=str(nd), PYTHONPATH=f"{REPO / 'src'}:{VERIF}", PYTHONDONTWRITEBYTECODE="1")
    subprocess.run(["/venv/bin/python", "-B", "-m", "pytest", "-q", "-p", "no:cacheprovider", "-p", "harness.verif_pytest_plugin", "tests/jwt"],
                   cwd=str(REPO), env=env, capture_output=True, text=True, timeout=600)
    f = ctx.scratch / "api.ndjson.claims"
    if not f.exists():
        raise MachineryError("tracer recorded no claims validation")
    events = [json.loads(l) for l in f.read_text().splitlines() if l.strip()]
    pairs = [(e, abstract_event(e)) for e in events]
    pairs = [(e, c) for e, c in pairs if c is not None]
    if len(pairs) < 10:
        raise MachineryError(f"only {len(pairs)} of {len(events)} recorded validations could be projected onto the model")

    def evaluate(cases, name):
        fin, fout = ctx.scratch / f"{name}_in.json", ctx.scratch / f"{name}_out.json"
        fin.write_text(json.dumps(cases))
        ctx.tlc("ClaimsEval", env={"IN_FILE": str(fin), "OUT_FILE": str(fout)}, timeout=300)
        return json.loads(fout.read_text())
    allowed = evaluate([c for _, c in pairs], "claims_trace")
    for (e, c), al in zip(pairs, allowed):
        out = "ok" if e["outcome"] == "ok" else CLASS.get(e["outcome"], "other:" + e["outcome"])
        if out not in al:
            ctx.violation("claims:trace " + sig_of(c, out), {"event": e, "case": c, "allowed": al, "observed": out,
                                                             "source": "repository test-suite under the tracer"})
    # binding demonstration: an expired token recorded as accepted must be refused by the rule
    demo = {"lw": 0, "e": [{"n": "exp", "v": {"k": "num", "n": -10}, "o": {"ess": "none"}}]}
    if "ok" in evaluate([demo], "claims_demo")[0]:
        raise MachineryError("binding demonstration failed: the rule accepts an expired token")
    ctx.notes["claims_trace"] = {"recorded": len(events), "projected_and_judged": len(pairs), "source": "repository test-suite (tests/jwt)"}
    ctx.traces += 1
    return len(pairs)


def conc_opts_at(case, E):
    return {e["n"]: conc_opt(e["o"], E, False) for e in case["e"] if e["o"]["ess"] != "none"}


def conc_claims_at(case, E):
    return {e["n"]: conc_val(e["v"], E, False) for e in case["e"] if e["v"]["k"] != "absent"}


def class_history(hist):
    """one behaviour of ClaimsClasses.tla in this (fresh) process: registry objects of two classes asked in turn"""
    from joserfc.jwt import JWTClaimsRegistry
    from joserfc.rfc7519.registry import ClaimsRegistry
    from joserfc.errors import JoseError
    E = 1_700_000_000
    regs = {"plain": ClaimsRegistry(iss={"essential": True, "value": "https://issuer.example"}),
            "jwt": JWTClaimsRegistry(now=E, leeway=0, iss={"essential": True, "value": "https://issuer.example"})}
    out = []
    for i, step in enumerate(hist):
        c = step["call"]
        good = {"exp": E + 600, "nbf": E - 600, "iat": E - 600}[c["name"]]
        bad = {"exp": E - 600, "nbf": E + 600, "iat": E + 600}[c["name"]] if i % 2 else "not-a-date"
        claims = {"iss": "https://issuer.example", c["name"]: good if c["value"] == "passes" else bad}
        try:
            regs[c["cls"]].validate(claims); out.append("ok")
        except JoseError:
            out.append("refused")
        except BaseException as e:  # noqa
            out.append("escape:" + type(e).__name__)
    return out


def class_pass(ctx: Ctx, pool) -> int:
    r = ctx.tlc("ClaimsClasses", timeout=300)
    ctx.sensitivity("ClaimsClasses", "ClaimsClasses_dev_HooksSharedAcrossClasses")
    hists = list({json.dumps(h, sort_keys=True): h for h in r.cases}.values())
    if len(hists) < 1000:
        raise MachineryError(f"ClaimsClasses export too small: {len(hists)}")
    n = 0
    for h, obs in zip(hists, pool.map(class_history, hists, chunksize=16)):      # a fresh process per history
        for i, (step, o) in enumerate(zip(h, obs)):
            n += 1
            if o != step["verdict"]:
                c = step["call"]
                before = ",".join(f"{s['call']['cls']}:{s['call']['name']}" for s in h[:i])
                ctx.violation(f"claims:classes {c['cls']} registry, {c['name']} {c['value']} after [{before}] -> {o}", {"class_history": h, "call": i + 1, "observed": o})
                break
    ctx.notes["class_histories"] = len(hists)
    return n


def run(ctx: Ctx) -> None:
    thorough = ctx.tier == "thorough"
    from .common import FreshPool
    with FreshPool() as fresh:                      # created before this process has validated anything
        n_classes = class_pass(ctx, fresh)
    r1 = ctx.tlc("Claims", "Claims_single", timeout=900, workers=1)
    r2 = ctx.tlc("Claims", "Claims_pair", timeout=900, workers=1)
    for flag in ("BoolIsNumber", "LeewaySignFlipped", "EssentialNullAccepted", "ValuesAsValue", "BlankDefaultAllowed", "AudNeedsAll"):
        ctx.sensitivity("Claims", "Claims_dev_" + flag, workers=1)
    cases = r1.cases + r2.cases
    if len(r1.cases) < 50000 or len(r2.cases) < 10000:
        raise MachineryError(f"case export too small: {len(r1.cases)} {len(r2.cases)}")
    nvar = 2 * len(EPOCHS) * 2

    def variants(key):
        if thorough:
            return range(nvar)
        h = hash(key) ^ ctx.seed
        return [h % nvar, (h // 7 + 5) % nvar]

    ctx.evaluations = check_cases(ctx, cases, variants) + n_classes
    ctx.evaluations += reuse_pass(ctx, cases, thorough)
    ctx.evaluations += trace_claims(ctx)
    ctx.traces = len(cases)
    ctx.exhaustive = True
    ctx.rule = ("TLC enumerates every single-claim case (8 claim names x 27 JSON values incl. boundary ticks around now+-leeway x 109 "
                "request options x 3 leeways) and pairs of claims over reduced sets; each case is one behaviour of the operational "
                "model (essential pass, per-claim dispatch) replayed as real validate() calls under several epochs / int-float spellings "
                "/ now=None; distinct_nontrivial = distinct abstract cases whose allowed set is not just {ok}")
    for c in cases[1000:1003]:
        ctx.sample(c)
    ctx.assumptions = ["exp == now-leeway, value+values given together and disagreeing, aud with values=[] or blank value: either verdict accepted",
                       "Python equality of JSON values (True == 1) is avoided in generated cases",
                       "NaN/Infinity claims not generated"]


def replay(ctx: Ctx, rec: dict) -> None:
    if "class_history" in rec:
        from .common import FreshPool
        with FreshPool(1) as fresh:
            obs = fresh.map(class_history, [rec["class_history"]])[0]
        print([s["call"] for s in rec["class_history"]], "->", obs)
        if any(o != s["verdict"] for o, s in zip(obs, rec["class_history"])):
            ctx.violation(rec["signature"], {"now": obs})
        return
    args = concretize(rec["case"], rec.get("variant", 0))
    out, unmod = execute(*args)
    print("case:", json.dumps(rec["case"]))
    print("concrete: now=%r leeway=%r claims=%r request=%r clock=%r" % args)
    print("allowed:", rec.get("allowed"), "observed now:", out, "claims unmodified:", unmod)
    if out not in set(rec.get("allowed", [])):
        ctx.violation(rec["signature"], {"case": rec["case"], "observed": out})
