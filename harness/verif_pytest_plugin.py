"""pytest plugin: run the repository's own tests with the API tracer installed (python -m pytest -p harness.verif_pytest_plugin)."""
import os


def pytest_configure(config):
    if os.environ.get("JOSERFC_VERIF") == "1":
        from harness import tracer
        tracer.install()
