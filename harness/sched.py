"""Deterministic line-granular thread scheduler for joserfc code (no repository hooks).

Every thread runs under sys.settrace; each 'line' event inside /repo/src/joserfc is a yield point.  Exactly one thread
runs at a time (baton passing with per-thread events).  A schedule is a list of preemption points (thread, step): when the
thread reaches its step-th yield point the baton goes to the next unfinished thread; a finished thread hands the baton on.
With the GIL and one runnable thread at a time the execution is a deterministic function of (operations, schedule).
"""
from __future__ import annotations
import sys
import threading
import traceback


class Scheduler:
    def __init__(self, ops, preempts, first=0, src_marker="/joserfc/", observer=None):
        # observer (optional, for trace recording): .line(t) before every line of thread t, .running(t) when t gets the baton,
        # .returned(t, result, error) when t's operation has finished - all called by the thread that holds the baton
        self.observer = observer
        self.ops = ops
        self.n = len(ops)
        self.preempts = {}
        for t, k in preempts:
            self.preempts.setdefault(t, set()).add(k)
        self.first = first
        self.marker = src_marker
        self.go = [threading.Event() for _ in ops]
        self.steps = [0] * self.n
        self.done = [False] * self.n
        self.results = [None] * self.n
        self.errors = [None] * self.n
        self.order = []            # (thread, step) at every switch, for replay files
        self.lock = threading.Lock()
        self.stuck = False

    # -- baton
    def _next(self, me):
        for d in range(1, self.n + 1):
            t = (me + d) % self.n
            if not self.done[t] and t != me:
                return t
        return None

    def _switch(self, me, finished=False):
        nxt = self._next(me)
        if nxt is None:
            return
        self.order.append((me, self.steps[me]))
        self.go[me].clear()
        self.go[nxt].set()
        if not finished:
            if not self.go[me].wait(30):
                self.stuck = True
                raise RuntimeError("scheduler: baton never came back")

    def _tracer(self, me):
        marker = self.marker

        def local(frame, event, arg):
            if event == "line":
                self.steps[me] += 1
                if self.observer is not None:
                    self.observer.line(me)
                if self.steps[me] in self.preempts.get(me, ()):
                    self._switch(me)
                    if self.observer is not None:
                        self.observer.running(me)
            return local

        def glob(frame, event, arg):
            if marker in frame.f_code.co_filename:
                return local
            return None
        return glob

    def _body(self, me):
        if not self.go[me].wait(30):
            self.stuck = True
            return
        if self.observer is not None:
            self.observer.running(me)
        sys.settrace(self._tracer(me))
        try:
            self.results[me] = self.ops[me]()
        except BaseException as e:  # noqa
            self.errors[me] = (type(e).__name__, str(e)[:200], traceback.format_exc()[-600:])
        finally:
            sys.settrace(None)
            if self.observer is not None:
                self.observer.returned(me, self.results[me], self.errors[me])
            self.done[me] = True
            self._switch(me, finished=True)

    def run(self):
        ths = [threading.Thread(target=self._body, args=(i,), daemon=True) for i in range(self.n)]
        for t in ths:
            t.start()
        self.go[self.first].set()
        for t in ths:
            t.join(60)
        if any(t.is_alive() for t in ths):
            self.stuck = True
        return self


def count_steps(op, src_marker="/joserfc/") -> int:
    s = Scheduler([op], [], 0, src_marker).run()
    if s.errors[0]:
        raise RuntimeError(f"operation failed in isolation: {s.errors[0]}")
    return s.steps[0]
