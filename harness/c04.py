"""C04 - JWE encrypt-then-decrypt round trip for every alg, enc, zip and serialization; forbidden combinations refused.

Spec: spec/JweRoundTrip.tla (Encrypt -> Decrypt over 21 alg x 8 enc x zip x 3 serializations x AAD x apu/apv x plaintext
class x header placement, and recipient mixes incl. the forbidden ones; invariants RoundTripOrRefused, NothingEmitted).
Binding B1: every exported scenario is run on the real library with pool keys (curves rotated over P-256/384/521,
secp256k1, X25519, X448): the plaintext and the header members must come back in their positions; a forbidden
combination must raise the conflict / invalid-encryption-algorithm error at encryption time.
"""
from __future__ import annotations
import json
import random
import zlib

from .common import Ctx, MachineryError, scribble
from . import joseops as J
from . import refimpl as R
from . import keys as K

CURVES = ["EC:P-256", "EC:P-384", "EC:P-521", "EC:secp256k1", "OKP:X25519", "OKP:X448"]
GENERATED = {"epk", "iv", "tag", "p2s", "p2c", "kid", "skid"}


def plaintext(pc: str, rnd: random.Random) -> bytes:
    if pc == "empty": return b""
    if pc == "one": return bytes([rnd.randrange(256)])
    if pc in ("b15", "b16", "b17"): return bytes(rnd.randrange(256) for _ in range(int(pc[1:])))
    if pc == "k4": return bytes(rnd.randrange(256) for _ in range(4096))
    if pc == "binary": return b"\x00\xff\x80" + bytes(rnd.randrange(256) for _ in range(rnd.randrange(1, 300))) + b"\x00"
    if pc == "compressible": return (b"A" * rnd.choice([200000, 255999, 256000])) if rnd.random() < .5 else (b"abc123" * 30000)
    if pc == "b4090": return bytes(rnd.randrange(256) for _ in range(rnd.choice([4090, 4080, 8180])))
    if pc == "incompressible": return rnd.randbytes(rnd.choice([256000, 255999, 255960, 255921, 250000]))
    raise ValueError(pc)


def keys_for(alg: str, enc: str, i: int):
    """-> (recipient private jwk, sender private jwk or None)"""
    if alg.startswith("ECDH"):
        kind = CURVES[i % len(CURVES)]
        return K.get(kind, 0), (K.get(kind, 1) if alg.startswith("ECDH-1PU") else None)
    return K.get(K.jwe_key_kind(alg, enc), i % 2), None


def _one_impl(sc, idx: int, seed: int, with_ref: bool):
    from joserfc import jwe
    from joserfc.jwk import KeySet
    from joserfc.errors import ConflictAlgorithmError, InvalidEncryptionAlgorithmError
    rnd = random.Random(f"{seed}-{idx}")
    algs, enc, ser = sc["algs"], sc["enc"], sc["ser"]
    fails = []
    pt = plaintext(sc["pc"], rnd)
    recs = [keys_for(a, enc, idx + j) for j, a in enumerate(algs)]
    sender = next((s for _, s in recs if s), None)
    if sender is not None:          # one sender for all ECDH-1PU recipients: put them on the sender's curve
        kind = CURVES[idx % len(CURVES)]
        recs = [((K.get(kind, 0) if j == 0 else R.gen_like(K.get(kind, 0))) if a.startswith("ECDH-1PU") else r, (K.get(kind, 1) if a.startswith("ECDH-1PU") else None))
                for j, (a, (r, s)) in enumerate(zip(algs, recs))]
        sender = K.get(kind, 1)
    names = list(R.JWE_ALGS + R.JWE_1PU) + list(R.ENC) + ["DEF"]
    reg = jwe.JWERegistry(algorithms=names)
    spread = sc["place"] == "spread"
    prot = {"enc": enc, "cty": "t/x \u00e9\u4e2d"}
    unprot, rhdrs = {}, [{} for _ in algs]
    if sc["zip"]:
        prot["zip"] = "DEF"
    if spread:
        unprot = {"typ": "verif \u00fc"}
        for j, a in enumerate(algs):
            rhdrs[j] = {"alg": a, "kid": "rcp-%d" % j}
    else:
        prot["alg"] = algs[0]
    for j, a in enumerate(algs):
        tgt = rhdrs[j] if spread else prot
        if a.startswith("PBES2"):
            tgt["p2c"] = 8
        if sc["pinfo"] and a.startswith("ECDH"):
            tgt["apu"] = R.b64e(b"Alice").decode(); tgt["apv"] = R.b64e(b"Bob \x00").decode()
    aad = b"extra aad \x00\xff" if sc["aad"] else None
    given = (json.loads(json.dumps(prot)), json.loads(json.dumps(unprot)), json.loads(json.dumps(rhdrs)))
    skey = J.jkey(sender) if sender else None
    kw = {"sender_key": skey} if skey else {}
    # ---- encrypt
    try:
        if ser == "compact":
            tok = jwe.encrypt_compact(prot, pt, J.jkey(J.pub(recs[0][0])), registry=reg, **kw)
        else:
            cls = jwe.FlattenedJSONEncryption if ser == "flattened" else jwe.GeneralJSONEncryption
            obj = cls(prot, pt, unprot or None, aad)
            for (rj, _), rh in zip(recs, rhdrs):
                obj.add_recipient(rh or None, J.jkey(J.pub(rj)))
            tok = jwe.encrypt_json(obj, None, registry=reg, **kw)
    except ConflictAlgorithmError:
        return fails if sc["expect"] == "conflict" else [("encrypt-raised:ConflictAlgorithmError", "")]
    except InvalidEncryptionAlgorithmError:
        return fails if sc["expect"] == "invalid_enc" else [("encrypt-raised:InvalidEncryptionAlgorithmError", "")]
    except Exception as e:  # noqa
        if sc["expect"] != "exact":
            return [("refused-with-other-error:" + type(e).__name__, str(e)[:80])]
        return [("encrypt-raised:" + type(e).__name__, str(e)[:100])]
    if sc["expect"] != "exact":
        return [("forbidden-combination-produced-token", sc["expect"])]
    # ---- decrypt (each recipient alone; and all of them through a key set when kids are present)
    spub = J.jkey(J.pub(sender)) if sender else None
    kw = {"sender_key": spub} if spub else {}
    reg_any = jwe.JWERegistry(algorithms=names, verify_all_recipients=False)
    runs = []
    ktys = {rj["kty"] for rj, _ in recs}
    for j, (rj, _) in enumerate(recs):
        # a single key can only be offered to every recipient entry when all entries take that kind of key; with mixed
        # key types the decryptor must hold a key set (below) - offering an RSA key to an ECDH entry is a caller error
        if len(recs) == 1 or len(ktys) == 1:
            runs.append((f"recipient{j}", J.jkey(rj), reg if len(recs) == 1 else reg_any))
    if spread and len(recs) > 1:
        ks = KeySet.import_key_set({"keys": [{**rj, "kid": "rcp-%d" % j} for j, (rj, _) in enumerate(recs)]})
        runs.append(("keyset", ks, reg))
    for name, key, rg in runs:
        try:
            o = jwe.decrypt_compact(J.F(tok), key, registry=rg, **kw) if ser == "compact" else jwe.decrypt_json(tok, key, registry=rg, **kw)
        except Exception as e:  # noqa
            fails.append((f"decrypt-raised:{type(e).__name__}", name + " " + str(e)[:80])); continue
        if o.plaintext != pt:
            fails.append(("plaintext-differs", f"{name} len {len(o.plaintext or b'')} vs {len(pt)}"))
        if name in ("recipient0", "keyset"):
            # what was returned belongs to the caller: editing it must not change a later decryption of the same token
            snap = json.dumps(o.protected, sort_keys=True)
            o.protected["injected"] = 1; o.protected.pop("enc", None); scribble(o.protected)
            try:
                o2 = jwe.decrypt_compact(tok, key, registry=rg, **kw) if ser == "compact" else jwe.decrypt_json(tok, key, registry=rg, **kw)
                if json.dumps(o2.protected, sort_keys=True) != snap or o2.plaintext != pt:
                    fails.append(("second-decryption-differs-after-caller-edited-first-result", json.dumps(o2.protected)[:80]))
                o = o2
            except Exception as e:  # noqa
                fails.append(("second-decryption-raised-after-caller-edited-first-result:" + type(e).__name__, name)); continue
        gp, gu, gr = given
        if any(o.protected.get(k) != v for k, v in gp.items()):
            fails.append(("protected-members-differ", json.dumps(o.protected)[:100]))
        if ser != "compact":
            if any((o.unprotected or {}).get(k) != v for k, v in gu.items()) or set((o.unprotected or {})) - set(gu):
                fails.append(("unprotected-members-differ", json.dumps(o.unprotected)[:100]))
            for j, r in enumerate(o.recipients):
                h = r.header or {}
                if any(h.get(k) != v for k, v in gr[j].items()) or (set(h) - set(gr[j]) - GENERATED):
                    fails.append(("recipient-header-differs", json.dumps(h)[:100]))
    if sc["zip"] and not fails:
        # DEF must actually be applied: the ciphertext of a compressible plaintext is short
        if sc["pc"] == "compressible":
            ct = tok.split(".")[3] if ser == "compact" else tok["ciphertext"]
            if len(ct) > 20000:
                fails.append(("zip-not-applied", str(len(ct))))
    if with_ref:
        for j, (rj, _) in enumerate(recs):
            try:
                _, p2 = R.jwe_decrypt(tok, rj, J.pub(sender) if sender else None, index=j if len(recs) > 1 else None)
                if p2 != pt:
                    fails.append(("ref-plaintext-differs", f"recipient{j}"))
            except Exception as e:  # noqa
                fails.append(("ref-decrypt-failed:" + type(e).__name__, f"recipient{j} {str(e)[:120]}"))
    return fails


def _init():
    from .common import _pool_init
    _pool_init()
    J.register_drafts({"1pu", "chacha"})


def run_chunk(args):
    items, seed, with_ref = args
    out = []
    for idx, sc in items:
        for what, detail in one(sc, idx, seed, with_ref):
            out.append((idx, what, detail))
    return out


def sig(sc, what) -> str:
    return (f"jwert:{sc['ser']} algs={'+'.join(sc['algs'])} enc={sc['enc']} zip={sc['zip']} aad={sc['aad']} apuapv={sc['pinfo']} "
            f"pt={sc['pc']} place={sc['place']} -> {what}")


def execute(ctx: Ctx, with_ref: bool, prop_filter=None) -> None:
    thorough = ctx.tier == "thorough"
    rnd = random.Random(ctx.seed)
    rs = ctx.tlc_many([("JweRoundTrip", "JweRoundTrip_single", {"timeout": 900}), ("JweRoundTrip", "JweRoundTrip_multi", {"timeout": 600})])
    if thorough:
        ctx.tlc_many([("JweRoundTrip", "JweRoundTrip_dev_" + d, {"timeout": 600, "expect_violation": True})
                      for d in ("DirectMultiAllowed", "OnePuAnyEnc", "ZipOneSided", "RecipientHeaderLost")])
    scs = []
    for r in rs:
        seen = set()
        for c in r.cases:
            k = json.dumps(c, sort_keys=True)
            if k not in seen:
                seen.add(k); scs.append({**c["sc"], "expect": c["expect"]})
    if len(scs) < 20000:
        raise MachineryError(f"scenario export too small: {len(scs)}")
    total = len(scs)
    items = list(enumerate(scs))
    if not thorough:
        items = [x for x in items if len(x[1]["algs"]) > 1 or rnd.random() < 0.2]
    import multiprocessing as mp
    from .common import NCPU
    chunks = [(items[i:i + 150], ctx.seed, with_ref) for i in range(0, len(items), 150)]
    with mp.get_context("fork").Pool(NCPU, initializer=_init) as pool:
        res = pool.map(run_chunk, chunks, chunksize=1)
    for out in res:
        for idx, what, detail in out:
            if prop_filter and not prop_filter(what):
                continue
            ctx.violation(sig(scs[idx], what.split(":")[0]), {"scenario": scs[idx], "index": idx, "what": what, "detail": detail})
    for idx, sc in items:
        ctx.nontrivial.add(str(idx))
    ctx.evaluations += len(items)
    ctx.traces += len(items)
    ctx.exhaustive = thorough
    ctx.notes.update(abstract_scenarios=total, executed=len(items))
    ctx.sample(scs[5]); ctx.sample(scs[20000]); ctx.sample(scs[-3])



def one(sc, idx: int, seed: int, with_ref: bool):
    from .common import from_library
    try:
        return _one_impl(sc, idx, seed, with_ref)
    except Exception as e:  # noqa
        where = from_library(e)
        if where is None:
            raise
        return [("library-raised:" + where.split("@")[0], where)]

def run(ctx: Ctx) -> None:
    execute(ctx, with_ref=False, prop_filter=lambda w: not w.startswith("ref-"))
    from . import c17
    from .common import pmap
    nd = 2048 if ctx.tier == "thorough" else 512
    for bad, n in pmap(c17.diversity, [(i, nd // 16, ctx.seed) for i in range(0, nd, nd // 16)], chunksize=1):
        ctx.evaluations += n
        for i, ln, what in bad[:3]:
            if what.startswith("round trip"):
                ctx.violation("jwert:zip=DEF diverse large plaintext -> " + what.split(":")[0], {"index": i, "length": ln, "what": what})
    # the life of one encryption object: encrypted, edited, encrypted again; parsed from a foreign token and re-encrypted (JweReuse.tla)
    _init()
    from . import reenc
    ctx.evaluations += reenc.run(ctx, "C04")
    ctx.rule = ("every scenario of JweRoundTrip.tla: 21 alg x 8 enc x zip x 3 serializations x AAD x apu/apv x 8 plaintext classes x header placement for "
                "one recipient, and 10 recipient mixes (incl. forbidden ones) x 3 enc x zip x AAD x plaintext class; quick = all mixes + a seeded fifth "
                "of the single-recipient scenarios; ECDH keys rotate over six curves; distinct_nontrivial = distinct scenarios executed")
    ctx.assumptions = ["plaintexts are seeded samples of each class, not all octet strings"]


def replay(ctx: Ctx, rec: dict) -> None:
    if rec.get("reuse"):
        from . import reenc
        _init()
        return reenc.replay(ctx, rec)
    _init()
    f = one(rec["scenario"], rec["index"], ctx.seed if "seed" not in rec else rec["seed"], True)
    print(json.dumps(rec["scenario"]), "observed now:", f)
    if f:
        ctx.violation(rec["signature"], {"scenario": rec["scenario"], "detail": f})
