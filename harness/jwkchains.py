"""Replay of Jwk.tla behaviours (chains of export/import, thumbprint, ensure_kid, public exports) on real keys.
Shared by C11 (material and encodings), C12 (no private material in public outputs) and C13 (thumbprints / kid).
Every finding is tagged with the property it belongs to."""
from __future__ import annotations
import base64
import json
import random

from . import joseops as J
from . import refimpl as R
from . import keys as K

KINDS = {"oct": ["oct128", "oct256", "oct64", "oct800"], "RSA": ["RSA2048", "RSA1024", "RSA3072", "RSA1024crt0", "RSA2050"],
         "EC": ["EC:P-256", "EC:P-384", "EC:P-521", "EC:secp256k1", "EC0:P-256", "EC0:P-384", "EC0:P-521", "EC0:secp256k1"],
         "OKP": ["OKP:Ed25519", "OKP:Ed448", "OKP:X25519", "OKP:X448"]}
PRIVATE_MEMBERS = {"oct": ["k"], "RSA": ["d", "p", "q", "dp", "dq", "qi"], "EC": ["d"], "OKP": ["d"]}
EXTRAS = {"use": "sig", "x5t": "dGh1bWI"}


def secret_needles(jwk: dict) -> list[bytes]:
    """octet strings that must never appear in a public output, in several textual forms"""
    out = []
    for m in PRIVATE_MEMBERS[jwk["kty"]]:
        if m not in jwk:
            continue
        raw = R.b64d(jwk[m])
        if len(raw) < 8:
            continue
        out.append(raw)
        out.append(raw.hex().encode()); out.append(raw.hex().upper().encode())
        out.append(str(int.from_bytes(raw, "big")).encode())
        for a in range(3):
            e = base64.b64encode(b"\x00" * a + raw)
            core = e[(4 if a else 0):len(e) - 4]
            if len(core) >= 12:
                out.append(core); out.append(core.replace(b"+", b"-").replace(b"/", b"_"))
    return out


def scan(output, needles) -> bool:
    b = output if isinstance(output, bytes) else (output.encode() if isinstance(output, str) else json.dumps(output).encode())
    return any(n in b for n in needles)


STRAY = {"RSA": ["p", "q", "dp", "dq", "qi"], "EC": ["d"], "OKP": ["d"]}


def load(jwk: dict, origin: str, priv: bool, kid, extras: bool, stray: bool = False):
    """build the initial joserfc key object as the abstract state says"""
    from joserfc.jwk import JWKRegistry
    from cryptography.hazmat.primitives import serialization as S
    params = {}
    if kid is not None:
        params["kid"] = kid
    if extras:
        params.update(EXTRAS)
    src = dict(jwk) if (priv or jwk["kty"] == "oct") else R.public_jwk(jwk)
    if stray:
        sm = {m: jwk[m] for m in STRAY[jwk["kty"]]}
        if origin == "jwk" and jwk["kty"] == "RSA":
            src.update(sm)                      # CRT members without "d": imports as a public key
        else:
            params.update(sm)                   # private-named members through the parameters argument
    if origin == "jwk":
        order = len(json.dumps(jwk)) % 3          # the members of a JWK object come in any order: as made / sorted / reversed
        if order:
            src = dict(sorted(src.items(), reverse=(order == 2)))
        if stray and jwk["kty"] != "RSA":
            sm = {m: params.pop(m) for m in STRAY[jwk["kty"]]}
            return JWKRegistry.import_key({**src, **params}, parameters=sm)
        return JWKRegistry.import_key({**src, **params})
    if origin in ("pem", "der"):
        native = R.jwk_to_native(jwk, True)
        enc = S.Encoding.PEM if origin == "pem" else S.Encoding.DER
        data = (native.private_bytes(enc, S.PrivateFormat.PKCS8, S.NoEncryption()) if priv
                else native.public_key().public_bytes(enc, S.PublicFormat.SubjectPublicKeyInfo))
        return JWKRegistry.import_key(data, jwk["kty"], params or None)
    raise ValueError(origin)


def generate(kind: str, priv: bool, kid, extras: bool, auto_kid: bool = False):
    from joserfc.jwk import JWKRegistry
    kty, _, arg = kind.partition(":")
    if kty.startswith("oct"): kty, arg = "oct", int(kind[3:])
    elif kty.startswith("RSA"): kty, arg = "RSA", int(kind[3:])
    elif kty.startswith("EC0"): kty = "EC"
    params = {}
    if kid is not None: params["kid"] = kid
    if extras: params.update(EXTRAS)
    # auto_kid asks for a thumbprint kid when none is given; a kid that is given stays whatever the flag says
    return JWKRegistry.generate_key(kty, arg, params or None, priv, auto_kid=(kid is not None and auto_kid))


def native_jwk(key, private: bool) -> dict:
    """RFC-conformant JWK of the real object's material, computed by refimpl from the native key"""
    raw = key.raw_value
    if isinstance(raw, bytes):
        return R.native_to_jwk(raw, True)
    if private:
        return R.native_to_jwk(key.private_key, True)
    return R.native_to_jwk(key.public_key, False)


def replay(case, kind: str, seed: int):
    """-> list of (property, what, detail)"""
    from joserfc.jwk import JWKRegistry, KeySet
    rnd = random.Random(f"{seed}-{kind}-{json.dumps(case)[:80]}")
    kty = case["kty"]
    F = []
    h0 = case["hist"][0]["before"]
    # a given kid is any string, the empty one included (a third of the replays)
    kidv = ("" if rnd.randrange(3) == 0 else "given-kid-1") if h0["kid"] == "given" else None
    try:
        if h0["origin"] == "generated":
            if kind in ("RSA2050", "RSA2047", "RSA1024crt0"):
                kind = "RSA1024"              # (pool-only keys: joserfc generates RSA keys in whole octets, and a short CRT member is luck)
            key = generate(kind, h0["priv"], kidv, h0["extras"], rnd.randrange(2) == 0)
            material = native_jwk(key, h0["priv"])
            if not h0["priv"]:
                material = dict(material)
        else:
            material = K.get(kind, rnd.randrange(3))
            key = load(material, h0["origin"], h0["priv"], kidv, h0["extras"], h0.get("stray", False))
    except Exception as e:  # noqa
        return [("C11", f"initial-load-raised:{type(e).__name__}", f"{kind} {h0} {str(e)[:80]}")]
    pub_expected = R.public_jwk(material) if kty != "oct" else material
    needles = secret_needles(material) if any(m in material for m in PRIVATE_MEMBERS[kty]) else []
    thumb = R.thumbprint(material)
    first_key = key

    def project(k, st, where):
        if k.is_private != st["priv"]:
            F.append(("C11", "private-flag-differs", f"{where}: is_private={k.is_private} expected {st['priv']}"))
        try:
            got_pub = native_jwk(k, False) if kty != "oct" else native_jwk(k, True)
        except Exception as e:  # noqa
            F.append(("C11", "material-unreadable", f"{where}: {e!r}")); return
        core = {m: got_pub[m] for m in R.THUMB_MEMBERS[kty]}
        if core != {m: pub_expected[m] for m in R.THUMB_MEMBERS[kty]}:
            F.append(("C11", "public-material-differs", where))
        if st["priv"] and kty != "oct" and k.is_private:
            gp = native_jwk(k, True)
            if any(gp[m] != material[m] for m in PRIVATE_MEMBERS[kty] if m in material):
                F.append(("C11", "private-material-differs", where))
        want_kid = {"none": None, "given": kidv, "thumb": thumb}[st["kid"]]
        if k.kid != want_kid:
            F.append(("C13", "kid-differs", f"{where}: kid={k.kid!r} expected {st['kid']}"))
        # exported JWK members follow RFC 7518/8037 (fixed-length EC coordinates, minimal RSA integers, unpadded base64url)
        try:
            d = k.as_dict()
            conf = native_jwk(k, st["priv"] and k.is_private)
            if st["priv"] and k.is_private and kty != "oct" and any(m not in d for m in PRIVATE_MEMBERS[kty]):
                F.append(("C11", "private-members-missing-from-jwk-view", f"{where}: {sorted(set(PRIVATE_MEMBERS[kty]) - set(d))}"))
            for m, v in conf.items():
                if d.get(m) != v:
                    F.append(("C11", "jwk-member-not-conformant", f"{where}: {m}={str(d.get(m))[:24]}... expected {v[:24]}... ({kind})"))
                    break
            allowed = set(conf) | {"kid", "use", "alg", "key_ops", "x5t"} | (set(STRAY.get(kty, [])) if st.get("stray") else set())
            if set(d) - allowed:
                F.append(("C11", "jwk-unexpected-members", f"{where}: {sorted(set(d) - allowed)}"))
        except Exception as e:  # noqa
            F.append(("C11", f"as_dict-raised:{type(e).__name__}", where))
        try:
            t = k.thumbprint()
            if t != thumb:
                F.append(("C13", "thumbprint-differs", f"{where}: {t} expected {thumb} ({kind}, origin {st['origin']})"))
            if needles and scan(t, needles):
                F.append(("C12", "thumbprint-contains-private", where))
        except Exception as e:  # noqa
            F.append(("C13", f"thumbprint-raised:{type(e).__name__}", where))

    project(key, h0, "start")
    for i, step in enumerate(case["hist"]):
        op, st, out = step["op"], step["obj"], step["out"]
        where = f"step{i + 1}:{'/'.join(str(x) for x in op)}"
        try:
            if op[0] == "transfer":
                form, pf, pw = op[1], {"true": True, "false": False, "none": None}[op[2]], ("pass word" if op[3] else None)
                try:
                    if form == "jwk":
                        art = key.as_dict(private=pf)
                    elif form == "pem":
                        art = key.as_pem(private=pf, password=pw)
                    else:
                        art = key.as_der(private=pf, password=pw)
                except Exception as e:  # noqa  (any exception is "an error"; its type is not fixed by C11/C12)
                    if out["ok"]:
                        F.append(("C11", "export-refused", f"{where}: {type(e).__name__} {e}"))
                    continue
                if not out["ok"]:
                    F.append(("C12", "private-export-of-public-key-not-an-error", where))
                    continue
                if not out["carriesPrivate"] and needles and scan(art, needles):
                    F.append(("C12", "public-export-contains-private", where))
                if form == "jwk":
                    given = json.loads(json.dumps(art))
                    key = JWKRegistry.import_key(given)
                    back = key.as_dict()
                    if back != given:
                        F.append(("C11", "jwk-import-export-differs", f"{where}: {sorted(set(back) ^ set(given))}"))
                else:
                    if pw and b"ENCRYPTED" not in art and form == "pem" and st["priv"]:
                        F.append(("C11", "password-ignored", where))
                    if pw and st["priv"]:
                        try:
                            JWKRegistry.import_key(art, kty)
                            F.append(("C11", "encrypted-export-loads-without-password", where))
                        except Exception:  # noqa
                            pass
                    key = type(key).import_key(art, None, pw) if (pw and st["priv"]) else JWKRegistry.import_key(art, kty)
            elif op[0] == "thumbprint":
                pass                       # checked by project()
            elif op[0] == "ensure_kid":
                key.ensure_kid(); key.ensure_kid()
            elif op[0] == "as_dict_public":
                # the public export, plain and with extra members asked for in the same call
                for d in (key.as_dict(private=False), key.as_dict(private=False, use="sig", purpose="published")):
                    if any(m in d for m in PRIVATE_MEMBERS[kty]) or (needles and scan(d, needles)):
                        F.append(("C12", "public-jwk-contains-private", f"{where}: {sorted(set(d) & set(PRIVATE_MEMBERS[kty]))}"))
            elif op[0] == "keyset_public":
                ks = KeySet([key])
                for d in (ks.as_dict(private=False), ks.as_dict(private=False, use="sig", purpose="published")):
                    k0 = d["keys"][0]
                    if any(m in k0 for m in PRIVATE_MEMBERS[kty]) or (needles and scan(d, needles)):
                        F.append(("C12", "public-key-set-contains-private", f"{where}: {sorted(set(k0) & set(PRIVATE_MEMBERS[kty]))}"))
                    if "kid" not in k0:
                        F.append(("C13", "key-set-member-without-kid", where))
        except Exception as e:  # noqa
            F.append(("C11", f"step-raised:{type(e).__name__}", f"{where}: {str(e)[:100]}"))
            break
        project(key, st, where)
    # interoperation of the first and the last object of the lineage
    try:
        interop(first_key, key, kty, kind, F)
    except Exception as e:  # noqa
        F.append(("C11", f"interop-raised:{type(e).__name__}", str(e)[:100]))
    return F


def interop(a, b, kty, kind, F):
    from joserfc import jws
    if kty == "oct":
        t = jws.serialize_compact({"alg": "HS256"}, b"x", a, algorithms=["HS256"])
        jws.deserialize_compact(t, b, algorithms=["HS256"])
        return
    alg = {"RSA": "RS256", "EC:P-256": "ES256", "EC0:P-256": "ES256", "EC:P-384": "ES384", "EC0:P-384": "ES384", "EC:P-521": "ES512",
           "EC0:P-521": "ES512", "EC:secp256k1": "ES256K", "EC0:secp256k1": "ES256K", "OKP:Ed25519": "EdDSA", "OKP:Ed448": "EdDSA"}.get(kind if kty != "RSA" else "RSA")
    if alg:
        for s, v in ((a, b), (b, a)):
            if s.is_private:
                t = jws.serialize_compact({"alg": alg}, b"interop", s, algorithms=[alg])
                jws.deserialize_compact(t, v, algorithms=[alg])
    if kty in ("EC",) or kind in ("OKP:X25519", "OKP:X448"):
        peer = type(a).generate_key(a.curve_name)
        for x in (a, b):
            if x.is_private:
                z1 = x.exchange_derive_key(peer)
                z2 = peer.exchange_derive_key(x)
                if z1 != z2:
                    F.append(("C11", "ecdh-secret-differs", kind))


def run_chunk(args):
    items, seed = args
    out = []
    for idx, case, kind in items:
        try:
            found = replay(case, kind, seed)
        except Exception as e:  # noqa - the real object behaved in a way the projection cannot even read: that is an observation, not a crash
            import traceback
            found = [("C11", f"object-unreadable:{type(e).__name__}", traceback.format_exc()[-300:])]
        for prop, what, detail in found:
            out.append((idx, kind, prop, what, detail))
    return out


def load_chains(ctx, thorough: bool, rnd: random.Random):
    from .common import parse_case_line
    rs = ctx.tlc_many([("Jwk", "Jwk_" + k + ("" if thorough else "_quick"), {"timeout": 900, "lazy_cases": not thorough}) for k in ("oct", "RSA", "EC", "OKP")])
    if thorough:
        ctx.tlc_many([("Jwk", "Jwk_dev_" + d, {"timeout": 600, "expect_violation": True})
                      for d in ("PublicExportLeaks", "PrivateOnPublicSilent", "KidOverwritten", "PemKeepsKid", "SetExportIgnoresFlag", "PublicKeySkipsFilter")])
    items = []
    total = 0
    for r, kty in zip(rs, ("oct", "RSA", "EC", "OKP")):
        if thorough:
            cs = list({json.dumps(c, sort_keys=True): c for c in r.cases}.values())
            total += len(cs)
            pick = rnd.sample(cs, min(len(cs), 12000 if kty != "oct" else 2000))
        else:
            # quick: a seeded sample of the exported behaviours is replayed, so only the picked lines are parsed
            lines = sorted(set(r.case_lines))
            total += len(lines)
            pick = [parse_case_line(l) for l in rnd.sample(lines, min(len(lines), 1200 if kty != "oct" else 2000))]
        if not pick or pick[0]["kty"] != kty:
            raise RuntimeError(f"chain export of {kty} is empty or mixed up")
        kinds = KINDS[kty]
        for i, c in enumerate(pick):
            items.append((len(items), c, kinds[i % len(kinds)] if kty != "RSA" else (kinds[0] if i % 10 else kinds[1 + (i // 10) % (len(kinds) - 1)])))
    return items, total


def execute(ctx, prop: str):
    thorough = ctx.tier == "thorough"
    rnd = random.Random(ctx.seed)
    items, total = load_chains(ctx, thorough, rnd)
    import multiprocessing as mp
    from .common import NCPU, _pool_init
    chunks = [(items[i::NCPU * 4], ctx.seed) for i in range(NCPU * 4)]
    with mp.get_context("fork").Pool(NCPU, initializer=_pool_init) as pool:
        res = pool.map(run_chunk, chunks, chunksize=1)
    lookup = {i: (c, k) for i, c, k in items}
    for out in res:
        for idx, kind, p, what, detail in out:
            if p != prop:
                continue
            c, _ = lookup[idx]
            ops = ";".join("/".join(str(x) for x in s["op"]) for s in c["hist"])
            ctx.violation(f"jwk:{c['kty']} {what.split(':')[0]} ops=[{ops}] start={c['hist'][0]['before']['origin']}",
                          {"case": c, "kind": kind, "what": what, "detail": detail})
    ctx.evaluations += len(items)
    ctx.traces += len(items)
    for i, c, k in items:
        ctx.nontrivial.add(json.dumps(c, sort_keys=True))
    ctx.notes.update(abstract_chains_total=total, chains_replayed=len(items))
    ctx.sample({"chain": items[3][1], "key_kind": items[3][2]})
    return items
