"""Refreshes the generated table of DESIGN.md section 14 (between the AS-BUILT markers) from evidence/*.json and seeded/*/meta.json."""
import glob
import json
import re
from pathlib import Path

V = Path(__file__).resolve().parent.parent
SPECS = {"C01": "Jws.tla, JwsInFlight.tla, JwsNoProtected.tla, JwsMemberKeys.tla", "C02": "Jwe.tla", "C03": "JwsRoundTrip.tla", "C04": "JweRoundTrip.tla, JweReuse.tla", "C05": "AlgRegistry.tla, JoseDefs.tla, TraceApi.tla",
         "C06": "KeyFit.tla (+TraceApi.tla)", "C07": "Wire.tla, WireEval.tla (+JwsRoundTrip)", "C08": "Wire.tla, WireEval.tla (+JweRoundTrip), JweReuse.tla", "C09": "Jwt.tla",
         "C10": "Claims.tla, ClaimsReuse.tla, ClaimsClasses.tla, ClaimsEval.tla", "C11": "Jwk.tla, JwkImport.tla", "C12": "Jwk.tla, JwkHeap.tla, JweReuse.tla", "C13": "Jwk.tla, Wire.tla", "C14": "KeySel.tla, KeySetHistory.tla, PickTable.tla", "C15": "HeaderCheck.tla (+TraceApi.tla)",
         "C16": "Parse.tla", "C17": "Deflate.tla, DeflateShared.tla, ZipHistory.tla", "C18": "Fresh.tla, MC_Fresh.tla, TraceFresh.tla", "C19": "Codec.tla, MC_Codec.tla, CodecEval.tla",
         "C20": "Shared.tla, SharedSet.tla, SharedSeq.tla, TraceShared.tla, PickTable.tla"}
BIND = {"C01": "B1 spec->code + scheduler", "C02": "B1", "C03": "B1", "C04": "B1", "C05": "B1 (fresh process per history) + B2 (repo test-suite traces)", "C06": "B1 + B2 (repo test-suite traces)", "C07": "B3 + interop",
        "C08": "B3 + interop", "C09": "B1", "C10": "B1 + histories + B2 (repo test-suite traces)", "C11": "B1 (chains)", "C12": "B1 (chains, heap histories, scans)", "C13": "B1 + B3", "C14": "B1", "C15": "B1 + B2 (repo test-suite traces)",
        "C16": "B1 + fuzz", "C17": "B1 + scheduler", "C18": "B2 code->spec (trace validation)", "C19": "B3", "C20": "scheduler + B2 (state traces) + B1 histories"}


def main():
    rows = ["| property | specification | binding | TLC distinct states (quick) | executions against the code (quick) | quick wall s | seeded changes caught |",
            "|---|---|---|---|---|---|---|"]
    seeds = {}
    for f in glob.glob(str(V / "seeded" / "*" / "meta.json")):
        m = json.loads(open(f).read())
        for p, res in m.get("detected_by", {}).items():
            seeds.setdefault(p, []).append(Path(f).parent.name + ("" if res else " (MISSED)"))
    for pid in sorted(SPECS):
        f = V / "evidence" / f"{pid}.json"
        if not f.exists():
            continue
        e = json.loads(f.read_text())
        c = e["coverage"]
        rows.append(f"| {pid} | {SPECS[pid]} | {BIND[pid]} | {c.get('states', 0):,} | {c.get('evaluations', 0):,} | {e['wall_s']:.0f} | {', '.join(sorted(seeds.get(pid, []))) or '-'} |")
    table = "\n".join(rows)
    d = (V / "DESIGN.md").read_text()
    d = re.sub(r"<!-- AS-BUILT-BEGIN -->.*<!-- AS-BUILT-END -->", "<!-- AS-BUILT-BEGIN -->\n" + table + "\n<!-- AS-BUILT-END -->", d, flags=re.S)
    (V / "DESIGN.md").write_text(d)
    print(table)


if __name__ == "__main__":
    main()
