"""Committed key pool (harness/keys/pool.json): RFC-conformant private JWKs made with refimpl, not with joserfc.

  oct:  sizes 1, 8, 16, 24, 32, 48, 64, 100 octets (2 each)
  RSA:  1024, 2048 (2), 3072, 4096
  EC:   P-256, P-384, P-521, secp256k1: 2 ordinary keys each + keys whose x, y or d starts with a zero octet
  OKP:  Ed25519, Ed448, X25519, X448 (2 each)
`python -m harness.keys` regenerates the pool (not needed at check time).
"""
from __future__ import annotations
import json
import os
from pathlib import Path
from functools import lru_cache

from . import refimpl as R

POOL = Path(__file__).resolve().parent / "keys" / "pool.json"


def generate() -> dict:
    from cryptography.hazmat.primitives.asymmetric import ec, rsa
    pool: dict = {}
    for n in (1, 8, 16, 24, 32, 48, 64, 100):
        pool[f"oct{n * 8}"] = [R.native_to_jwk(os.urandom(n), True) for _ in range(2)]
    for bits, cnt in ((1024, 1), (2048, 2), (3072, 1), (4096, 1)):
        pool[f"RSA{bits}"] = [R.native_to_jwk(rsa.generate_private_key(65537, bits), True) for _ in range(cnt)]
    for crv, (cls, size) in R.EC_CURVES.items():
        ks = [R.native_to_jwk(ec.generate_private_key(cls()), True) for _ in range(2)]
        pool["EC:" + crv] = ks
        lz: dict = {}
        tries = 0
        while len(lz) < 3 and tries < 200000:
            tries += 1
            j = R.native_to_jwk(ec.generate_private_key(cls()), True)
            for m in ("x", "y", "d"):
                if R.b64d(j[m])[0] == 0 and m not in lz:
                    # P-521: the top octet holds one bit, so most keys qualify; require a *short minimal form* instead
                    lz[m] = j
        pool["EC0:" + crv] = [lz[m] for m in sorted(lz)]
    for crv, cls in R.OKP_PRIV.items():
        pool["OKP:" + crv] = [R.native_to_jwk(cls.generate(), True) for _ in range(2)]
    return pool


@lru_cache(None)
def pool() -> dict:
    return json.loads(POOL.read_text())


def get(kind: str, i: int = 0) -> dict:
    ks = pool()[kind]
    return dict(ks[i % len(ks)])


JWS_KEY_KIND = {"HS256": "oct256", "HS384": "oct384", "HS512": "oct512", "RS256": "RSA2048", "RS384": "RSA2048", "RS512": "RSA2048",
                "PS256": "RSA2048", "PS384": "RSA2048", "PS512": "RSA2048", "ES256": "EC:P-256", "ES384": "EC:P-384",
                "ES512": "EC:P-521", "ES256K": "EC:secp256k1", "EdDSA": "OKP:Ed25519", "none": "oct256"}
JWE_KEY_KIND = {"RSA1_5": "RSA2048", "RSA-OAEP": "RSA2048", "RSA-OAEP-256": "RSA2048", "A128KW": "oct128", "A192KW": "oct192",
                "A256KW": "oct256", "A128GCMKW": "oct128", "A192GCMKW": "oct192", "A256GCMKW": "oct256",
                "PBES2-HS256+A128KW": "oct256", "PBES2-HS384+A192KW": "oct256", "PBES2-HS512+A256KW": "oct256",
                "ECDH-ES": "EC:P-256", "ECDH-ES+A128KW": "EC:P-256", "ECDH-ES+A192KW": "EC:P-384", "ECDH-ES+A256KW": "OKP:X25519",
                "ECDH-1PU": "EC:P-256", "ECDH-1PU+A128KW": "EC:P-256", "ECDH-1PU+A192KW": "OKP:X25519", "ECDH-1PU+A256KW": "EC:P-521"}
DIR_KEY = {"A128CBC-HS256": "oct256", "A192CBC-HS384": "oct384", "A256CBC-HS512": "oct512", "A128GCM": "oct128",
           "A192GCM": "oct192", "A256GCM": "oct256", "C20P": "oct256", "XC20P": "oct256"}


def jwe_key_kind(alg: str, enc: str) -> str:
    return DIR_KEY[enc] if alg == "dir" else JWE_KEY_KIND[alg]


if __name__ == "__main__":
    POOL.parent.mkdir(exist_ok=True)
    p = generate()
    POOL.write_text(json.dumps(p, indent=0))
    print({k: len(v) for k, v in p.items()})
