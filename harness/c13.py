"""C13 - thumbprints are the RFC 7638 value and depend only on the public key.

Spec: ThumbprintInput in spec/Wire.tla (required members, lexicographic order, no whitespace - evaluated by TLC and matched by
refimpl on every run) and the kid rules of spec/Jwk.tla (KidStable: absent => thumbprint, present => never overwritten, kid
travels with the JWK form).  Binding B1: along every replayed chain the thumbprint and kid of the real object are compared,
after each step, with the value refimpl computes from the key's *numbers*; plus representation independence on fresh keys
(private/public form, optional members, member order, PEM/DER/JWK origin, all digest choices).
"""
from __future__ import annotations
import hashlib
import json
import random

from .common import Ctx, pmap
from . import jwkchains, wirecheck, refimpl as R, keys as K


def representations(args):
    kind, n, seed = args
    from joserfc.jwk import JWKRegistry
    from cryptography.hazmat.primitives import serialization as S
    rnd = random.Random(f"{seed}-{kind}")
    bad = []
    for i in range(n):
        base = K.get(kind, i) if i < 3 else R.gen_like(K.get(kind)) if K.get(kind)["kty"] in ("EC", "OKP") else K.get(kind, i)
        want = R.thumbprint(base)
        forms = {}
        forms["jwk-private"] = dict(base)
        forms["jwk-public"] = R.public_jwk(base) if base["kty"] != "oct" else dict(base)
        items = list(base.items()); rnd.shuffle(items)
        forms["jwk-shuffled+optional"] = {**dict(items), "kid": "zzz", "use": "sig", "alg": "A", "key_ops": ["sign", "verify"] if base["kty"] != "oct" else ["sign"]}
        keys = {name: JWKRegistry.import_key(json.loads(json.dumps(j))) for name, j in forms.items()}
        if base["kty"] != "oct":
            native = R.jwk_to_native(base, True)
            for enc, nm in ((S.Encoding.PEM, "pem"), (S.Encoding.DER, "der")):
                keys[nm + "-private"] = JWKRegistry.import_key(native.private_bytes(enc, S.PrivateFormat.PKCS8, S.NoEncryption()), base["kty"])
                keys[nm + "-public"] = JWKRegistry.import_key(native.public_key().public_bytes(enc, S.PublicFormat.SubjectPublicKeyInfo), base["kty"], {"kid": "p"})
        for name, k in keys.items():
            t = k.thumbprint()
            if t != want:
                bad.append((kind, name, t, want))
            had = k.kid
            k.ensure_kid()
            if k.kid != (had if had is not None else want):
                bad.append((kind, name + ":ensure_kid", str(k.kid), str(had or want)))
            k.as_dict(); k.ensure_kid()
            if k.kid != (had if had is not None else want) or k.thumbprint() != want:
                bad.append((kind, name + ":unstable", str(k.kid), want))
        # other supported digests
        for dg in ("sha384", "sha512"):
            k = JWKRegistry.import_key(json.loads(json.dumps(base)))
            type(k).thumbprint_digest_method, old = dg, type(k).thumbprint_digest_method
            try:
                if k.thumbprint() != R.thumbprint(base, dg):
                    bad.append((kind, "digest:" + dg, k.thumbprint(), R.thumbprint(base, dg)))
                # an automatically assigned kid is that thumbprint, whichever way it gets assigned
                from joserfc.jwk import KeySet
                k.ensure_kid()
                k2 = JWKRegistry.import_key(json.loads(json.dumps(R.public_jwk(base) if base["kty"] != "oct" else base)))
                ks = KeySet([k2])
                k3 = type(k).generate_key(auto_kid=True)
                for how, key, ref in (("ensure_kid", k, base), ("KeySet", ks.keys[0], base), ("KeySet.as_dict", None, base),
                                      ("generate_key(auto_kid)", k3, k3.as_dict(private=True))):
                    kid = key.kid if key is not None else ks.as_dict(private=None if base["kty"] == "oct" else False)["keys"][0].get("kid")
                    if kid != R.thumbprint(ref, dg):
                        bad.append((kind, f"digest:{dg}:auto-kid via {how}", str(kid), R.thumbprint(ref, dg)))
            finally:
                type(k).thumbprint_digest_method = old
    return bad, n * 8


def run(ctx: Ctx) -> None:
    thorough = ctx.tier == "thorough"
    pts, _ = wirecheck.validate(ctx, 60 if thorough else 12)
    ctx.notes["wire_points_tlc_vs_refimpl"] = pts
    jwkchains.execute(ctx, "C13")
    from . import jwkheap
    jwkheap.run(ctx, "C13")
    kinds = [k for ks in jwkchains.KINDS.values() for k in ks]
    res = pmap(representations, [(k, 40 if thorough else 6, ctx.seed) for k in kinds], procs=8)
    for bad, n in res:
        ctx.evaluations += n
        for kind, name, got, want in bad[:4]:
            ctx.violation(f"thumb:{kind.split(':')[0]} {name} differs", {"kind": kind, "form": name, "got": got, "expected": want})
    for k in kinds:
        ctx.nontrivial.add("rep:" + k)
    ctx.rule = ("thumbprint and kid compared with refimpl after every step of the replayed Jwk.tla chains; per key kind several keys in 7 representations "
                "(private/public JWK, shuffled members with optional members, PEM/DER private/public), ensure_kid stability, sha384/sha512; "
                "distinct_nontrivial = distinct chains + key kinds")
    ctx.assumptions = ["RFC 7638 3.1 example key not available offline; the hash input layout is the TLC-evaluated ThumbprintInput of Wire.tla"]


def replay(ctx: Ctx, rec: dict) -> None:
    from . import c11
    c11.replay(ctx, rec)
