"""Replay of JwsInFlight.tla behaviours (several parsed compact JWS objects in flight) on the split API
jws.extract_compact / jws.validate_compact.  Used by C01 (a forged token never validates, the payload handed out is the one
the signature covers) and C07 (a reference-signed token validates whatever else was parsed meanwhile)."""
from __future__ import annotations
import json

from .common import Ctx, MachineryError
from . import joseops as J
from . import refimpl as R
from . import keys as K

ALGS = [("HS256", "oct256"), ("ES256", "EC:P-256"), ("EdDSA", "OKP:Ed25519"), ("RS256", "RSA2048"), ("HS384", "oct384"), ("PS384", "RSA2048"), ("ES384", "EC:P-384"),
        ("ES512", "EC:P-521"), ("ES256K", "EC:secp256k1"), ("EdDSA", "OKP:Ed448"), ("HS512", "oct512"), ("RS512", "RSA2048"), ("PS256", "RSA2048"), ("PS512", "RSA2048"), ("RS384", "RSA2048")]
P = {"honest1": b"payload one \x00\xff", "honest2": b"the second payload", "forged": b"the second payload", "alien": b"payload three"}


def tokens(alg, kind):
    k1, k2 = K.get(kind, 0), K.get(kind, 1)
    t1 = R.jws_compact(R.jdump({"alg": alg}), P["honest1"], alg, k1)
    t2 = R.jws_compact(json.dumps({"alg": alg, "cty": "x"}, separators=(", ", ": ")).encode(), P["honest2"], alg, k1)
    h1, _, s1 = t1.split(".")
    forged = h1 + "." + t2.split(".")[1] + "." + s1
    alien = R.jws_compact(R.jdump({"alg": alg}), P["alien"], alg, k2)
    return {"honest1": t1, "honest2": t2, "forged": forged, "alien": alien}, J.jkey(J.pub(k1))


def replay_case(case, alg, kind):
    from joserfc import jws
    toks, key = tokens(alg, kind)
    objs, out = {}, []
    for i, (what, x) in enumerate(case["hist"]):
        kindx = case["tok"][x]
        if what == "parse":
            objs[x] = jws.extract_compact(toks[kindx].encode())
            continue
        try:
            ok = bool(jws.validate_compact(objs[x], key, algorithms=[alg]))
        except Exception as e:  # noqa
            ok = False
            if type(e).__name__ not in ("BadSignatureError",):
                out.append(("C01", f"validate raised {type(e).__name__}", i))
        want = kindx in ("honest1", "honest2")
        if ok and not want:
            out.append(("C01", f"a {kindx} token validated", i))
        elif want and not ok:
            out.append(("C07", f"a reference-signed token ({kindx}) was rejected", i))
        if ok and objs[x].payload != P[kindx]:
            out.append(("C01", "validated object carries another token's payload", i))
    return out


def run(ctx: Ctx, prop: str) -> int:
    r = ctx.tlc("JwsInFlight", timeout=300)
    ctx.sensitivity("JwsInFlight", "JwsInFlight_dev_SegmentsShared")
    cases = list({json.dumps(c, sort_keys=True): c for c in r.cases}.values())
    if len(cases) < 50:
        raise MachineryError(f"JwsInFlight export too small: {len(cases)}")
    n = 0
    for alg, kind in ALGS:
        for c in cases:
            n += 1
            ctx.nontrivial.add("inflight:" + alg + json.dumps(c, sort_keys=True))
            for p, what, i in replay_case(c, alg, kind):
                if p != prop:
                    continue
                h = " ".join(f"{w}({x}:{c['tok'][x]})" for w, x in c["hist"])
                ctx.violation(f"inflight:{what} [{alg}] history=[{h}]", {"case": c, "alg": alg, "kind": kind, "step": i, "inflight": True})
    ctx.notes["inflight_histories"] = {"model_histories": len(cases), "replays": n}
    return n


def noprot_case(c, alg, kind):
    """JwsNoProtected.tla: a JSON token signed with its whole header unprotected, to which a "protected" member is added"""
    from joserfc import jws, rfc7797
    jwk = K.get(kind, 0)
    payload = b"payload-without_protected"
    unprot = {"alg": alg, "cty": "unprotected only"}
    body = R.b64e(payload)
    sig = R.jws_sign(alg, jwk, b"." + body)
    member = {"header": unprot, "signature": R.b64e(sig).decode()}
    seg = {"absent": None, "e30": "e30", "IHt9": "IHt9", "obj_cty": R.b64e(b'{"cty":"x"}').decode()}[c["protected"]]
    if seg is not None:
        member["protected"] = seg
    tok = {"payload": body.decode(), **member} if c["ser"] == "flattened" else {"payload": body.decode(), "signatures": [member]}
    mod = jws if c["entry"] == "jws" else rfc7797
    try:
        got = mod.deserialize_json(tok, J.jkey(J.pub(jwk)), algorithms=[alg]).payload
        return "ok" if got == payload else "ok-other-payload"
    except Exception as e:  # noqa
        return "reject:" + type(e).__name__


def run_noprot(ctx: Ctx) -> int:
    r = ctx.tlc("JwsNoProtected", timeout=300)
    ctx.sensitivity("JwsNoProtected", "JwsNoProtected_dev_EmptyProtectedTakenAsAbsent")
    cases = list({json.dumps(c, sort_keys=True): c for c in r.cases}.values())
    if len(cases) < 8:
        raise MachineryError("JwsNoProtected export too small")
    n = 0
    for alg, kind in ALGS:
        for c in cases:
            n += 1
            o = noprot_case(c["c"], alg, kind)
            ctx.nontrivial.add("noprot:" + alg + json.dumps(c["c"], sort_keys=True))
            if o.split(":")[0] != c["verdict"]:
                if c["verdict"] == "ok":
                    ctx.note_drift({"noprot": c["c"], "alg": alg, "observed": o})
                else:
                    ctx.violation(f"noprot:{c['c']['entry']}.{c['c']['ser']} protected={c['c']['protected']} added to a token signed without protected header -> accepted [{alg}]",
                                  {"noprot_case": c["c"], "alg": alg, "kind": kind, "observed": o, "inflight": True})
    return n


def replay(ctx: Ctx, rec: dict) -> None:
    if "noprot_case" in rec:
        o = noprot_case(rec["noprot_case"], rec["alg"], rec["kind"])
        print(rec["noprot_case"], "->", o)
        if o.startswith("ok"):
            ctx.violation(rec["signature"], {"now": o})
        return
    out = replay_case(rec["case"], rec["alg"], rec["kind"])
    print(json.dumps(rec["case"]), "->", out)
    if any(p == ctx.prop for p, *_ in out):
        ctx.violation(rec["signature"], {"now": out})
