"""C18 - every encryption and key generation draws fresh randomness of the right size.

Spec: spec/Fresh.tla (Draw(kind, v, ctx) enabled only for a value never drawn before and of the size the algorithm needs;
AND/OR bit accumulators), exhaustive small instance MC_Fresh, and the trace specification spec/TraceFresh.tla.
Binding B2 (code -> spec): drivers perform histories of N encryptions per configuration with the same key and equal header
values in fresh header objects - in one process and spread over several fresh processes - and N key generations per key
type; the random values are *observed from the outputs* (IV segment; CEK recovered by unwrapping with the recipient key in
refimpl; epk, GCM-KW iv, p2s/p2c from the headers; generated key material), written as NDJSON-like traces and validated by
TLC against TraceFresh: every recorded draw must be an enabled Draw step.  A rejected event is reported with its clause.
"""
from __future__ import annotations
import json
import random

from .common import Ctx, MachineryError, FreshPool
from . import joseops as J
from . import refimpl as R
from . import keys as K

ALL_ALGS = R.JWE_ALGS + R.JWE_1PU


def configs(thorough: bool, seed: int):
    out = []
    i = 0
    for a in ALL_ALGS:
        encs = list(R.ENC)
        for e in (encs if thorough else [encs[(i + seed) % 8], encs[(i + seed + 3) % 8]]):
            if a.startswith("ECDH-1PU+") and "CBC" not in e:
                continue
            for ser in (("compact", "flattened", "general") if thorough else (("compact", "general")[i % 2],)):
                out.append((a, e, ser)); i += 1
    return out


def history(args):
    """N encryptions of one configuration in this (fresh) process -> list of events"""
    (alg, enc, ser), n, part = args
    from joserfc import jwe
    J.register_drafts({"1pu", "chacha"})
    kind = K.jwe_key_kind(alg, enc)
    if alg.startswith("ECDH"):
        kind = ["EC:P-256", "EC:P-384", "EC:P-521", "EC:secp256k1", "OKP:X25519", "OKP:X448"][hash((alg, enc)) % 6]
    if alg.startswith("PBES2"):
        # the PBES2 "key" is a password of any length: a one-octet PIN, 8 octets, a longer passphrase
        kind = ["oct8", "oct64", kind, "oct800"][part % 4]
    rj = K.get(kind, 0)
    sj = K.get(kind, 1) if alg.startswith("ECDH-1PU") else None
    key = J.jkey(J.pub(rj))
    skey = J.jkey(sj) if sj else None
    reg = jwe.JWERegistry(algorithms=[alg, enc])
    ev = []
    for _ in range(n):
        hdr = {"alg": alg, "enc": enc}                    # a fresh header object with equal values on every call
        kw = {"sender_key": skey} if skey else {}
        if ser == "compact":
            tok = jwe.encrypt_compact(hdr, b"same plaintext", key, registry=reg, **kw)
            segs = tok.split(".")
            prot = json.loads(R.b64d(segs[0])); h = prot
            iv = R.b64d(segs[2]); ek = R.b64d(segs[1]); tag = R.b64d(segs[4])
        else:
            cls = jwe.FlattenedJSONEncryption if ser == "flattened" else jwe.GeneralJSONEncryption
            obj = cls(hdr, b"same plaintext")
            obj.add_recipient(None, key)
            two = ser == "general" and alg.startswith("ECDH") and "+" in alg       # a second key-agreement recipient on the same curve
            if two:
                obj.add_recipient(None, key)
            tok = jwe.encrypt_json(obj, None, registry=reg, **kw)
            prot = json.loads(R.b64d(tok["protected"]))
            r0 = tok["recipients"][0] if "recipients" in tok else tok
            h = {**prot, **(r0.get("header") or {})}
            iv = R.b64d(tok["iv"]); ek = R.b64d(r0.get("encrypted_key", "")); tag = R.b64d(tok["tag"])
            if two:     # every key agreement of the message draws its own ephemeral key
                e2 = (tok["recipients"][1].get("header") or {}).get("epk")
                if e2:
                    ev.append({"enc": enc, "crv": e2["crv"], "len": 0, "rcrv": rj["crv"], "p2c": 0, "kind": "epk", "v": list(R.b64d(e2["x"]))})
        base = {"enc": enc, "crv": "", "len": 0, "rcrv": "", "p2c": 0}
        ev.append({**base, "kind": "iv", "v": list(iv)})
        if alg != "dir":
            cek = R.unwrap_for_recipient(alg, enc, h, rj, ek, J.pub(sj) if sj else None, tag)
            if alg not in ("ECDH-ES", "ECDH-1PU"):
                ev.append({**base, "kind": "cek", "v": list(cek)})       # direct agreement derives, does not draw, the CEK
        if "epk" in h:
            e = h["epk"]
            ev.append({**base, "kind": "epk", "v": list(R.b64d(e["x"])), "crv": e["crv"], "rcrv": rj["crv"]})
        if alg.endswith("GCMKW"):
            ev.append({**base, "kind": "gcmkw_iv", "v": list(R.b64d(h["iv"]))})
        if alg.startswith("PBES2"):
            ev.append({**base, "kind": "p2s", "v": list(R.b64d(h["p2s"])), "p2c": h["p2c"]})
    return ev


def history_reencrypt(args):
    """a JSON-serialized JWE is decrypted and the returned object is encrypted again, n times over (a re-encrypting proxy):
    every re-encryption must draw its own IV / CEK / epk / key-wrap IV.  (A p2s carried by the decrypted header is a value
    the caller supplies, so it is not an event here.)"""
    (alg, enc, ser), n = args
    from joserfc import jwe
    J.register_drafts({"1pu", "chacha"})
    kind = K.jwe_key_kind(alg, enc)
    rj = K.get(kind, 0)
    pub, priv = J.jkey(J.pub(rj)), J.jkey(rj)
    reg = jwe.JWERegistry(algorithms=[alg, enc])
    cls = jwe.FlattenedJSONEncryption if ser == "flattened" else jwe.GeneralJSONEncryption
    obj = cls({"alg": alg, "enc": enc, **({"p2c": 8} if alg.startswith("PBES2") else {})}, b"same plaintext")
    obj.add_recipient(None, pub)
    tok = jwe.encrypt_json(obj, None, registry=reg)
    ev = []
    base = {"enc": enc, "crv": "", "len": 0, "rcrv": "", "p2c": 0}
    for i in range(n + 1):
        prot = json.loads(R.b64d(tok["protected"]))
        r0 = tok["recipients"][0] if "recipients" in tok else tok
        h = {**prot, **(r0.get("header") or {})}
        ev.append({**base, "kind": "iv", "v": list(R.b64d(tok["iv"]))})
        if alg not in ("dir", "ECDH-ES"):
            cek = R.unwrap_for_recipient(alg, enc, h, rj, R.b64d(r0.get("encrypted_key", "")), None, R.b64d(tok["tag"]))
            ev.append({**base, "kind": "cek", "v": list(cek)})
        if "epk" in h:
            ev.append({**base, "kind": "epk", "v": list(R.b64d(h["epk"]["x"])), "crv": h["epk"]["crv"], "rcrv": rj["crv"]})
        if alg.endswith("GCMKW"):
            ev.append({**base, "kind": "gcmkw_iv", "v": list(R.b64d(h["iv"]))})
        if i < n:
            o = jwe.decrypt_json(tok, priv, registry=reg)
            o.plaintext = b"same plaintext"                   # (the proxy may edit the content; here it stays equal)
            tok = jwe.encrypt_json(o, pub, registry=reg)
    return ev


def history_forked(args):
    """the process encrypts first and is then forked: the children (pre-fork server workers) must not repeat each other"""
    import os, pickle
    (alg, enc, ser), n, kids = args
    ev = history(((alg, enc, ser), 2, 0))
    pipes = []
    for k in range(kids):
        r, w = os.pipe()
        pid = os.fork()
        if pid == 0:
            try:
                os.close(r)
                try:
                    out = history(((alg, enc, ser), n, k))
                except BaseException as e:  # noqa
                    out = [{"error": repr(e)}]
                with os.fdopen(w, "wb") as f:
                    pickle.dump(out, f)
            finally:
                os._exit(0)
        os.close(w)
        pipes.append((pid, r))
    for pid, r in pipes:
        with os.fdopen(r, "rb") as f:
            data = f.read()
        os.waitpid(pid, 0)
        ev += pickle.loads(data) if data else [{"error": "child died"}]
    return ev


def genkeys(args):
    spec, n, part = args
    from joserfc.jwk import JWKRegistry
    kty, arg = spec
    ev = []
    for _ in range(n):
        k = JWKRegistry.generate_key(kty, arg)
        d = k.as_dict(private=True)
        if kty == "oct":
            v = R.b64d(d["k"]); want = arg // 8
        elif kty == "RSA":
            v = R.b64d(d["n"]); want = arg // 8
            if k.raw_value.key_size != arg: want = -1
        elif kty == "EC":
            v = R.b64d(d["d"]); want = R.EC_CURVES[arg][1]
            if d["crv"] != arg: want = -1
        else:
            v = R.b64d(d["d"]); want = R.OKP_LEN[arg]
            if d["crv"] != arg: want = -1
        ev.append({"kind": "genkey", "v": list(v), "enc": "A128GCM", "crv": "", "len": want, "rcrv": "", "p2c": 0})
    return ev


def validate_batch(ctx: Ctx, traces: list, name: str):
    f = ctx.scratch / f"trace_{name}.json"
    f.write_text(json.dumps(traces))
    r = ctx.tlc("TraceFresh", workers=1, env={"TRACE_FILE": str(f)}, timeout=3600, heap="12g")
    if not r.cases:
        raise MachineryError("TraceFresh produced no report")
    rep = r.cases[-1]
    nev = sum(len(t["events"]) for t in traces)
    if r.distinct < nev:
        raise MachineryError(f"TraceFresh consumed only {r.distinct} states for {nev} events")
    return rep["rejected"]


def binding_demo(ctx: Ctx, trace: dict) -> None:
    """corrupt one recorded field / duplicate one event: the trace must be rejected (shows the spec is bound to the trace)"""
    import copy
    t1 = copy.deepcopy(trace); t1["name"] = "demo-duplicate"; t1["events"].append(copy.deepcopy(t1["events"][0]))
    t2 = copy.deepcopy(trace); t2["name"] = "demo-short"; t2["events"][0]["v"] = t2["events"][0]["v"][:-1]
    rej = validate_batch(ctx, [t1, t2], "demo")
    got = {(r["trace"], r["clause"]) for r in rej}
    if ("demo-duplicate", "repeated value") not in got or ("demo-short", "wrong size") not in got:
        raise MachineryError(f"binding demonstration failed: corrupted traces were not rejected as expected: {rej}")
    ctx.notes["binding_demo"] = "duplicated event and shortened value rejected at the expected positions"


def run(ctx: Ctx) -> None:
    thorough = ctx.tier == "thorough"
    ctx.tlc("MC_Fresh", timeout=300)
    n = 1000 if thorough else 200
    procs = 4                                 # each history is spread over 4 fresh processes
    cfgs = configs(thorough, ctx.seed)
    gens = [("oct", 128), ("oct", 256), ("oct", 512), ("RSA", 1024), ("EC", "P-256"), ("EC", "P-384"), ("EC", "P-521"), ("EC", "secp256k1"),
            ("OKP", "Ed25519"), ("OKP", "Ed448"), ("OKP", "X25519"), ("OKP", "X448")]
    with FreshPool() as pool:
        tasks = [(c, n // procs, p) for c in cfgs for p in range(procs)]
        res = pool.map(history, tasks, chunksize=1)
        gtasks = [(g, (40 if g[0] == "RSA" else n) // procs, p) for g in gens for p in range(procs)]
        gres = pool.map(genkeys, gtasks, chunksize=1)
        fcfgs = [c for i, c in enumerate(cfgs) if thorough or i % 3 == 0]
        fres = pool.map(history_forked, [(c, 24, 4) for c in fcfgs], chunksize=1)
        rcfgs = [c for c in cfgs if c[2] != "compact" and "1PU" not in c[0]]
        rres = pool.map(history_reencrypt, [(c, 100 if thorough else 24) for c in rcfgs], chunksize=1)
    traces = []
    for i, c in enumerate(cfgs):
        ev = [e for p in range(procs) for e in res[i * procs + p]]
        kinds = {e["kind"] for e in ev}
        traces.append({"name": "/".join(c), "uniform": sorted(kinds & {"iv", "cek", "gcmkw_iv", "p2s"}), "events": ev})
    for c, ev in zip(fcfgs, fres):
        if any("error" in e for e in ev):
            raise MachineryError(f"forked history failed: {[e for e in ev if 'error' in e][:1]}")
        kinds = {e["kind"] for e in ev}
        traces.append({"name": "/".join(c) + " (encrypt, then fork 4 workers)", "uniform": sorted(kinds & {"iv", "cek", "gcmkw_iv", "p2s"}), "events": ev})
    for c, ev in zip(rcfgs, rres):
        kinds = {e["kind"] for e in ev}
        traces.append({"name": "/".join(c) + " (decrypt_json, then encrypt_json of the returned object, repeatedly)",
                       "uniform": sorted(kinds & {"iv", "cek", "gcmkw_iv"}) if len(ev) >= 64 * len(kinds) else [], "events": ev})
    for i, g in enumerate(gens):
        ev = [e for p in range(procs) for e in gres[i * procs + p]]
        traces.append({"name": f"generate {g[0]} {g[1]}", "uniform": ["genkey"] if g[0] == "oct" else [], "events": ev})
    total_events = sum(len(t["events"]) for t in traces)
    # TLC validates the traces in batches (sets of drawn values live in the state: keep batches moderate)
    rejected = []
    B = 12
    jobs = [traces[i:i + B] for i in range(0, len(traces), B)]
    from concurrent.futures import ThreadPoolExecutor
    with ThreadPoolExecutor(6) as ex:
        for rej in ex.map(lambda jb: validate_batch(ctx, jb[1], f"b{jb[0]}"), list(enumerate(jobs))):
            rejected += rej
    binding_demo(ctx, traces[0])
    for r in rejected:
        ctx.violation(f"fresh:{r['kind']} {r['clause']} [{r['trace']}]", {"rejected_event": r})
    ctx.traces = len(traces)
    ctx.evaluations = total_events
    for t in traces:
        ctx.nontrivial.add(t["name"])
    ctx.exhaustive = False
    ctx.notes.update(histories=len(traces), events=total_events, encryptions_per_history=n, fresh_processes_per_history=procs)
    ctx.rule = ("one trace per (alg, enc, serialization) configuration: N encryptions with the same key and equal header values in fresh header objects, spread "
                "over 4 fresh processes, plus N key generations per key type; every IV, CEK (recovered independently), epk, GCM-KW iv and PBES2 salt is an event; "
                "TLC validates each trace step by step against Fresh.tla (distinctness, exact sizes, epk curve, default p2c, no constant bit after >=64 draws); "
                "distinct_nontrivial = distinct configurations")
    ctx.sample({"trace": traces[0]["name"], "first_events": traces[0]["events"][:2]})
    ctx.assumptions = ["unpredictability is not decided: a non-cryptographic but non-repeating generator passes",
                       "false-alarm probability of the bit test below 2^-55 per kind and history"]


def replay(ctx: Ctx, rec: dict) -> None:
    print(json.dumps(rec, indent=1)[:1500])
    print("re-run ./check C18: traces are recorded afresh from the library on every run")
