"""C11 - JWK import/export round-trips key material across JWK, PEM and DER.

Spec: spec/Jwk.tla (lineages of export/import steps; NoPrivateGain, PrivateKept, ...) and spec/JwkImport.tla (table of
malformed JWKs that must be refused), over the member tables of spec/JoseDefs.tla.  Binding B1: TLC's chains are replayed
on pool keys (incl. EC keys whose x, y or d starts with a zero octet) and freshly generated keys; after every step the
real object is projected back (private flag, public/private numbers, kid) and its JWK view is compared with the
RFC-conformant encoding computed by refimpl (whose layouts are validated against Wire.tla); first and last object of a
lineage must interoperate (sign/verify both ways, equal ECDH secrets).  Every case of the malformed-JWK table is imported.
"""
from __future__ import annotations
import json
import random

from .common import Ctx, MachineryError, pmap
from . import jwkchains, refimpl as R, keys as K, joseops as J


KINDS = {"oct": ["oct256"], "RSA": ["RSA2048"], "EC": ["EC:" + c for c in R.EC_CURVES], "OKP": ["OKP:" + c for c in R.OKP_LEN]}
EC_P = {"P-256": 2 ** 256 - 2 ** 224 + 2 ** 192 + 2 ** 96 - 1, "P-384": 2 ** 384 - 2 ** 128 - 2 ** 96 + 2 ** 32 - 1, "P-521": 2 ** 521 - 1,
        "secp256k1": 2 ** 256 - 2 ** 32 - 977}


def mutate_jwk(case, rnd, kind=None):
    kty, m, mut = case["kty"], case["member"], case["mutation"]
    kind = kind or KINDS[kty][0]
    j = K.get(kind)
    other = K.get(kind, 1)
    if not case["private"]:
        j = R.public_jwk(j)
    j.update({"use": "sig", "key_ops": ["sign", "verify"] if case["private"] else ["verify"], "alg": "X", "kid": "k", "x5c": ["QUJD"], "x5u": "https://e.example/c"})
    if m not in j and mut not in ("delete",):
        return None
    if mut == "delete": j.pop(m, None)
    elif mut == "int": j[m] = 7
    elif mut == "null": j[m] = None
    elif mut == "list": j[m] = ["sign"] if m == "key_ops" else [j[m]] if m != "x5c" else [1]
    elif mut == "obj": j[m] = {"a": 1}
    elif mut == "bool": j[m] = True
    elif mut == "bad_b64": j[m] = "!!not*base64!!" if m != "x5u" else "ftp://x"
    elif mut == "empty": j[m] = "" if not isinstance(j[m], list) else []
    elif mut == "flip":
        if not isinstance(j[m], str): return None
        raw = bytearray(R.b64d(j[m])) if m not in ("crv", "use", "alg", "kid", "x5u") else None
        if raw is None: j[m] = j[m] + "x"
        else:
            raw[len(raw) // 2] ^= 0x40; j[m] = R.b64e(bytes(raw)).decode()
    elif mut == "contradict":
        if m == "use": j["use"] = "enc"; j["key_ops"] = ["sign"]
        elif m == "key_ops": j["use"] = "sig"; j["key_ops"] = ["encrypt"]
        else: return None
    elif mut == "other_key":
        if m not in other or other[m] == j[m] or m == "crv": return None
        j[m] = other[m]
        if kty == "EC" and m in ("x", "y"):
            j["x"], j["y"] = other["x"], other["y"]          # a point of the curve, only not this key's
    elif mut == "negate":
        if not (kty == "EC" and m == "y"): return None
        size = R.EC_CURVES[j["crv"]][1]
        j["y"] = R.b64e((EC_P[j["crv"]] - int.from_bytes(R.b64d(j["y"]), "big")).to_bytes(size, "big")).decode()
    elif mut in ("drop_primes", "drop_with_pair", "only_this_left"):
        crt = ("p", "q", "dp", "dq", "qi")
        if kty != "RSA" or not case["private"] or m not in crt: return None
        if mut == "drop_primes":
            if m in ("p", "q"): return None           # (seen from a member that stays)
            gone = ("p", "q")
        elif mut == "drop_with_pair":
            gone = {"p": ("p", "dp"), "q": ("q", "dq"), "dp": ("dp", "p"), "dq": ("dq", "q"), "qi": ("qi", "p")}[m]
        else:
            gone = tuple(x for x in crt if x != m)
        for g in gone: j.pop(g, None)
    elif mut == "unknown_value":
        if m == "use": j["use"] = "both"
        elif m == "key_ops": j["key_ops"] = ["sign", "explode"]
        elif m == "crv": j["crv"] = "P-999"
        else: return None
    return j


def import_case(case):
    from joserfc.jwk import JWKRegistry
    rnd = random.Random(json.dumps(case, sort_keys=True))
    outs = []
    PARAM_MEMBERS = ("use", "key_ops", "alg", "kid", "x5c", "x5u")
    for kind, alone, via_params in [(k, a, v) for k in KINDS[case["kty"]] for a in ((False, True) if case["member"] in ("use", "key_ops") else (False,))
                                    for v in ((False, True) if case["member"] in PARAM_MEMBERS and case["mutation"] != "delete" else (False,))]:
        j = mutate_jwk(case, rnd, kind)          # every curve of the type
        if j is None:
            continue
        if alone:                                # use / key_ops judged on their own, without the member they are cross-checked against
            j.pop("key_ops" if case["member"] == "use" else "use", None)
            if case["mutation"] == "contradict":
                continue
        try:
            jj = json.loads(json.dumps(j))
            if via_params:
                # the same JWK with the member under test handed over through the `parameters` argument instead
                if case["member"] not in jj:
                    continue
                k = JWKRegistry.import_key(jj, parameters={case["member"]: jj.pop(case["member"])})
            else:
                k = JWKRegistry.import_key(jj)
            k.as_dict()
            outs.append("accept:" + kind + (" (member given through parameters=)" if via_params else ""))
        except ValueError:
            outs.append("refuse")
        except BaseException as e:  # noqa
            if isinstance(e, (KeyboardInterrupt, SystemExit)): raise
            from joserfc.errors import JoseError
            outs.append("refuse" if isinstance(e, JoseError) else "refuse:" + type(e).__name__)
    if not outs:
        return case, "skip"
    acc = [o for o in outs if o.startswith("accept")]
    return case, (acc[0] if acc else outs[0])


def fresh_keys(args):
    crv, n = args
    from joserfc.jwk import ECKey, JWKRegistry
    bad = []
    short = 0
    size = R.EC_CURVES[crv][1]
    for i in range(n):
        k = ECKey.generate_key(crv)
        d = k.as_dict(private=True)
        conf = R.native_to_jwk(k.private_key, True)
        if any(R.b64d(conf[m])[0] == 0 for m in ("x", "y", "d")):
            short += 1
        for m in ("x", "y", "d"):
            if d[m] != conf[m]:
                bad.append((crv, m, d[m][:20])); break
        else:
            try:
                R.jwk_to_native(k.as_dict(private=False), False)          # an independent implementation reconstructs the key
                k2 = JWKRegistry.import_key(conf)
                if R.native_to_jwk(k2.private_key, True) != conf:
                    bad.append((crv, "reimport", ""))
            except Exception as e:  # noqa
                bad.append((crv, "independent-import", str(e)[:60]))
    return crv, n, short, bad


def run(ctx: Ctx) -> None:
    thorough = ctx.tier == "thorough"
    jwkchains.execute(ctx, "C11")
    from . import jwkheap
    jwkheap.run(ctx, "C11")
    r = ctx.tlc("JwkImport", timeout=300)
    cases = list({json.dumps(c, sort_keys=True): c for c in r.cases}.values())
    if len(cases) < 700:
        raise MachineryError("JwkImport export too small")
    res = pmap(import_case, cases, chunksize=50)
    nref = 0
    for case, o in res:
        if o == "skip":
            continue
        ctx.evaluations += 1
        ctx.nontrivial.add("imp:" + json.dumps(case, sort_keys=True))
        v = case["verdict"]
        if o.startswith("refuse"):
            nref += 1
        if v == "refuse" and o.startswith("accept"):
            ctx.violation(f"jwk-import:{case['kty']} {'private' if case['private'] else 'public'} {case['member']}:{case['mutation']} accepted",
                          {"case": case, "observed": o})
        elif v == "accept" and not o.startswith("accept"):
            ctx.note_drift({"case": case, "observed": o})
    if nref < 200:
        raise MachineryError("vacuous malformed-JWK run")
    fres = pmap(fresh_keys, [(c, 5000 if thorough else 250) for c in R.EC_CURVES], procs=4)
    shorts = {}
    for crv, n, short, bad in fres:
        ctx.evaluations += n
        shorts[crv] = short
        for b in bad[:3]:
            ctx.violation(f"jwk:fresh EC {crv} member {b[1]} not conformant", {"curve": crv, "detail": list(b)})
    ctx.notes["fresh_ec_keys_with_a_leading_zero_coordinate"] = shorts
    ctx.exhaustive = False
    ctx.rule = ("seeded sample of Jwk.tla chains (3 operations: export/import in JWK/PEM/DER with private=True/False/None and passwords, thumbprint, ensure_kid, "
                "public exports) per key type on pool keys incl. leading-zero EC keys and generated keys; the full JwkImport.tla table of malformed JWKs; "
                "hundreds (thorough: thousands) of fresh EC keys per curve; distinct_nontrivial = distinct chains + import cases")
    ctx.assumptions = ["RSA 4096 generation avoided (pool keys)", "the RFC 7638 section 3.1 vector is not available offline; thumbprints are computed by refimpl "
                       "whose input layout is validated against Wire.tla"]


def replay(ctx: Ctx, rec: dict) -> None:
    from .common import _pool_init
    _pool_init()
    if rec.get("heap"):
        from . import jwkheap
        return jwkheap.replay(ctx, rec)
    if "case" in rec and "hist" in rec["case"]:
        f = jwkchains.replay(rec["case"], rec["kind"], rec.get("seed", 0))
        print(json.dumps(rec["case"])[:600], "\nobserved now:", f)
        if any(p == ctx.prop for p, *_ in f):
            ctx.violation(rec["signature"], {"detail": f})
    elif "case" in rec:
        print(import_case(rec["case"]))
