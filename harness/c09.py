"""C09 - JWT encode/decode is faithful and yields only JSON-object claims.

Spec: spec/Jwt.tla (Encode -> wire -> Decode; typ default, caller's header untouched, integrity check before payload
inspection, object payload => claims, every other payload => invalid-payload).  TLC checks six invariants over all scenarios
(transport x typ x key argument x payload class x tampered x made by the library / forged) and refutes five deviations.
Binding B1: each scenario is executed over several JWS and JWE algorithms; object payloads are generated claim sets
(unicode, nesting, integer/float ranges, datetimes), every other payload is signed/encrypted by refimpl.
"""
from __future__ import annotations
import calendar
import datetime as dt
import json
import random

from .common import Ctx, MachineryError, scribble
from . import joseops as J
from . import refimpl as R
from . import keys as K

JWS = [("HS256", "oct256"), ("RS256", "RSA2048"), ("ES256", "EC:P-256"), ("EdDSA", "OKP:Ed25519"), ("PS384", "RSA2048"), ("ES512", "EC:P-521")]
JWE = [("A128KW", "A128GCM"), ("dir", "A128CBC-HS256"), ("ECDH-ES+A128KW", "A256GCM"), ("RSA-OAEP", "A192CBC-HS384"), ("A256GCMKW", "A256CBC-HS512")]


def gen_value(rnd: random.Random, depth: int):
    k = rnd.randrange(10 if depth < 3 else 7)
    if k == 0: return rnd.choice([0, 1, -1, 2 ** 31 - 1, 2 ** 31, 2 ** 53 + 1, 2 ** 64, -2 ** 63, 10 ** 30])
    if k == 1: return "".join(rnd.choice("abcXYZ 019_-./\"\\\n\t") for _ in range(rnd.randrange(12)))
    if k == 2: return "".join(rnd.choice("éßñ中文字кир\U0001f600–\u0000\u007f퟿") for _ in range(rnd.randrange(1, 8)))
    if k == 3: return rnd.choice([True, False, None])
    if k == 4: return rnd.choice([0.5, -2.25, 1e100, 1.0, 3.141592653589793, 1e-7, 1.7976931348623157e308, 5e-324])
    if k == 5: return ""
    if k == 6: return rnd.randrange(-10 ** 6, 10 ** 6)
    if k == 7: return [gen_value(rnd, depth + 1) for _ in range(rnd.randrange(4))]
    return {rnd.choice(["a", "b", "ключ", "k e y", ""]) + str(rnd.randrange(5)): gen_value(rnd, depth + 1) for _ in range(rnd.randrange(4))}


def gen_claims(rnd: random.Random):
    """-> (claims as given to encode, claims expected back as JSON)"""
    c = {"iss": "https://issuer.example/é", "sub": gen_value(rnd, 3)}
    for _ in range(rnd.randrange(5)):
        c[rnd.choice(["aud", "jti", "x", "данные", "n", "list", "obj"]) + str(rnd.randrange(3))] = gen_value(rnd, 0)
    exp = dict(c)
    for name in ("exp", "nbf", "iat"):
        r = rnd.random()
        if r < .25:
            v = rnd.randrange(1, 2 ** 33); c[name] = v; exp[name] = v
        elif r < .35:
            v = rnd.randrange(1, 2 ** 31) + 0.5; c[name] = v; exp[name] = v
        elif r < .6:
            tz = dt.timezone(dt.timedelta(minutes=rnd.choice([0, 60, -300, 330, 765])))
            d = dt.datetime(rnd.randrange(1971, 2100), rnd.randrange(1, 13), rnd.randrange(1, 28), rnd.randrange(24), rnd.randrange(60), rnd.randrange(60), tzinfo=tz)
            c[name] = d; exp[name] = calendar.timegm(d.utctimetuple())
            assert exp[name] == int(d.timestamp())
        elif r < .7:
            d = dt.datetime(rnd.randrange(1971, 2100), rnd.randrange(1, 13), rnd.randrange(1, 28), rnd.randrange(24), rnd.randrange(60), rnd.randrange(60))
            c[name] = d; exp[name] = ("naive", calendar.timegm(d.timetuple()), int(d.timestamp()))
    return c, exp


PAYLOADS = {
    "empty_object": [b"{}", b" { } "],
    "array": [b"[1,2]", b"[]", b'[{"a":1}]'],
    "string": [b'"str"', b'""'],
    "number": [b"1", b"1.5", b"-0", b"1e3"],
    "true": [b"true"], "false": [b"false"], "null": [b"null"],
    "notjson": [b"not json{", b"{'a':1}", b'{"a":1}trailing', b'{"a":', b"\x00"],
    "empty": [b""],
    "notutf8": [b"\xff\xfe{}", b'{"a":"\xff"}'],
}


def equal_claims(got, exp) -> bool:
    if not isinstance(got, dict) or set(got) != set(exp):
        return False
    for k, v in exp.items():
        if isinstance(v, tuple) and v and v[0] == "naive":
            if got[k] not in v[1:]:
                return False
        elif json.dumps(got[k], sort_keys=True) != json.dumps(v, sort_keys=True) or type(got[k]) is not type(v):
            return False
    return True


def _one_impl(sc, algpair, idx: int, seed: int):
    from joserfc import jwt, jwe
    from joserfc.jwk import KeySet
    from joserfc.errors import InvalidPayloadError, JoseError
    rnd = random.Random(f"{seed}-{idx}-{algpair}")
    J.register_drafts({"chacha"})
    fails = []
    tr = sc["tr"]
    if tr == "jws":
        alg, kind = algpair
        jwk = K.get(kind)
        kwargs = {"algorithms": [alg]}
        hdr = {"alg": alg}
    else:
        alg, enc = algpair
        jwk = K.get(K.jwe_key_kind(alg, enc))
        kwargs = {"algorithms": [alg, enc], "registry": jwe.JWERegistry()}
        hdr = {"alg": alg, "enc": enc}
    if sc["typ"] != "absent":
        hdr["typ"] = "JWT" if sc["typ"] == "JWT" else "at+jwt"
    the_kid = "" if idx % 3 == 1 else "the-kid"          # a kid is any string, the empty one included
    priv = J.fresh_jkey({**jwk, "kid": the_kid}) if sc["keyarg"] == "keyset" else J.fresh_jkey(jwk)
    pubj = J.pub(jwk)
    pub = J.fresh_jkey({**pubj, "kid": the_kid}) if sc["keyarg"] == "keyset" else J.fresh_jkey(pubj)
    enc_key = (priv if tr == "jws" else pub)
    dec_key = (pub if tr == "jws" else priv)
    if sc["keyarg"] == "keyset":
        enc_key = KeySet([enc_key])
    if sc.get("deckey", sc["keyarg"]) == "keyset":
        # a set holding exactly the key; when the token names a kid the set's key carries it
        dec_key = KeySet([dec_key if sc["keyarg"] == "keyset" else (J.fresh_jkey({**(pubj if tr == "jws" else jwk), "kid": "kid-of-the-set"}) if idx % 2 else dec_key)])
    elif sc["keyarg"] == "keyset" and idx % 2:
        dec_key = J.fresh_jkey(pubj if tr == "jws" else jwk)          # a plain key without kid decodes a token that names one
    exp_claims = None
    if sc["madeby"] == "library":
        claims, exp_claims = ({}, {}) if sc["payload"] == "empty_object" else gen_claims(rnd)
        caller = dict(hdr)
        try:
            ekw = dict(kwargs)
            if idx % 2:
                # the caller's own JSON encoder (for a type of theirs) must not switch off the NumericDate conversion
                import uuid

                class AppEncoder(json.JSONEncoder):
                    def default(self, o):
                        if isinstance(o, uuid.UUID):
                            return str(o)
                        return super().default(o)
                ekw["encoder_cls"] = AppEncoder
            tok = jwt.encode(caller, claims, enc_key, **ekw)
        except Exception as e:  # noqa
            return [("encode-raised:" + type(e).__name__, str(e)[:100])]
        if caller != hdr:
            fails.append(("caller-header-mutated", json.dumps(caller)))
    else:
        if sc["payload"] == "object":
            body = R.jdump({"a": 1, "ü": [1, {"b": None}]}); exp_claims = json.loads(body)
        else:
            body = rnd.choice(PAYLOADS[sc["payload"]])
            if sc["payload"] == "empty_object":
                exp_claims = {}
        fh = {"typ": "JWT", **hdr}
        if sc["keyarg"] == "keyset":
            fh["kid"] = the_kid
        if tr == "jws":
            tok = R.jws_compact(R.jdump(fh), body, alg, jwk)
        else:
            tok = R.jwe_compact(R.jwe_encrypt(fh, body, [{"jwk": jwk}]))
    if sc["tampered"]:
        segs = tok.split(".")
        last = bytearray(R.b64d(segs[-1]) or b"\x00")
        last[rnd.randrange(len(last))] ^= 1 << rnd.randrange(8)
        segs[-1] = R.b64e(bytes(last)).decode()
        tok = ".".join(segs)
    try:
        t = jwt.decode(J.F(tok), dec_key, **kwargs)
        out = "claims"
    except InvalidPayloadError:
        out = "invalid_payload"
    except (JoseError, ValueError) as e:
        out = "integrity_error" if sc["tampered"] else "error:" + type(e).__name__
    except BaseException as e:  # noqa
        out = "escape:" + type(e).__name__
    want = "integrity_error" if sc["tampered"] else ("claims" if sc["payload"] in ("object", "empty_object") else "invalid_payload")
    if out != want:
        fails.append((f"decode-{out.split(':')[0]}-expected-{want}", out))
    elif out == "claims":
        if not equal_claims(t.claims, exp_claims):
            fails.append(("claims-differ", json.dumps(t.claims, default=str)[:100]))
        want_typ = hdr.get("typ", "JWT")
        if t.header.get("typ") != want_typ:
            fails.append(("typ-differs", str(t.header.get("typ"))))
        if any(t.header.get(k) != v for k, v in hdr.items()):
            fails.append(("header-differs", json.dumps(t.header)[:100]))
        if sc["keyarg"] == "keyset" and t.header.get("kid") != the_kid:
            fails.append(("kid-missing", json.dumps(t.header)[:100]))
        # the header handed back is the one on the wire, whatever kind of key argument decoded it
        wire = json.loads(R.b64d(tok.split(".")[0]))
        if t.header != wire:
            fails.append(("header-not-as-on-wire", json.dumps(t.header)[:100]))
        # the returned objects belong to the caller: editing them must not change what a later decode returns
        if not fails:
            want_h, want_c = json.dumps(t.header, sort_keys=True), json.dumps(t.claims, sort_keys=True, default=str)
            t.header.pop("typ", None); t.header["alg"] = "none"; t.header["injected"] = True; scribble(t.header); scribble(t.claims)
            if isinstance(t.claims, dict):
                t.claims["injected"] = True
            try:
                t2 = jwt.decode(tok, dec_key, **kwargs)
                if json.dumps(t2.header, sort_keys=True) != want_h or json.dumps(t2.claims, sort_keys=True, default=str) != want_c:
                    fails.append(("second-decode-differs-after-caller-edited-first-result", json.dumps(t2.header)[:100]))
            except Exception as e:  # noqa
                fails.append(("second-decode-raised-after-caller-edited-first-result", type(e).__name__))
    return fails


def run_chunk(args):
    items, seed = args
    out = []
    for idx, sc, ap, rep in items:
        for what, detail in one(sc, ap, idx * 31 + rep, seed):
            out.append((idx, ap, what, detail))
    return out


def sig(sc, what) -> str:
    return f"jwt:{sc['tr']} typ={sc['typ']} key={sc['keyarg']}/{sc.get('deckey', sc['keyarg'])} payload={sc['payload']} tampered={sc['tampered']} by={sc['madeby']} -> {what}"



def one(sc, algpair, idx: int, seed: int):
    from .common import from_library
    try:
        return _one_impl(sc, algpair, idx, seed)
    except Exception as e:  # noqa
        where = from_library(e)
        if where is None:
            raise
        return [("library-raised-" + where.split("@")[0], where)]

def run(ctx: Ctx) -> None:
    thorough = ctx.tier == "thorough"
    r = ctx.tlc("Jwt", timeout=300)
    for d in ("NonObjectClaims", "TypAlwaysJWT", "HeaderMutated", "PayloadBeforeIntegrity", "NotJsonEscapes", "DecodeWritesKid"):
        ctx.sensitivity("Jwt", "Jwt_dev_" + d)
    scs = list({json.dumps(c, sort_keys=True): c for c in r.cases}.values())
    if len(scs) < 300:
        raise MachineryError("scenario export too small")
    items = []
    # besides the fixed choices, every scenario meets two more rows of the full tables (all JWS algorithms, all key management x
    # content encryption pairs), rotating with the scenario
    jws_all = [(a, K.JWS_KEY_KIND[a]) for a in R.JWS_ALGS if a != "none"] + [("EdDSA", "OKP:Ed448")]
    jwe_all = [(a, e) for a in R.JWE_ALGS for e in R.ENC]
    for idx, sc in enumerate(scs):
        more = [jws_all[(idx * 2 + j) % len(jws_all)] for j in (0, 1)] if sc["tr"] == "jws" else [jwe_all[(idx * 7 + j * 3) % len(jwe_all)] for j in (0, 1)]
        for ap in list(JWS if sc["tr"] == "jws" else JWE) + [m for m in more if m not in (JWS if sc["tr"] == "jws" else JWE)]:
            reps = (40 if thorough else 4) if sc["payload"] == "object" and sc["madeby"] == "library" else (4 if thorough else 1)
            for rep in range(reps):
                items.append((idx, sc, ap, rep))
    import multiprocessing as mp
    from .common import NCPU, _pool_init
    chunks = [(items[i::NCPU * 4], ctx.seed) for i in range(NCPU * 4)]
    with mp.get_context("fork").Pool(NCPU, initializer=_pool_init) as pool:
        res = pool.map(run_chunk, chunks, chunksize=1)
    for out in res:
        for idx, ap, what, detail in out:
            ctx.violation(sig(scs[idx], what) , {"scenario": scs[idx], "alg": list(ap), "what": what, "detail": detail})
    ctx.evaluations = len(items)
    ctx.traces = len(scs) * 5
    for sc in scs:
        ctx.nontrivial.add(json.dumps(sc, sort_keys=True))
    ctx.exhaustive = True
    ctx.rule = ("every scenario of Jwt.tla (transport x typ x key|keyset x 11 payload classes x tampered x library/forged) over 6 JWS and 5 JWE fixed algorithm choices plus two rotating rows of the full tables per scenario; "
                " object payloads = seeded generated claim sets (unicode, nesting depth<=3, ints to 10^30, floats incl. extremes, aware/naive datetimes); "
                "non-object payloads signed/encrypted by refimpl; distinct_nontrivial = distinct scenarios")
    ctx.sample(scs[3]); ctx.sample(scs[200])
    ctx.assumptions = ["naive datetimes: UTC or local interpretation both accepted", "NaN/Infinity not generated"]


def replay(ctx: Ctx, rec: dict) -> None:
    from .common import _pool_init
    _pool_init()
    f = one(rec["scenario"], tuple(rec["alg"]), 0, ctx.seed)
    print(json.dumps(rec["scenario"]), rec["alg"], "observed now:", f)
    if f:
        ctx.violation(rec["signature"], {"scenario": rec["scenario"], "detail": f})
