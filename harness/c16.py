"""C16 - untrusted tokens are rejected only with JoseError or ValueError.

Spec: spec/Parse.tla (exception-flow model: entry point x slot x content class; the stage whose primitive first touches the
slot, that primitive's native exception outside its domain, and the guard that must turn it into a JoseError/ValueError).
TLC checks NoEscape for the guarded design, refutes nine "guard removed" deviations and exports every case.  Binding B1:
each case becomes a real token - authenticated by refimpl over the malformed content so that late stages are reached -
and is fed to the real entry point; any exception that is neither JoseError nor ValueError is a violation, identified by
(exception type, innermost joserfc function).  Thorough adds model-guided fuzzing (byte mutations of the tokens, random
JSON values per slot).
"""
from __future__ import annotations
import json
import random
import traceback
import zlib

from .common import Ctx, MachineryError
from . import joseops as J
from . import refimpl as R
from . import keys as K

DEEP = "[" * 50000 + "]" * 50000


def jt_values(cls: str, name: str, rnd: random.Random):
    """concrete JSON values (possibly several) of a class for header member `name`; returns python values or RawJson"""
    if cls == "str_ok": return [{"alg": None, "enc": None, "zip": "DEF", "jku": "https://e.example/k", "p2s": "c2FsdHNhbHQ", "iv": "AAAAAAAAAAAAAAAA",
                                 "tag": "AAAAAAAAAAAAAAAAAAAAAA", "apu": "QQ", "apv": "Qg"}.get(name, "text")]
    if cls == "str_bad": return ["!! bad ~~", "", "\u0000", "é" * 3, "A" * 70000]
    if cls == "int_pos": return [8, 1]
    if cls == "int_zero": return [0]
    if cls == "int_neg": return [-1, -2 ** 40]
    if cls == "int_big": return [2 ** 31, 2 ** 63, 10 ** 30]
    if cls == "float": return [1.5, 1e300, -0.0]
    if cls == "true": return [True]
    if cls == "false": return [False]
    if cls == "null": return [None]
    if cls == "list_empty": return [[]]
    if cls == "list_str": return [["b64"], ["alg", "x"]]
    if cls == "list_mixed": return [["a", 1], [None], [True, "b64"]]
    if cls == "list_nested": return [[["a"]], [{"a": 1}]]
    if cls == "obj_empty": return [{}]
    if cls == "obj_ok": return [{"kty": "oct", "k": "AAAA"}]
    if cls == "obj_bad": return [{"a": [1, {"b": None}]}, {"kty": 5}, {"kty": "EC"}]
    if cls == "deep": return [RawJson(DEEP)]
    raise ValueError(cls)


class RawJson:
    def __init__(self, text): self.text = text


def dump(obj) -> bytes:
    """compact JSON with RawJson placeholders spliced in"""
    holes = []

    def enc(o):
        if isinstance(o, RawJson):
            holes.append(o.text); return "@@HOLE%d@@" % (len(holes) - 1)
        if isinstance(o, dict): return {k: enc(v) for k, v in o.items()}
        if isinstance(o, list): return [enc(v) for v in o]
        return o
    s = json.dumps(enc(obj), separators=(",", ":"))
    for i, h in enumerate(holes):
        s = s.replace('"@@HOLE%d@@"' % i, h)
    return s.encode()


SEG = {"bad_alphabet": ["ab+c/d", "a b!", "a.b"], "len1mod4": ["abcde", "A"], "empty": [""], "nonascii": ["é€", "ÿ"], "padded": ["YWJj==", "YQ=="],
       "whitespace": ["YW Jj\n", " "], "other_valid": ["AAAA", "e30", "W10"]}


def jwe_alg_for(slot, v: int = 0) -> tuple[str, str]:
    """the algorithm pair a slot is exercised under: every member of the family that looks at the slot takes its turn"""
    n = slot["name"]
    encs = list(R.ENC)
    if slot["kind"] == "epk" or n in ("epk", "apu", "apv"):
        return [("ECDH-ES+A128KW", "A128GCM"), ("ECDH-ES", "A128CBC-HS256"), ("ECDH-ES+A192KW", "A192GCM"), ("ECDH-ES+A256KW", "A256GCM")][(v // 2) % 4 if v >= 2 else 0]
    if n in ("p2s", "p2c"): return [("PBES2-HS256+A128KW", "A128GCM"), ("PBES2-HS384+A192KW", "A192CBC-HS384"), ("PBES2-HS512+A256KW", "A256GCM")][v % 3]
    if n in ("iv", "tag"): return [("A128GCMKW", "A128CBC-HS256"), ("A192GCMKW", "A192GCM"), ("A256GCMKW", "A256CBC-HS512")][v % 3]
    if n == "skid": return [("ECDH-1PU", "A128GCM"), ("ECDH-1PU+A128KW", "A128CBC-HS256"), ("ECDH-1PU+A192KW", "A192CBC-HS384"), ("ECDH-1PU+A256KW", "A256CBC-HS512")][v % 4]
    if slot["kind"] == "json_shape" and "v" in slot:
        # a member missing from the JSON object meets every key-management family in turn
        return [("A128KW", "A128GCM"), ("ECDH-ES+A128KW", "A128GCM"), ("ECDH-ES+A256KW", "A128CBC-HS256"), ("PBES2-HS256+A128KW", "A128GCM"),
                ("A128GCMKW", "A128GCM"), ("RSA-OAEP", "A256GCM"), ("ECDH-ES", "A128GCM"), ("dir", "A128GCM")][(slot["v"] // 2) % 8]
    import zlib
    k = v + zlib.crc32((slot["kind"] + n + slot.get("pos", "")).encode())
    alg = ["A128KW", "A192KW", "A256KW", "RSA1_5", "RSA-OAEP", "RSA-OAEP-256", "dir"][k % 7]
    return alg, encs[(k // 7) % len(encs)]


def build_and_run(case, v: int, seed: int):
    """-> outcome string"""
    entry, slot, cls = case["entry"], case["slot"], case["class"]
    rnd = random.Random(f"{seed}-{v}")
    fam, ser = entry.split(".")
    is_jwe = fam == "jwe" or entry == "jwt.jwe"
    jwt = fam == "jwt"
    if jwt:
        ser = "compact"
    payload = R.jdump({"iss": "x", "n": 1}) if jwt else (b"payload_1" if fam == "7797" else b"payload \x00\xff")
    kind, name, pos = slot["kind"], slot["name"], slot["pos"]

    def pick(vals):
        return vals[v % len(vals)]

    # ---------------- JWS family
    if not is_jwe:
        # every JWS algorithm is a row of its own: the cases of a slot are spread over all of them
        import zlib
        rot = [a for a in R.JWS_ALGS if a != "none"]
        alg0 = rot[(v + zlib.crc32((entry + kind + name + cls).encode())) % len(rot)]
        jwk = K.get(K.JWS_KEY_KIND[alg0])
        prot = {"alg": alg0}
        held = jwk
        other = kind == "member" and name == "alg" and cls == "other_family"
        if other:
            # the verifier holds a key of one family, the token names an allowed algorithm of another
            hk, oalg = JWS_OTHER[v % len(JWS_OTHER)]
            held = K.get(hk)
        if kind == "inner" and name == "claims":
            payload = claims_content(cls, v)
        if fam == "7797":
            prot.update({"b64": False, "crit": ["b64"]})
        unprot = {}
        hdr_octets = None
        if kind == "hdr_type":
            val = pick(jt_values(cls, "hdr", rnd))
            hdr_octets = dump(val)
        elif kind == "member":
            tgt = prot if pos == "protected" else unprot
            if cls == "absent":
                prot.pop(name, None); unprot.pop(name, None)
            elif other:
                prot.pop("alg"); tgt["alg"] = oalg
            else:
                val = pick(jt_values(cls, name, rnd))
                if val is None and cls == "str_ok":
                    val = alg0
                tgt[name] = val
        if hdr_octets is None:
            hdr_octets = dump(prot)
        b64 = not (fam == "7797" and isinstance(prot.get("b64", False), bool) and prot.get("b64") is False and kind != "hdr_type")
        seg = R.b64e(hdr_octets)
        body = R.b64e(payload) if b64 else payload
        sig = R.b64e(R.jws_sign(alg0, jwk, seg + b"." + body))
        parts = {"header": seg.decode(), "payload": body.decode("latin1"), "signature": sig.decode()}
        if kind == "segment":
            parts[name] = pick(SEG[cls])
        if ser == "compact":
            tok = parts["header"] + "." + parts["payload"] + "." + parts["signature"]
            if kind == "compact_shape":
                tok = shape_compact(tok, cls, 3)
        else:
            e = {"protected": parts["header"], "signature": parts["signature"]}
            if unprot:
                e["header"] = unprot
            if kind == "json_shape" and cls == "missing":
                e.pop("protected"); e["header"] = {**prot, **unprot}
            if ser == "flattened":
                tok = {"payload": parts["payload"], **e}
            else:
                tok = {"payload": parts["payload"], "signatures": [] if (kind == "json_shape" and cls == "empty_list") else [e]}
        key = J.jkey(J.pub(held) if other and held.get("kty") != "oct" and v % 2 else held)
        from joserfc import jws, rfc7797, jwt as jwtm

        def call():
            reg = (rfc7797.JWSRegistry if fam == "7797" else jws.JWSRegistry)(algorithms=[alg0], strict_check_header=case["reg"] == "default")
            if alg0 in ("HS256", "RS256", "ES256") and v % 2:
                reg = None if case["reg"] == "default" else (rfc7797.JWSRegistry if fam == "7797" else jws.JWSRegistry)(strict_check_header=False)
            if other and oalg not in ("HS256", "RS256", "ES256"):
                reg = (rfc7797.JWSRegistry if fam == "7797" else jws.JWSRegistry)(algorithms=list(R.JWS_ALGS), strict_check_header=case["reg"] == "default")
            if jwt: return jwtm.decode(J.F(tok, v), key, registry=reg)
            mod = rfc7797 if fam == "7797" else jws
            return mod.deserialize_compact(J.F(tok, v), key, registry=reg) if ser == "compact" else mod.deserialize_json(tok, key, registry=reg)
        return classify(call)
    # ---------------- JWE family
    alg, enc = jwe_alg_for({**slot, "v": v} if kind == "json_shape" else slot, v)
    other = kind == "member" and name == "alg" and cls == "other_family"
    if other:
        alg, enc = JWE_BASES[v % len(JWE_BASES)]
        cand = [a for a in R.JWE_ALGS if a != alg]
        oalg = cand[(v // len(JWE_BASES)) % len(cand)]
    rj = K.get(K.jwe_key_kind(alg, enc))
    sj = K.get(K.jwe_key_kind(alg, enc), 1) if "1PU" in alg else None
    prot = {"alg": alg, "enc": enc}
    if alg.startswith("PBES2"):
        prot["p2c"] = 8
    pt = payload
    deflate = None
    if kind == "inner" and name == "deflate":
        prot["zip"] = "DEF"
        good = R.deflate_raw(b"some plaintext to compress " * 20)
        deflate = {"corrupt": bytes(rnd.randrange(256) for _ in range(40)), "truncated": good[:len(good) // 2], "empty": b"",
                   "notjson": good, "nonobject": good, "bomb": R.deflate_raw(b"\0" * 300000),
                   "short": bytes([v % 256]) if v < 256 else bytes([v % 256, (v * 7 + 3) % 256])}[cls]
    if kind == "inner" and name == "claims":
        pt = claims_content(cls, v)
    hdr_raw = None

    def mutate(p_, u_, rs_):
        nonlocal hdr_raw
        tgt = {"protected": p_, "unprotected": u_, "recipient": rs_[0]}[pos] if pos in ("protected", "unprotected", "recipient") else p_
        if kind == "member":
            for d in (p_, u_, rs_[0]):
                if name in d and (cls == "absent" or d is not tgt):
                    d.pop(name)
            if other:
                tgt[name] = oalg
            elif cls != "absent":
                val = pick(jt_values(cls, name, rnd))
                if val is None and cls == "str_ok":
                    val = alg if name == "alg" else enc
                tgt[name] = val
        elif kind == "epk":
            epk = None
            for d in (p_, u_, rs_[0]):
                if "epk" in d:
                    epk = d.pop("epk")
            epk = dict(epk or R.public_jwk(K.get("EC:P-256", 1)))
            sub = name
            if cls == "absent": epk.pop(sub, None)
            elif cls == "str_unknown": epk[sub] = "P-999" if sub == "crv" else "XYZ"
            elif cls == "str_otherkty": epk[sub] = {"crv": "X25519", "kty": "OKP"}.get(sub, "AAAA")
            elif cls == "str_badb64": epk[sub] = "!!! not base64 !!!"
            elif cls == "str_shortb64": epk[sub] = "AAAA"
            elif cls == "int": epk[sub] = 7
            elif cls == "list":
                epk[sub] = ["P-256"] if sub not in ("use", "key_ops") else ["sign"]
                if sub == "use":            # a list of well-formed values, alone and together with the member it is checked against
                    epk["use"] = ["enc"]
                    if v % 2 == 0: epk["key_ops"] = ["deriveKey"]
                elif sub == "key_ops" and v % 2 == 0:
                    epk["key_ops"] = ["deriveKey"]; epk["use"] = "enc"
            elif cls == "null": epk[sub] = None
            elif cls == "obj": epk[sub] = {"a": 1} if v % 2 else {}
            elif cls == "list_nested": epk[sub] = [["sig"]] if v % 2 else [[]]
            elif cls == "list_obj": epk[sub] = [{}] if v % 2 else [{"a": [1]}, "sign"]
            elif cls == "bool": epk[sub] = bool(v % 2)
            elif cls == "float": epk[sub] = 1.5
            elif cls == "deep": epk[sub] = RawJson(DEEP)
            elif cls == "table_value":
                OPS = ["sign", "verify", "encrypt", "decrypt", "wrapKey", "unwrapKey", "deriveKey", "deriveBits"]
                if sub in ("use", "key_ops"):
                    op = OPS[v % 8]
                    epk["key_ops"] = op if (v // 8) % 2 else [op] + ([OPS[(v + 3) % 8]] if (v // 48) % 2 else [])
                    u = ["enc", "sig", None][(v // 16) % 3]
                    if u: epk["use"] = u
                    else: epk.pop("use", None)
                elif sub == "kty": epk["kty"] = ["EC", "OKP", "RSA", "oct"][v % 4]
                elif sub == "crv": epk["crv"] = ["P-256", "P-384", "P-521", "secp256k1", "Ed25519", "Ed448", "X25519", "X448"][v % 8]
                elif sub == "alg": epk["alg"] = (list(R.JWE_ALGS) + list(R.JWS_ALGS))[v % (len(R.JWE_ALGS) + len(R.JWS_ALGS))]
                else: epk[sub] = ["", "0", "AQAB", "-_-_"][v % 4]
            tgt["epk"] = epk
        elif kind == "hdr_type":
            hdr_raw = dump(pick(jt_values(cls, "hdr", rnd)))
    where = "protected" if ser == "compact" or pos == "protected" else "header"
    parts = R.jwe_encrypt(prot, pt, [{"jwk": rj, "sender": sj, "where": where}], mutate=mutate,
                          spell=(lambda d: hdr_raw) if kind == "hdr_type" else dump,
                          raw_deflate=(lambda b: deflate) if deflate is not None else R.deflate_raw)
    if ser == "compact":
        tok = R.jwe_compact(parts)
        if kind == "segment":
            segs = tok.split(".")
            segs[["header", "ek", "iv", "ciphertext", "tag"].index(name)] = pick(SEG[cls])
            tok = ".".join(segs)
        if kind == "compact_shape":
            tok = shape_compact(tok, cls, 5)
    else:
        tok = R.jwe_json(parts, flattened=(ser == "flattened"))
        if kind == "segment":
            m = {"header": "protected", "ek": "encrypted_key", "iv": "iv", "ciphertext": "ciphertext", "tag": "tag", "aad": "aad"}[name]
            if m == "encrypted_key" and "recipients" in tok:
                tok["recipients"][0]["encrypted_key"] = pick(SEG[cls])
            else:
                tok[m] = pick(SEG[cls])
        if kind == "json_shape":
            if cls == "empty_list" and "recipients" in tok:
                tok["recipients"] = []
            elif cls == "missing":
                tok.pop("unprotected", None); tok.pop("aad", None)
                if v % 2:            # only the encrypted_key member is missing, the per-recipient header stays
                    (tok["recipients"][0] if "recipients" in tok else tok).pop("encrypted_key", None)
                elif "recipients" in tok:
                    tok["recipients"] = [{}]
                else:
                    tok.pop("header", None); tok.pop("encrypted_key", None)
    from joserfc import jwe, jwt as jwtm
    names = list(R.JWE_ALGS + R.JWE_1PU) + list(R.ENC) + ["DEF"]
    key = J.jkey(rj)
    kw = {"sender_key": J.jkey(J.pub(sj))} if sj else {}

    def call():
        reg = jwe.JWERegistry(algorithms=names, strict_check_header=case["reg"] == "default", verify_all_recipients=case["reg"] != "lenient_any")
        if jwt: return jwtm.decode(J.F(tok, v), key, registry=reg)
        return jwe.decrypt_compact(J.F(tok, v), key, registry=reg, **kw) if ser == "compact" else jwe.decrypt_json(tok, key, registry=reg, **kw)
    return classify(call)


# (key the verifier holds, algorithm the token names): every pairing of one key family with an algorithm of another,
# and of an EC key with the algorithm of another curve
JWS_OTHER = [(h, a) for h in ("oct256", "RSA2048", "EC:P-256", "OKP:Ed25519", "EC:P-384", "OKP:Ed448", "EC:secp256k1")
             for a in ("HS256", "RS256", "ES256", "EdDSA", "PS256", "ES384", "ES256K", "HS512", "ES512")
             if K.JWS_KEY_KIND[a] != h and not (a == "EdDSA" and h.startswith("OKP:Ed")) and not (a in ("HS256", "HS512") and h == "oct256")]
JWE_BASES = [("A128KW", "A128GCM"), ("RSA-OAEP", "A128GCM"), ("ECDH-ES+A128KW", "A128GCM"), ("dir", "A128GCM"), ("PBES2-HS256+A128KW", "A128GCM"),
             ("A128GCMKW", "A128GCM"), ("ECDH-ES", "A128CBC-HS256")]


def claims_content(cls: str, v: int) -> bytes:
    return {"notjson": b"not json", "nonobject": b"[1]", "corrupt": b"\xff\xfe", "truncated": b'{"a":', "empty": b"", "bomb": b"1",
            "short": bytes([v % 256]), "deep": (DEEP if v % 2 else '{"a":' * 50000 + "1" + "}" * 50000).encode()}[cls]


def shape_compact(tok: str, cls: str, want: int):
    if cls == "empty": return ""
    if cls == "not_utf8": return tok.encode()[:10] + b"\xff\xfe" + tok.encode()[10:]
    if cls == "huge": return "A" * 1_000_000 + tok
    n = int(cls)
    segs = tok.split(".")
    if n + 1 <= len(segs): return ".".join(segs[:n + 1])
    return tok + "." * (n + 1 - len(segs))


def classify(fn) -> str:
    from joserfc.errors import JoseError
    try:
        fn()
        return "return"
    except JoseError:
        return "jose"
    except ValueError:
        return "value_error"
    except BaseException as e:  # noqa
        if isinstance(e, (KeyboardInterrupt, SystemExit)):
            raise
        where = "?"
        for fr in reversed(traceback.extract_tb(e.__traceback__)):
            if "/joserfc/" in fr.filename:
                where = fr.filename.split("/joserfc/")[-1] + ":" + fr.name
                break
        return f"escape:{type(e).__name__}@{where}"


def run_chunk(args):
    items, seed, nvar = args
    out = []
    for idx, case in items:
        # "short" contents are few enough to try them all: every one-octet stream and a two-octet one for each first octet
        for v in (range(512) if case["class"] == "short" else range(140) if case["class"] == "other_family" else range(96) if case["class"] == "table_value" else range(16) if (case["slot"]["kind"] == "json_shape" and case["class"] == "missing") else range(nvar)):
            try:
                o = build_and_run(case, v, seed)
            except Exception as e:  # noqa
                o = "machinery:" + repr(e)[:150] + " | " + traceback.format_exc()[-300:]
            out.append((idx, v, o))
    return out


def fuzz_chunk(args):
    """byte-level mutation of valid compact tokens and of JSON serializations re-parsed after mutation"""
    seed, n = args
    rnd = random.Random(seed)
    from joserfc import jws, jwe, jwt as jwtm, rfc7797
    names = list(R.JWE_ALGS + R.JWE_1PU) + list(R.ENC) + ["DEF"]
    out = []
    bases = []
    jk = K.get("oct256")
    bases.append(("jws", R.jws_compact(R.jdump({"alg": "HS256", "kid": "k"}), b"payload", "HS256", jk), jk))
    for alg, enc in (("A128KW", "A128GCM"), ("ECDH-ES", "A128CBC-HS256"), ("PBES2-HS256+A128KW", "A256GCM"), ("A128GCMKW", "A128GCM"), ("dir", "A128GCM")):
        rj = K.get(K.jwe_key_kind(alg, enc))
        h = {"alg": alg, "enc": enc, "zip": "DEF"}
        if alg.startswith("PBES2"): h["p2c"] = 8
        bases.append(("jwe", R.jwe_compact(R.jwe_encrypt(h, b"plaintext " * 5, [{"jwk": rj}])), rj))
    for i in range(n):
        fam, tok, jwk = bases[i % len(bases)]
        b = bytearray(tok.encode())
        # mutate the *decoded header* half of the time so that JSON stays plausible
        if rnd.random() < .5:
            segs = tok.split(".")
            hb = bytearray(R.b64d(segs[0]))
            for _ in range(rnd.randrange(1, 4)):
                p = rnd.randrange(len(hb))
                op = rnd.randrange(4)
                if op == 0: hb[p] = rnd.choice(b'{}[]",:0123456789truefalsn\\ \x00\xff')
                elif op == 1: del hb[p]
                elif op == 2: hb.insert(p, rnd.choice(b'{}[]",:-1e.'))
                else: hb[p] ^= 1 << rnd.randrange(8)
            segs[0] = R.b64e(bytes(hb)).decode()
            mt = ".".join(segs).encode()
        else:
            for _ in range(rnd.randrange(1, 5)):
                p = rnd.randrange(len(b))
                op = rnd.randrange(4)
                if op == 0: b[p] = rnd.randrange(256)
                elif op == 1: del b[p]
                elif op == 2: b.insert(p, rnd.choice(b".=+/ A\n"))
                else: b[p] ^= 1 << rnd.randrange(8)
            mt = bytes(b)
        key = J.jkey(jwk)
        if fam == "jws":
            sreg = None if i % 2 else jws.JWSRegistry(strict_check_header=False)
            s7reg = None if i % 2 else rfc7797.JWSRegistry(strict_check_header=False)
            calls = [lambda: jws.deserialize_compact(mt, key, registry=sreg), lambda: rfc7797.deserialize_compact(mt, key, registry=s7reg),
                     lambda: jwtm.decode(mt, key, registry=sreg)]
        else:
            reg = jwe.JWERegistry(algorithms=names, strict_check_header=bool(i % 2))
            calls = [lambda: jwe.decrypt_compact(mt, key, registry=reg), lambda: jwtm.decode(mt, key, registry=reg)]
        for c in calls:
            o = classify(c)
            if o.startswith("escape"):
                out.append((o, mt.decode("latin1")))
    return out, n


def _init():
    from .common import _pool_init
    _pool_init()
    J.register_drafts({"1pu", "chacha"})
    import sys
    sys.setrecursionlimit(3000)


def sig(case, o) -> str:
    return f"parse:{o}"


def run(ctx: Ctx) -> None:
    thorough = ctx.tier == "thorough"
    r = ctx.tlc("Parse", timeout=600)
    for d in ("HeaderNotObject", "CritUnvalidated", "EncUnhashable", "EncMissingJson", "EpkCrvLookup", "P2cRange", "InflateError", "DeepJson", "SegmentTypeConfusion", "LenientSkipsAlgParams", "KeyTypeGateMissing", "DeepClaims"):
        ctx.sensitivity("Parse", "Parse_dev_" + d)
    cases = list({json.dumps(c["c"], sort_keys=True): c["c"] for c in r.cases}.values())
    if len(cases) < 5000:
        raise MachineryError(f"case export too small: {len(cases)}")
    # json_shape classes outside the documented shape (wrong Python types of top-level members) are not part of the property
    cases = [c for c in cases if not (c["slot"]["kind"] == "json_shape" and c["class"] not in ("empty_list", "missing"))]
    # ECDH-1PU needs a sender key, which jwt.decode cannot be given: a caller configuration issue, not attacker input
    cases = [c for c in cases if not (c["entry"] == "jwt.jwe" and c["slot"]["name"] == "skid")]
    items = list(enumerate(cases))
    import multiprocessing as mp
    from .common import NCPU
    nvar = 5 if thorough else 2
    chunks = [(items[i::NCPU * 4], ctx.seed, nvar) for i in range(NCPU * 4)]
    with mp.get_context("fork").Pool(NCPU, initializer=_init) as pool:
        res = pool.map(run_chunk, chunks, chunksize=1)
        fz = pool.map(fuzz_chunk, [(ctx.seed * 1000 + i, 20000 if thorough else 1500) for i in range(NCPU)], chunksize=1)
    kinds = {"return": 0, "jose": 0, "value_error": 0, "escape": 0}
    for out in res:
        for idx, v, o in out:
            ctx.evaluations += 1
            if o.startswith("machinery:"):
                raise MachineryError(f"could not build case {cases[idx]}: {o}")
            kinds[o.split(":")[0]] += 1
            if o.startswith("escape"):
                ctx.violation(sig(cases[idx], o), {"case": cases[idx], "variant": v, "outcome": o})
            ctx.nontrivial.add(str(idx))
    nf = 0
    for out, n in fz:
        nf += n
        for o, tok in out:
            ctx.violation(sig(None, o), {"fuzzed_token": tok, "outcome": o})
    ctx.evaluations += nf
    ctx.traces = len(cases)
    ctx.exhaustive = False
    ctx.notes.update(abstract_cases=len(cases), outcomes=kinds, fuzz_inputs=nf)
    if kinds["return"] < 50 or kinds["jose"] + kinds["value_error"] < 1000:
        raise MachineryError(f"vacuous run: {kinds}")
    ctx.rule = ("every (entry point, slot, content class) of Parse.tla - 10 entry points; slots: header JSON type, 20 header members x 19 JSON classes x "
                "positions, epk sub-members, every segment x 7 text classes, compact/JSON shapes, authenticated-but-malformed DEFLATE and claims - "
                "concretised (2..5 values per class) as refimpl-authenticated tokens; plus seeded byte/JSON mutation fuzzing of valid tokens; "
                "distinct_nontrivial = distinct abstract cases executed")
    ctx.sample({"case": cases[100]}); ctx.sample({"case": cases[3000]})
    ctx.assumptions = ["JSON serialization dicts keep the declared Python types of their top-level members (str, dict, list of dict)",
                       "keys and registries are well formed", "resource exhaustion other than the modelled ones (deep nesting) is not decided"]


def replay(ctx: Ctx, rec: dict) -> None:
    _init()
    if "case" in rec:
        o = build_and_run(rec["case"], rec.get("variant", 0), rec.get("seed", 0))
        print(json.dumps(rec["case"]), "observed now:", o)
        if o.startswith("escape"):
            ctx.violation(rec["signature"], {"case": rec["case"], "outcome": o})
    else:
        print(json.dumps(rec)[:1000])
