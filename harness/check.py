"""Entry point: ./check <ID> [--tier quick|thorough] [--replay PATH]"""
from __future__ import annotations
import argparse
import importlib
import json
import os
import sys
import traceback

from .common import Ctx, MachineryError, use_repo


def main() -> int:
    ap = argparse.ArgumentParser()
    ap.add_argument("prop")
    ap.add_argument("--tier", default=os.environ.get("VERIF_TIER") or "quick", choices=["quick", "thorough"])
    ap.add_argument("--replay")
    a = ap.parse_args()
    prop = a.prop.upper()
    use_repo()
    try:
        mod = importlib.import_module(f"harness.{prop.lower()}")
    except ModuleNotFoundError as e:
        print(f"no check for {prop}: {e}", file=sys.stderr)
        return 2
    ctx = Ctx(prop, a.tier, getattr(mod, "LEVEL", "model_checking"))
    try:
        if a.replay:
            rec = json.loads(open(a.replay).read())
            mod.replay(ctx, rec)
        else:
            mod.run(ctx)
            ctx.write_evidence()
    except MachineryError as e:
        print(f"MACHINERY-FAILURE property={prop}: {e}", file=sys.stderr)
        if ctx.violations:            # violations already observed on the real code stand, whatever stopped the run afterwards
            print(f"{prop}: {len(ctx.violations)} violation(s) (run incomplete)")
            return 1
        return 2
    except Exception:
        traceback.print_exc()
        print(f"MACHINERY-FAILURE property={prop}: harness exception", file=sys.stderr)
        if ctx.violations:
            print(f"{prop}: {len(ctx.violations)} violation(s) (run incomplete)")
            return 1
        return 2
    finally:
        ctx.close()
    if ctx.violations:
        print(f"{prop}: {len(ctx.violations)} violation(s)")
        return 1
    print(f"{prop}: held on everything explored "
          f"(states={ctx.states} evaluations={ctx.evaluations} traces={ctx.traces} drift={ctx.drift} "
          f"known={sum(ctx.known_hit.values())}) in {ctx.notes.get('wall', '')}")
    return 0


if __name__ == "__main__":
    sys.exit(main())
