"""C19 - base64url and integer codecs are strict and lossless.

Spec: spec/Codec.tla (operators), spec/MC_Codec.tla (exhaustive state spaces), spec/CodecEval.tla
(TLC as calculator on harness-chosen points).  Binding B3: every enumerated point is evaluated by
TLC and the real joserfc.util / joserfc.rfc7518.util function must return TLC's value or raise a
ValueError where the spec says reject.
"""
from __future__ import annotations
import json
import copy
import random

from .common import Ctx, MachineryError, containers as _containers, scribble as _scribble


def _code_points(ctx: Ctx, enc_cases, dec_cases, ev_in, ev_out):
    from joserfc import util
    from joserfc.rfc7518 import util as util2
    n = 0

    def viol(sig, **d):
        ctx.violation(sig, d)

    # encoder: every octet string of length <= 2 + long samples
    for c in enc_cases:
        s = bytes(c["s"]); exp = bytes(c["e"])
        got = util.urlsafe_b64encode(s)
        n += 1
        if got != exp:
            viol(f"b64enc:{s.hex()[:32]}", input=s.hex(), expected=exp.decode(), got=repr(got))
        else:
            try:
                back = util.urlsafe_b64decode(got)
            except Exception as e:  # noqa
                back = repr(e)
            if back != s:
                viol(f"b64roundtrip:{s.hex()[:32]}", input=s.hex(), got=repr(back))
    # decoder
    for c in dec_cases:
        t = bytes(c["t"]); cls = c["class"]; val = bytes(c["val"])
        n += 1
        try:
            got = util.urlsafe_b64decode(t)
            o = "ok"
        except ValueError:
            got = None; o = "reject"
        except BaseException as e:  # noqa
            got = repr(e); o = "escape"
        ok = (cls == "value" and o == "ok" and got == val) or (cls == "reject" and o == "reject") or \
             (cls == "dontcare" and (o == "reject" or (o == "ok" and got == val)))
        if not ok:
            viol(f"b64dec:{cls}:{o}:{t.hex()[:24]}", text=t.hex(), cls=cls, expected=val.hex(), observed=o, got=repr(got))
        if cls != "dontcare":
            ctx.nontrivial.add("dec:" + t.hex())
    # integers
    for inp, out in zip(ev_in["ints"], ev_out["ints"]):
        num = int.from_bytes(bytes(inp), "big")
        n += 1
        if num == 0:
            continue  # zero is not a positive integer: don't care
        exp = bytes(out["b64"]).decode()
        try:
            got = util.int_to_base64(num)
        except Exception as e:  # noqa
            got = repr(e)
        if got != exp:
            viol(f"int_to_base64:{num.bit_length()}", num=str(num), expected=exp, got=got)
            continue
        try:
            back = util.base64_to_int(exp)
        except Exception as e:  # noqa
            back = repr(e)
        if back != num or int.from_bytes(bytes(out["canon"]), "big") != num:
            viol(f"base64_to_int:{num.bit_length()}", num=str(num), got=str(back))
        ctx.nontrivial.add("int:%d" % num)
    for neg in (-1, -255, -256, -(2 ** 64), -(2 ** 4096)):
        n += 1
        try:
            util.int_to_base64(neg)
            viol(f"int_to_base64:negative-accepted", num=str(neg))
        except ValueError:
            pass
        except BaseException as e:  # noqa
            viol(f"int_to_base64:negative-escape:{type(e).__name__}", num=str(neg))
    # fixed width
    for inp, out in zip(ev_in["fixed"], ev_out["fixed"]):
        num = int.from_bytes(bytes(inp["n"]), "big"); w = inp["w"]
        n += 1
        if not out["fits"]:
            continue
        exp = bytes(out["val"])
        for bits in {w * 8, w * 8 - 7} if w * 8 - 7 > 0 else {w * 8}:
            got = util2.encode_int(num, bits)
            if got != exp:
                viol(f"encode_int:{w}", num=str(num), bits=bits, expected=exp.hex(), got=repr(got))
        if util2.decode_int(exp) != num:
            viol(f"decode_int:{w}", num=str(num))
        ctx.nontrivial.add("fix:%d:%d" % (num, w))
    return n


def _json_roundtrip(ctx: Ctx, rnd: random.Random, count: int):
    """json_b64encode ; json_b64decode is the identity on header objects; the segment is alphabet-only and
    decodes (with the TLC-validated decoder class) to JSON text of an equal object."""
    from joserfc import util
    import string

    def val(d):
        k = rnd.randrange(9 if d < 3 else 6)
        if k == 0: return rnd.choice([0, 1, -1, 2 ** 31, 2 ** 63, -2 ** 40, 10 ** 30])
        if k == 1: return "".join(rnd.choice(string.printable + "é中\U0001f600\"\\/\x00\x7f") for _ in range(rnd.randrange(12)))
        if k == 2: return rnd.choice([True, False, None])
        if k == 3: return rnd.choice([0.5, 1e100, -2.25, 1.0])
        if k == 4: return ""
        if k == 5: return rnd.choice(["https://e.com/a?b=c&d=%20", "a.b.c", "=+/-_"])
        if k == 6: return [val(d + 1) for _ in range(rnd.randrange(4))]
        return {str(val(3))[:8] if rnd.random() < .5 else rnd.choice(["alg", "kid", "x", "crit"]): val(d + 1) for _ in range(rnd.randrange(4))}

    n = 0
    segs = []
    specials = [{"alg": "HS256", "x-list": [[i, str(i)] for i in range(70)]},                      # many shallow sibling containers
                {"alg": "HS256", "kid": "{[" * 60 + "]}" * 60, "x": {"a" * 3: [{}] * 40}},        # bracket characters inside a string
                {"alg": "none", "deep": [[[[[[[[[[[[[[[[[[[[1]]]]]]]]]]]]]]]]]]]]},                 # twenty levels (well within any sane bound)
                {"k" + str(i): {"v": [i]} for i in range(120)}]
    for it in range(count + len(specials)):
        h = specials[it - count] if it >= count else {rnd.choice(["alg", "kid", "typ", "crit", "epk", "x-" + str(rnd.randrange(99)), "ü"]): val(0) for _ in range(rnd.randrange(6))}
        try:
            seg = util.json_b64encode(h)
            back = util.json_b64decode(seg)
        except Exception as e:  # noqa
            ctx.violation(f"json_b64:{type(e).__name__}", {"header": repr(h)})
            continue
        n += 1
        if back != h or b"=" in seg or b"+" in seg or b"/" in seg:
            ctx.violation("json_b64:roundtrip", {"header": repr(h), "segment": seg.decode("latin1"), "back": repr(back)})
        segs.append((copy.deepcopy(h), seg))
        # TLA+ operators are functions by construction; the code must be one too: the same segment decodes to the
        # same object whatever was done with an earlier result (every nested container of it is edited in place)
        keep = copy.deepcopy(h)
        _scribble(back)
        _scribble(h)
        try:
            again = util.json_b64decode(seg)
            again_s = util.json_b64decode(seg.decode("ascii"))
        except Exception as e:  # noqa
            ctx.violation(f"json_b64:second-decode:{type(e).__name__}", {"header": repr(keep)})
            continue
        if again != keep or again_s != keep:
            ctx.violation("json_b64:not-a-function", {"header": repr(keep), "segment": seg.decode("latin1"), "second": repr(again)})
        if any(a is b for a in _containers(again) for b in _containers(again_s)):
            ctx.violation("json_b64:shared-result", {"header": repr(keep), "segment": seg.decode("latin1")})
    return n, segs


def run(ctx: Ctx) -> None:
    rnd = random.Random(ctx.seed)
    thorough = ctx.tier == "thorough"
    # 1. exhaustive state spaces, invariants inside the model, exported tables
    r_enc = ctx.tlc("MC_Codec", "MC_Codec_enc", timeout=900)
    enc_cases = list({tuple(c["s"]): c for c in r_enc.cases}.values())
    if len(enc_cases) != 1 + 256 + 65536:
        raise MachineryError(f"encoder table incomplete: {len(enc_cases)}")
    r_dec = ctx.tlc("MC_Codec", "MC_Codec_dec_thorough" if thorough else "MC_Codec_dec", timeout=1800)
    dec_cases = list({tuple(c["t"]): c for c in r_dec.cases}.values())

    # 2. harness-chosen points evaluated by TLC (calculator)
    alpha = b"ABCDEFGHIJKLMNOPQRSTUVWXYZabcdefghijklmnopqrstuvwxyz0123456789-_"
    non_alpha = [b for b in range(256) if b not in alpha]
    assert len(non_alpha) == 192
    dec_in = []
    for L in range(1, 6):
        for pos in range(L):
            for b in non_alpha:
                t = bytearray(rnd.choice(alpha) for _ in range(L)); t[pos] = b
                dec_in.append(list(t))
    for L in range(0, 70):                      # all lengths modulo 4, alphabet only
        for _ in range(3 if not thorough else 20):
            dec_in.append([rnd.choice(alpha) for _ in range(L)])
    enc_in = []
    for L in list(range(3, 80)) + [255, 256, 257, 511, 512, 600] + ([1024, 4096] if thorough else []):
        for _ in range(2 if not thorough else 10):
            enc_in.append([rnd.randrange(256) for _ in range(L)])
        enc_in.append([0] * L); enc_in.append([255] * L)
    # long inputs (payloads, ciphertexts): around every multiple of 64 KiB an implementation might slice at, and lengths = 0, 1, 2 mod 3
    for L in (16383, 16384, 16385, 65535, 65536, 65537, 65538, 65539, 70000, 131071, 131072, 131073, 196608, 200001) + ((262143, 262144, 262145, 1 << 20) if thorough else ()):
        enc_in.append([rnd.randrange(256) for _ in range(L)])
    ints = []
    ks = list(range(0, 40)) + [48, 64, 65, 66, 127, 128, 129, 255, 256, 257, 383, 384, 511, 512]
    for k in ks:                                   # 256^k - 1, 256^k, 256^k + 1, up to 2^4096
        if k > 0:
            ints.append([255] * k)
        ints.append([1] + [0] * k)
        ints.append([1] + [0] * (k - 1) + [1] if k > 0 else [2])
        ints.append([0, 0] + [1] + [0] * k)        # non-canonical input form of the same number
        ints.append([rnd.randrange(1, 256)] + [rnd.randrange(256) for _ in range(k)])
    fixed = []
    for w in (8, 32, 48, 66):
        for k in range(0, w + 1):
            fixed.append({"n": [rnd.randrange(1, 256)] + [rnd.randrange(256) for _ in range(k - 1)] if k else [0], "w": w})
            fixed.append({"n": [1] + [0] * (k - 1) if k else [0, 0], "w": w})
    # JSON header round trip: the segments joserfc emits are also decoded by TLC
    njson, segs = _json_roundtrip(ctx, rnd, 300 if not thorough else 3000)
    seg_idx = len(dec_in)
    for _, seg in segs[:200]:
        dec_in.append(list(seg))
    ev_in = {"enc": enc_in, "dec": dec_in, "ints": ints, "fixed": fixed}
    fin = ctx.scratch / "codec_in.json"; fout = ctx.scratch / "codec_out.json"
    fin.write_text(json.dumps(ev_in))
    ctx.tlc("CodecEval", workers=1, env={"IN_FILE": str(fin), "OUT_FILE": str(fout)}, timeout=1800)
    ev_out = json.loads(fout.read_text())
    if not (len(ev_out["enc"]) == len(enc_in) and len(ev_out["dec"]) == len(dec_in)):
        raise MachineryError("CodecEval output length mismatch")
    for (h, seg), o in zip(segs[:200], ev_out["dec"][seg_idx:]):
        if o["class"] != "value" or json.loads(bytes(o["val"]).decode("utf-8")) != h:
            ctx.violation("json_b64:segment-not-canonical", {"header": repr(h), "segment": seg.decode()})
    enc_all = enc_cases + [{"s": i, "e": o} for i, o in zip(enc_in, ev_out["enc"])]
    dec_all = dec_cases + [{"t": i, **o} for i, o in zip(dec_in, ev_out["dec"])]
    n = _code_points(ctx, enc_all, dec_all, ev_in, ev_out)
    for c in enc_all:
        ctx.nontrivial.add("enc:" + bytes(c["s"]).hex())
    # positive integers in JWKs (RSA members computed by the library from a native key) are minimal: compared with refimpl's
    # IntToB64 - the TLC-validated encoder - for keys whose CRT members are shorter than their prime, 2047/2050-bit moduli, ...
    from joserfc.jwk import JWKRegistry
    from cryptography.hazmat.primitives import serialization as S
    from . import keys as K, refimpl as R
    nj = 0
    for kind in ("RSA1024crt0", "RSA1024", "RSA2047", "RSA2048", "RSA2050", "RSA3072"):
        jwk = K.get(kind)
        native = R.jwk_to_native(jwk, True)
        for enc in (S.Encoding.PEM, S.Encoding.DER):
            key = JWKRegistry.import_key(native.private_bytes(enc, S.PrivateFormat.PKCS8, S.NoEncryption()), "RSA")
            for private in (True, False):
                got = key.as_dict(private=private)
                for m in ("n", "e") + (("d", "p", "q", "dp", "dq", "qi") if private else ()):
                    nj += 1
                    if got.get(m) != jwk[m]:
                        ctx.violation(f"jwk-int:RSA member {m} is not the minimal big-endian encoding [{kind}]", {"kind": kind, "member": m, "got": str(got.get(m))[:40]})
    # members of exported EC / OKP / oct JWKs are the codec's image of the key's octets, whatever their length modulo 3
    # (Ed448: 57 octets, no padding to cut; X448: 56; 32, 48, 66 for the others): keys that came in as PEM/DER or were generated
    from cryptography.hazmat.primitives.serialization import load_pem_private_key
    from joserfc.jwk import OctKey
    for kind in ("EC:P-256", "EC:P-384", "EC:P-521", "EC:secp256k1", "OKP:Ed25519", "OKP:Ed448", "OKP:X25519", "OKP:X448"):
        kty = kind.split(":")[0]
        for i in (0, 1, 2):
            if i < 2:
                jwk = K.get(kind, i)
                native = R.jwk_to_native(jwk, True)
                key = JWKRegistry.import_key(native.private_bytes(S.Encoding.PEM if i else S.Encoding.DER, S.PrivateFormat.PKCS8, S.NoEncryption()), kty)
            else:
                key = JWKRegistry.generate_key(kty, kind.split(":")[1], auto_kid=False)
                jwk = R.native_to_jwk(load_pem_private_key(key.as_pem(private=True), None), True)
            for private in (True, False):
                got = key.as_dict(private=private)
                for m in ("x",) + (("y",) if kty == "EC" else ()) + (("d",) if private else ()):
                    nj += 1
                    if got.get(m) != jwk[m]:
                        ctx.violation(f"jwk-octets:{kty} member {m} is not the unpadded base64url of the key's octets [{kind}, {'PEM/DER' if i < 2 else 'generated'}]",
                                      {"kind": kind, "member": m, "got": str(got.get(m))[:40], "origin": i})
    for ln in list(range(0, 70)) + [128, 255, 256, 1000]:
        raw = bytes((7 * j + ln) % 256 for j in range(ln))
        nj += 1
        try:
            k = OctKey.import_key(raw).as_dict()["k"]
        except ValueError:
            continue                          # an empty secret may be refused
        if k != R.b64e(raw).decode():
            ctx.violation(f"jwk-octets:oct member k is not the unpadded base64url of the secret [{ln} octets]", {"length": ln, "got": k[:40]})
    ctx.evaluations = n + njson + nj
    ctx.traces = n
    ctx.exhaustive = True
    ctx.rule = ("every octet string of length<=2 (TLC state space, 65,793 states) and sampled longer ones; every text of "
                "length<=4 over 13 representative characters; each of the 192 non-alphabet bytes at each position of "
                "texts of length 1..5; integers around 256^k up to 2^4096; each point evaluated by TLC and compared with "
                "joserfc.util. distinct_nontrivial counts distinct points whose expected verdict is fixed by the spec "
                "(value or reject), not the don't-care ones")
    ctx.sample({"encode": {"octets": enc_all[300]["s"], "tlc_text": bytes(enc_all[300]["e"]).decode()}})
    ctx.sample({"decode": {"text_hex": bytes(dec_in[5]).hex(), "tlc_class": ev_out["dec"][5]["class"]}})
    ctx.sample({"int": {"limbs": ints[7], "tlc_b64": bytes(ev_out["ints"][7]["b64"]).decode()}})
    ctx.assumptions = ["CPython base64/binascii are the primitives under joserfc.util",
                       "zero is outside 'positive integers' (int_to_base64(0) == '' does not round-trip): don't care",
                       "texts with trailing '=' or non-canonical trailing bits: either verdict accepted"]


def replay(ctx: Ctx, rec: dict) -> None:
    from joserfc import util
    print(json.dumps(rec, indent=1))
    if "text" in rec:
        t = bytes.fromhex(rec["text"])
        try:
            print("urlsafe_b64decode ->", util.urlsafe_b64decode(t))
        except Exception as e:  # noqa
            print("urlsafe_b64decode raised", type(e).__name__, e)
    if "input" in rec:
        print("urlsafe_b64encode ->", util.urlsafe_b64encode(bytes.fromhex(rec["input"])))
