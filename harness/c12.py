"""C12 - public-facing outputs never contain private key material.

Spec: the information-flow labels of spec/Jwk.tla (PublicClean, PrivateOnPublicIsError) over exports, key-set exports,
thumbprints and kids.  Binding B1: along every replayed chain each public output of the real key is scanned for every
private parameter of the key - as JWK member names and as octets in raw, hex, decimal, base64 and base64url form at all
three alignments; in addition every token-producing operation (all JWS algorithms, all JWE key-management algorithms incl.
the ephemeral public key in the header) is run with keys of every type and the produced serialization is scanned.
"""
from __future__ import annotations
import json

from .common import Ctx, MachineryError, pmap
from . import jwkchains, joseops as J, refimpl as R, keys as K
from .c01 import ALGS


def token_scan(args):
    which, a, b = args
    from joserfc import jws, jwe
    bad = []
    if which == "jws":
        alg, kind = a, b
        for idx in range(2):
            jwk = K.get(kind, idx)
            if jwk["kty"] == "oct":
                continue          # the only secret of a MAC key is the key itself; its octets are not part of the token
            needles = jwkchains.secret_needles(jwk)
            key = J.fresh_jkey(jwk)
            outs = [jws.serialize_compact({"alg": alg}, b"payload", key, algorithms=[alg]),
                    jws.serialize_json({"protected": {"alg": alg}}, b"payload", key, algorithms=[alg]),
                    jws.serialize_json([{"protected": {"alg": alg}, "header": {"cty": "x"}}], b"payload", key, algorithms=[alg])]
            from joserfc.jwk import KeySet
            outs.append(jws.serialize_compact({"alg": alg}, b"payload", KeySet([key]), algorithms=[alg]))
            for o in outs:
                if jwkchains.scan(o, needles):
                    bad.append(("jws", alg, kind))
    else:
        alg, enc = a, b
        J.register_drafts({"1pu", "chacha"})
        for ci, kind in enumerate(["EC:P-256", "EC:P-521", "OKP:X25519", "OKP:X448"] if alg.startswith("ECDH") else [K.jwe_key_kind(alg, enc)]):
            rj = K.get(kind, 0)
            sj = K.get(kind, 1) if alg.startswith("ECDH-1PU") else None
            needles = (jwkchains.secret_needles(rj) if rj["kty"] != "oct" else []) + (jwkchains.secret_needles(sj) if sj else [])
            kw = {"sender_key": J.fresh_jkey(sj)} if sj else {}
            reg = jwe.JWERegistry(algorithms=[alg, enc])
            hdr = {"alg": alg, "enc": enc}
            if alg.startswith("PBES2"): hdr["p2c"] = 8
            tok = jwe.encrypt_compact(dict(hdr), b"plaintext", J.fresh_jkey(rj if rj["kty"] == "oct" else R.public_jwk(rj)), registry=reg, **kw)
            obj = jwe.GeneralJSONEncryption({"enc": enc}, b"plaintext")
            rh = {"alg": alg}
            if alg.startswith("PBES2"): rh["p2c"] = 8
            obj.add_recipient(rh, J.fresh_jkey(rj if rj["kty"] == "oct" else R.public_jwk(rj)))
            tj = jwe.encrypt_json(obj, None, registry=reg, **kw)
            for o in (tok, tj):
                if needles and jwkchains.scan(o, needles):
                    bad.append(("jwe", alg, kind))
                # the ephemeral key must be public-only
                h = json.loads(R.b64d(o.split(".")[0])) if isinstance(o, str) else {**json.loads(R.b64d(o["protected"])), **(o["recipients"][0].get("header") or {})}
                if "epk" in h and ("d" in h["epk"] or set(h["epk"]) - {"kty", "crv", "x", "y", "kid"}):
                    bad.append(("jwe-epk-private", alg, kind))
    return bad


HEAP_KIND = {"rsa_priv": ("RSA1024", True), "ec_priv": ("EC:P-256", True), "ec_pub": ("EC:P-384", False), "okp_pub": ("OKP:Ed25519", False),
             "oct": ("oct256", True)}
ALL_PRIVATE_NAMES = {"d", "p", "q", "dp", "dq", "qi", "oth", "k"}


_BYTES: dict = {}


def _key_bytes(kind, idx, src, priv):
    from cryptography.hazmat.primitives import serialization as S
    if (kind, idx, src, priv) not in _BYTES:
        native = R.jwk_to_native(K.get(kind, idx), True)
        enc = S.Encoding.PEM if src == "pem" else S.Encoding.DER
        _BYTES[(kind, idx, src, priv)] = (native.private_bytes(enc, S.PrivateFormat.PKCS8, S.NoEncryption()) if priv
                                          else native.public_key().public_bytes(enc, S.PublicFormat.SubjectPublicKeyInfo))
    return _BYTES[(kind, idx, src, priv)]


def heap_replay(hist):
    """one JwkHeap.tla behaviour on real key objects that share the caller's parameter dictionaries -> list of failures"""
    from joserfc.jwk import JWKRegistry, KeySet
    from cryptography.hazmat.primitives import serialization as S
    objs = {"P": {"use": "sig"}, "Q": {"x5t": "dGh1bWI", "alg": "custom-alg"}, "none": None}
    keep = json.loads(json.dumps(objs))
    keys, jwks, fails = {}, {}, []
    needles = []

    def judge(step, i, outs, predicted):
        names = set()
        for o in outs:
            if isinstance(o, dict):
                for d in (o["keys"] if "keys" in o else [o]):
                    names |= set(d) & ALL_PRIVATE_NAMES
            if jwkchains.scan(o, needles):
                fails.append((f"step {i} {step['op']}({step['k']}): private octets of a key of this process in a public output", ""))
        if names != {n for _, n in predicted}:
            fails.append((f"step {i} {step['op']}({step['k']}): private-named members {sorted(names)} in a public export (model: {predicted})", ""))

    for i, st in enumerate(hist):
        k = st["k"]
        try:
            if st["op"] == "build":
                kind, priv = HEAP_KIND[st["kind"]]
                jwk = K.get(kind, 0 if k == "a" else 1)
                jwks[k] = jwk
                if priv and jwk["kty"] != "oct":
                    needles.extend(jwkchains.secret_needles(jwk))
                form = dict(jwk) if priv else R.public_jwk(jwk)
                if st["src"] == "jwk":
                    keys[k] = JWKRegistry.import_key(form, parameters=objs[st["params"]])
                else:
                    keys[k] = JWKRegistry.import_key(_key_bytes(kind, 0 if k == "a" else 1, st["src"], priv), jwk["kty"], objs[st["params"]])
            elif st["op"] == "touch":
                keys[k].kid                                      # first use of the JWK view
            elif st["op"] == "public_export":
                outs = [keys[k].as_dict(private=False)]
                if jwks[k]["kty"] != "oct":
                    outs += [keys[k].as_pem(private=False), keys[k].as_der(private=False)]
                judge(st, i, outs, st["out"])
            elif st["op"] == "set_public_export":
                judge(st, i, [KeySet([keys["a"], keys["b"]]).as_dict(private=False)], st["out"])
        except Exception as e:  # noqa
            fails.append((f"step {i} {st['op']}({k}) raised {type(e).__name__}", str(e)[:80]))
            break
    drift = [n for n in ("P", "Q") if objs[n] != keep[n]]
    return fails, drift


def heap_chunk(hists):
    return [(h, *heap_replay(h)) for h in hists]


def heap_pass(ctx: Ctx):
    import random
    r = ctx.tlc("JwkHeap", "JwkHeap" if ctx.tier == "thorough" else "JwkHeap_quick", timeout=900)
    for d in ("ViewBuiltInCallerDict", "ParamsWrittenBack"):
        ctx.sensitivity("JwkHeap", "JwkHeap_dev_" + d)
    hists = list({json.dumps(c["hist"], sort_keys=True): c["hist"] for c in r.cases}.values())
    if len(hists) < 20000:
        raise MachineryError(f"JwkHeap export too small: {len(hists)}")

    def shares(h):          # two keys built over the same caller dictionary, a lazily built view among them, and an export
        b = [s for s in h if s["op"] == "build"]
        return (len(b) == 2 and b[0]["params"] == b[1]["params"] != "none" and any(s["src"] != "jwk" for s in b)
                and any(s["op"].endswith("export") for s in h))
    rnd = random.Random(ctx.seed)
    chosen = [h for h in hists if shares(h)]
    rest = [h for h in hists if not shares(h)]
    chosen += rnd.sample(rest, min(len(rest), 20000 if ctx.tier == "thorough" else 2000))
    if ctx.tier != "thorough" and len(chosen) > 9000:
        chosen = rnd.sample(chosen, 9000)
    res = pmap(heap_chunk, [chosen[i::64] for i in range(64)], chunksize=1)
    ndrift = 0
    for chunk in res:
        for h, fails, drift in chunk:
            ctx.evaluations += 1
            ctx.nontrivial.add("heap:" + json.dumps(h, sort_keys=True))
            for what, detail in fails:
                ops = " ".join(f"{s['op']}({s['k']}" + (f":{s['kind']},{s['src']},{s['params']}" if s["op"] == "build" else "") + ")" for s in h)
                ctx.violation(f"heap:{what.split(': ', 1)[-1].split(' (model')[0]} history=[{ops}]", {"hist": h, "what": what, "detail": detail})
            if drift:
                ndrift += 1
                ctx.note_drift({"hist": h, "caller_dictionaries_modified": drift})
    ctx.notes["heap_histories"] = {"exported": len(hists), "sharing": len(hists) - len(rest), "replayed": len(chosen)}


def run(ctx: Ctx) -> None:
    jwkchains.execute(ctx, "C12")
    heap_pass(ctx)
    tasks = [("jws", a, k) for a, k in ALGS] + [("jwe", a, "A128CBC-HS256" if a.startswith("ECDH-1PU+") else "A128GCM") for a in R.JWE_ALGS + R.JWE_1PU]
    res = pmap(token_scan, tasks, procs=8, chunksize=1)
    for bad in res:
        for what, alg, kind in bad:
            ctx.violation(f"leak:{what} {alg} key={kind} private material in produced serialization", {"alg": alg, "kind": kind})
    ctx.evaluations += len(tasks) * 4
    for t in tasks:
        ctx.nontrivial.add("tok:" + t[1])
    ctx.rule = ("JwkHeap.tla: histories of two key objects built over shared caller dictionaries (build/touch/public export/key-set export), "
                "replayed on real keys with the model's predicted set of leaked members compared at every export; "
                "every public output along the replayed Jwk.tla chains (public JWK, public key set, public PEM/DER, thumbprint, kid) scanned for the key's private "
                "parameters (member names; octets raw/hex/decimal/base64/base64url at 3 alignments); tokens of all 15 JWS and 21 JWE algorithms in compact and "
                "JSON form incl. the epk header; distinct_nontrivial = distinct chains + algorithms")
    ctx.assumptions = ["leakage through timing or through error messages is not decided", "scanning looks for parameters of at least 8 octets"]


def replay(ctx: Ctx, rec: dict) -> None:
    from . import c11
    c11.replay(ctx, rec)
