"""C12 - public-facing outputs never contain private key material.

Spec: the information-flow labels of spec/Jwk.tla (PublicClean, PrivateOnPublicIsError) over exports, key-set exports,
thumbprints and kids.  Binding B1: along every replayed chain each public output of the real key is scanned for every
private parameter of the key - as JWK member names and as octets in raw, hex, decimal, base64 and base64url form at all
three alignments; in addition every token-producing operation (all JWS algorithms, all JWE key-management algorithms incl.
the ephemeral public key in the header) is run with keys of every type and the produced serialization is scanned.
"""
from __future__ import annotations
import json

from .common import Ctx, MachineryError, pmap
from . import jwkchains, joseops as J, refimpl as R, keys as K
from .c01 import ALGS


def token_scan(args):
    which, a, b = args
    from joserfc import jws, jwe
    bad = []
    if which == "jws":
        alg, kind = a, b
        for idx in range(2):
            jwk = K.get(kind, idx)
            if jwk["kty"] == "oct":
                continue          # the only secret of a MAC key is the key itself; its octets are not part of the token
            needles = jwkchains.secret_needles(jwk)
            key = J.fresh_jkey(jwk)
            outs = [jws.serialize_compact({"alg": alg}, b"payload", key, algorithms=[alg]),
                    jws.serialize_json({"protected": {"alg": alg}}, b"payload", key, algorithms=[alg]),
                    jws.serialize_json([{"protected": {"alg": alg}, "header": {"cty": "x"}}], b"payload", key, algorithms=[alg])]
            from joserfc.jwk import KeySet
            outs.append(jws.serialize_compact({"alg": alg}, b"payload", KeySet([key]), algorithms=[alg]))
            for o in outs:
                if jwkchains.scan(o, needles):
                    bad.append(("jws", alg, kind))
    else:
        alg, enc = a, b
        J.register_drafts({"1pu", "chacha"})
        for ci, kind in enumerate(["EC:P-256", "EC:P-521", "OKP:X25519", "OKP:X448"] if alg.startswith("ECDH") else [K.jwe_key_kind(alg, enc)]):
            rj = K.get(kind, 0)
            sj = K.get(kind, 1) if alg.startswith("ECDH-1PU") else None
            needles = (jwkchains.secret_needles(rj) if rj["kty"] != "oct" else []) + (jwkchains.secret_needles(sj) if sj else [])
            kw = {"sender_key": J.fresh_jkey(sj)} if sj else {}
            reg = jwe.JWERegistry(algorithms=[alg, enc])
            hdr = {"alg": alg, "enc": enc}
            if alg.startswith("PBES2"): hdr["p2c"] = 8
            tok = jwe.encrypt_compact(dict(hdr), b"plaintext", J.fresh_jkey(rj if rj["kty"] == "oct" else R.public_jwk(rj)), registry=reg, **kw)
            obj = jwe.GeneralJSONEncryption({"enc": enc}, b"plaintext")
            rh = {"alg": alg}
            if alg.startswith("PBES2"): rh["p2c"] = 8
            obj.add_recipient(rh, J.fresh_jkey(rj if rj["kty"] == "oct" else R.public_jwk(rj)))
            tj = jwe.encrypt_json(obj, None, registry=reg, **kw)
            for o in (tok, tj):
                if needles and jwkchains.scan(o, needles):
                    bad.append(("jwe", alg, kind))
                # the ephemeral key must be public-only
                h = json.loads(R.b64d(o.split(".")[0])) if isinstance(o, str) else {**json.loads(R.b64d(o["protected"])), **(o["recipients"][0].get("header") or {})}
                if "epk" in h and ("d" in h["epk"] or set(h["epk"]) - {"kty", "crv", "x", "y", "kid"}):
                    bad.append(("jwe-epk-private", alg, kind))
    return bad


def run(ctx: Ctx) -> None:
    jwkchains.execute(ctx, "C12")
    from . import jwkheap
    jwkheap.run(ctx, "C12")
    tasks = [("jws", a, k) for a, k in ALGS] + [("jwe", a, "A128CBC-HS256" if a.startswith("ECDH-1PU+") else "A128GCM") for a in R.JWE_ALGS + R.JWE_1PU]
    res = pmap(token_scan, tasks, procs=8, chunksize=1)
    for bad in res:
        for what, alg, kind in bad:
            ctx.violation(f"leak:{what} {alg} key={kind} private material in produced serialization", {"alg": alg, "kind": kind})
    ctx.evaluations += len(tasks) * 4
    from . import reenc
    ctx.evaluations += reenc.run(ctx, "C12")      # JweReuse.tla: the epk of every token along encrypt / edit / encrypt histories, pinned ephemeral keys
    for t in tasks:
        ctx.nontrivial.add("tok:" + t[1])
    ctx.rule = ("JwkHeap.tla: histories of two key objects built over shared caller dictionaries (build/touch/public export/key-set export), "
                "replayed on real keys with the model's predicted set of leaked members compared at every export; "
                "every public output along the replayed Jwk.tla chains (public JWK, public key set, public PEM/DER, thumbprint, kid) scanned for the key's private "
                "parameters (member names; octets raw/hex/decimal/base64/base64url at 3 alignments); tokens of all 15 JWS and 21 JWE algorithms in compact and "
                "JSON form incl. the epk header, and the epk of every token along the JweReuse.tla histories (object encrypted again, ephemeral key pinned by the caller); distinct_nontrivial = distinct chains + algorithms")
    ctx.assumptions = ["leakage through timing or through error messages is not decided", "scanning looks for parameters of at least 8 octets"]


def replay(ctx: Ctx, rec: dict) -> None:
    if rec.get("reuse"):
        from . import reenc
        return reenc.replay(ctx, rec)
    from . import c11
    c11.replay(ctx, rec)
