"""Replay of JweReuse.tla behaviours: the life of one JSON encryption object (built by the caller, or returned by decrypt_json
for a foreign token whose protected header is spelled with whitespace), encrypted, edited and encrypted again.  Every token
produced along the way is judged on its own: an independent implementation (refimpl) decrypts it to the object's current
plaintext (C08: the octets on the wire are the authenticated ones; C04: round trip, also through joserfc itself), and
successive tokens use different IVs and generated members (C18 keeps its own histories)."""
from __future__ import annotations
import json

from .common import Ctx, MachineryError
from . import joseops as J
from . import refimpl as R
from . import keys as K

CONFIGS = [("A128KW", "A128GCM"), ("A256GCMKW", "A128CBC-HS256"), ("ECDH-ES+A128KW", "A256GCM"), ("ECDH-ES", "A128GCM"), ("dir", "A256CBC-HS512"),
           ("PBES2-HS256+A128KW", "A128GCM"), ("RSA-OAEP", "A192GCM"), ("ECDH-1PU+A128KW", "A128CBC-HS256"), ("ECDH-1PU", "A256GCM"),
           ("ECDH-ES+A256KW", "A128GCM")]
CURVE = {"ECDH-ES+A256KW": "OKP:X25519"}
PT = b"plaintext that travels \x00\xff"


PT_ZIP = b"compressible plaintext that travels " * 60
PT_BIG = b"beyond the limit " * 18000          # 306,000 octets: decrypting must be refused, whatever the object went through
ZIP_CONFIGS = [("A128KW", "A128GCM"), ("dir", "A256CBC-HS512"), ("ECDH-ES+A128KW", "A256GCM")]


def replay_case(case, alg, enc, ser, nrec, zipped=None):
    """zipped: None (no zip), "small" or "big" plaintext under zip=DEF"""
    from joserfc import jwe
    from joserfc.errors import ExceededSizeError
    PT = globals()["PT"] if zipped is None else (PT_ZIP if zipped == "small" else PT_BIG)
    out = []
    J.register_drafts({"1pu"})
    rj = K.get(K.jwe_key_kind(alg, enc) if not alg.startswith("ECDH") else CURVE.get(alg, "EC:P-256"), 0)
    pub, priv = J.jkey(J.pub(rj)), J.jkey(rj)
    sj = K.get(CURVE.get(alg, "EC:P-256"), 1) if "1PU" in alg else None
    ekw = {"sender_key": J.jkey(sj)} if sj else {}
    dkw = {"sender_key": J.jkey(J.pub(sj))} if sj else {}
    reg = jwe.JWERegistry(algorithms=[alg, enc, "DEF"])
    if case["origin"] == "pinned" and not alg.startswith("ECDH"):
        return out                                    # only key agreement has an ephemeral key to pin
    if case["origin"] == "parsed" and sj:
        return out                                    # whoever parsed an ECDH-1PU token holds the sender's public key only: it cannot encrypt as the sender
    hdr0 = {"alg": alg, "enc": enc, **({"p2c": 8} if alg.startswith("PBES2") else {}), **({"zip": "DEF"} if zipped else {})}
    if zipped == "big" and case["origin"] == "parsed":
        return out                                    # a token beyond the limit cannot be parsed in the first place
    if case["origin"] in ("built", "pinned"):
        cls = jwe.FlattenedJSONEncryption if ser == "flattened" else jwe.GeneralJSONEncryption
        obj = cls(dict(hdr0), PT, None, b"aad v1")
        for _ in range(nrec if ser == "general" else 1):
            obj.add_recipient(None, pub)
        if case["origin"] == "pinned":
            for r in obj.recipients:
                r.ephemeral_key = J.fresh_jkey({**R.gen_like(rj), "kid": "pinned-ephemeral", "use": "enc"})
    else:
        # a foreign token (protected header spelled with whitespace), parsed and authenticated by decrypt_json
        spell = lambda d: json.dumps(d, separators=(" , ", " : ")).encode()
        parts = R.jwe_encrypt(dict(hdr0), PT, [{"jwk": rj, "sender": sj} for _ in range(nrec if ser == "general" else 1)], aad=b"aad v1", spell=spell)
        obj = jwe.decrypt_json(R.jwe_json(parts, flattened=(ser == "flattened")), priv, registry=reg, **dkw)
    ivs = []
    nh = na = 0
    for i, op in enumerate(case["hist"]):
        if op == "edit_header":
            nh += 1; obj.protected["cty"] = "edit-%d" % nh
        elif op == "edit_aad":
            na += 1; obj.aad = b"aad v%d" % (na + 1)
        else:
            try:
                tok = jwe.encrypt_json(obj, pub, registry=reg, **ekw)
            except Exception as e:  # noqa
                out.append(("C04", f"step {i}: encrypt_json of the object raised {type(e).__name__}", str(e)[:80])); break
            ivs.append(tok["iv"])
            # C12: whatever ephemeral key the recipient carried into this encryption, only its public members are published
            hs = [json.loads(R.b64d(tok["protected"])), tok.get("unprotected") or {}, tok.get("header") or {}] + [r.get("header") or {} for r in tok.get("recipients", [])]
            for h in hs:
                epk = h.get("epk")
                if isinstance(epk, dict) and set(epk) & {"d", "p", "q", "dp", "dq", "qi", "oth", "k"}:
                    out.append(("C12", f"step {i}: the epk header carries {sorted(set(epk) & {'d', 'p', 'q', 'dp', 'dq', 'qi', 'oth', 'k'})}", ""))
            if obj.plaintext != PT:
                out.append(("C04", f"step {i}: encrypt_json changed the caller's plaintext ({len(obj.plaintext or b'')} octets now)", ""))
            if zipped == "big":
                # C17: every token made from the over-limit plaintext is refused when consumed; an independent consumer without a limit gets it back
                try:
                    got = jwe.decrypt_json(tok, priv, registry=reg, **dkw).plaintext
                    out.append(("C17", f"step {i}: a token whose plaintext inflates beyond the limit was decrypted ({len(got)} octets returned)", ""))
                except ExceededSizeError:
                    pass
                except Exception as e:  # noqa
                    out.append(("C17", f"step {i}: over-limit token: {type(e).__name__} instead of the exceeded-size error", str(e)[:60]))
                try:
                    if R.jwe_decrypt(tok, rj, sender=J.pub(sj) if sj else None, limit=None)[1] != PT:
                        out.append(("C17", f"step {i}: the over-limit token does not carry the plaintext once compressed", ""))
                except Exception as e:  # noqa
                    out.append(("C17", f"step {i}: an independent implementation cannot decrypt the over-limit token ({type(e).__name__})", str(e)[:60]))
                continue
            try:
                hdr, pt = R.jwe_decrypt(tok, rj, sender=J.pub(sj) if sj else None)
                if pt != PT:
                    out.append(("C08", f"step {i}: an independent implementation decrypts the token to another plaintext", ""))
                if json.loads(R.b64d(tok["protected"])).get("cty") != (("edit-%d" % nh) if nh else None) and nh:
                    out.append(("C08", f"step {i}: the serialized protected header is not the object's current one", ""))
                if R.b64d(tok.get("aad", "")) != (b"aad v%d" % (na + 1)):
                    out.append(("C08", f"step {i}: the serialized aad is not the object's current one", ""))
            except Exception as e:  # noqa
                out.append(("C08", f"step {i}: an independent implementation cannot decrypt the token ({type(e).__name__})", str(e)[:60]))
            try:
                if jwe.decrypt_json(tok, priv, registry=reg, **dkw).plaintext != PT:
                    out.append(("C04", f"step {i}: joserfc decrypts its own token to another plaintext", ""))
            except Exception as e:  # noqa
                out.append(("C04", f"step {i}: joserfc cannot decrypt the token it produced ({type(e).__name__})", str(e)[:60]))
    if len(set(ivs)) != len(ivs):
        out.append(("C18", "successive encryptions of the object share an IV", ""))
    return out


def run(ctx: Ctx, prop: str) -> int:
    r = ctx.tlc("JweReuse", timeout=300)
    for d in ("StaleAuthenticatedData", "GeneratedMembersKept", "IvKept", "EphemeralPrivatePublished"):
        ctx.sensitivity("JweReuse", "JweReuse_dev_" + d)
    cases = list({json.dumps(c, sort_keys=True): c for c in r.cases}.values())
    if len(cases) < 20:
        raise MachineryError(f"JweReuse export too small: {len(cases)}")
    n = 0
    plan = [(a, e, None) for a, e in CONFIGS] if prop != "C17" else []
    plan += [(a, e, "small") for a, e in ZIP_CONFIGS] if prop in ("C04", "C08") else []
    plan += [(a, e, "big") for a, e in ZIP_CONFIGS[:2]] if prop == "C17" else []
    for alg, enc, zipped in plan:
        for ser, nrec in (("flattened", 1), ("general", 1), ("general", 2)):
            if nrec == 2 and alg in ("dir", "ECDH-ES", "ECDH-1PU"):
                continue
            for c in cases:
                n += 1
                ctx.nontrivial.add(f"reuse:{alg}:{zipped}:{ser}{nrec}:" + json.dumps(c, sort_keys=True))
                for p, what, detail in replay_case(c, alg, enc, ser, nrec, zipped):
                    if p != prop:
                        continue
                    ctx.violation(f"reuse:{what.split(': ', 1)[-1]} [{alg} {enc}{' zip=DEF' if zipped else ''} {ser} x{nrec}] origin={c['origin']} history=[{' '.join(c['hist'])}]",
                                  {"case": c, "alg": alg, "enc": enc, "ser": ser, "nrec": nrec, "zipped": zipped, "what": what, "detail": detail, "reuse": True})
    ctx.notes["reuse_histories"] = {"model_histories": len(cases), "replays": n}
    return n


def replay(ctx: Ctx, rec: dict) -> None:
    out = replay_case(rec["case"], rec["alg"], rec["enc"], rec["ser"], rec["nrec"], rec.get("zipped"))
    print(json.dumps(rec["case"]), "->", out)
    if any(p == ctx.prop for p, *_ in out):
        ctx.violation(rec["signature"], {"now": out})
