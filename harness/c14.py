"""C14 - key sets resolve exactly the key named by kid.

Spec: spec/KeySel.tla.  TLC enumerates every scenario (key set of 1..3 distinct slots of mixed key types, algorithm,
kid selector absent/unknown/i-th key, kid position, serialization, set passed directly or through a callable, explicit
or thumbprint kids, operation, signer) and checks guess_key's shape (kid lookup, single-key shortcut, type-filtered
random pick - nondeterministic in the spec - and kid write-back) against the statement.  Binding B1: each scenario
is executed on the real library; the kid found in the produced token must belong to one of the candidates TLC
computed and sit in the position the spec names, the token must verify under refimpl with that candidate's public
key and under joserfc with the public key set; consume-side tokens are forged by refimpl.
"""
from __future__ import annotations
import json
import random

from .common import Ctx, MachineryError, pmap
from . import joseops as J
from . import refimpl as R
from . import keys as K

SLOT = {"jws": {"o": ("oct256", 0), "r": ("RSA2048", 0), "e1": ("EC:P-256", 0), "e2": ("EC:P-256", 1), "d": ("OKP:Ed25519", 0)},
        "jwe": {"o": ("oct128", 0), "r": ("RSA2048", 0), "e1": ("EC:P-256", 0), "e2": ("EC:P-256", 1), "x": ("OKP:X25519", 0)}}
JWE_ENC = "A128GCM"


def side_of(s) -> str:
    return "jws" if s["alg"] in ("HS256", "RS256", "ES256", "EdDSA") else "jwe"


def slot_jwk(side, slot, kids, first=False) -> dict:
    jwk = K.get(*SLOT[side][slot])
    if kids == "explicit":
        jwk["kid"] = "kid-" + slot
    elif kids == "empty":                       # explicit kids one of which is the empty string (a kid is any string)
        jwk["kid"] = "" if first else "kid-" + slot
    return jwk


def kid_of(jwk) -> str:
    return jwk["kid"] if "kid" in jwk else R.thumbprint(jwk)


def make_set(jwks, private: bool):
    from joserfc.jwk import KeySet
    ks = [dict(j) if (private or j["kty"] == "oct") else R.public_jwk(j) for j in jwks]
    return KeySet.import_key_set({"keys": json.loads(json.dumps(ks))})


def find_kid(side, ser, tok):
    """-> (position, kid) of the kid member of a produced token, or (None, None)"""
    if ser in ("compact", "7797compact"):
        h = json.loads(R.b64d(tok.split(".")[0]))
        return ("protected", h["kid"]) if "kid" in h else (None, None)
    prot = json.loads(R.b64d(tok["protected"])) if "protected" in tok else {}
    if side == "jws":
        m = tok["signatures"][0] if "signatures" in tok else tok
        prot = json.loads(R.b64d(m["protected"])) if "protected" in m else {}
        if "kid" in m.get("header", {}): return "unprotected", m["header"]["kid"]
        if "kid" in prot: return "protected", prot["kid"]
        return None, None
    r = tok["recipients"][0] if "recipients" in tok else tok
    if "kid" in r.get("header", {}): return "recipient", r["header"]["kid"]
    if "kid" in tok.get("unprotected", {}): return "unprotected", tok["unprotected"]["kid"]
    if "kid" in prot: return "protected", prot["kid"]
    return None, None


def run_scn(args):
    """-> dict(outcome=..., detail=...)"""
    from joserfc.errors import InvalidKeyIdError
    s, rep = args
    side = side_of(s)
    jwks = [slot_jwk(side, sl, s["kids"], sl == min(s["set"])) for sl in s["set"]]
    kids = [kid_of(j) for j in jwks]
    sel = s["kid"]
    # "unknown": a string that is no key's kid - an arbitrary one, or (when the kids are the application's own) the RFC 7638
    # thumbprint of a key of the set, under which that key is NOT registered
    unknown = R.thumbprint(jwks[0]) if (s["kids"] in ("explicit", "empty") and (len(s["set"]) + len(s["alg"]) + len(s["ser"])) % 2 == 0) else "no-such-kid"
    hk = None if sel == "absent" else (unknown if sel == "unknown" else kids[int(sel) - 1])
    alg, ser = s["alg"], s["ser"]
    payload = b"key-set payload \x00\xff"
    try:
        if s["op"] == "produce":
            ks = make_set(jwks, private=(side == "jws"))
            arg = (lambda obj: ks) if s["how"] == "callable" else ks
            prot = {"alg": alg}
            if side == "jwe":
                prot["enc"] = JWE_ENC
            if ser.startswith("7797"):
                prot.update({"b64": False, "crit": ["b64"]}); payload = b"key-set_payload_7797"
            unprot = {}
            if hk is not None:
                (prot if s["pos"] == "protected" else unprot)["kid"] = hk
            if side == "jws":
                from joserfc import jws, rfc7797
                if ser == "compact":
                    tok = jws.serialize_compact(prot, payload, arg, algorithms=[alg])
                elif ser == "7797compact":
                    tok = rfc7797.serialize_compact(prot, payload, arg, algorithms=[alg])
                elif ser == "7797json":
                    m = {"protected": prot}
                    if unprot:
                        m["header"] = unprot
                    tok = rfc7797.serialize_json(m, payload, arg, algorithms=[alg])
                else:
                    m = {"protected": prot}
                    if unprot:
                        m["header"] = unprot
                    tok = jws.serialize_json(m if ser == "flattened" else [m], payload, arg, algorithms=[alg])
            else:
                from joserfc import jwe
                if ser == "compact":
                    tok = jwe.encrypt_compact(prot, payload, arg, algorithms=[alg, JWE_ENC])
                else:
                    cls = jwe.FlattenedJSONEncryption if ser == "flattened" else jwe.GeneralJSONEncryption
                    obj = cls(prot, payload, unprot or None)
                    obj.add_recipient(None)
                    tok = jwe.encrypt_json(obj, arg, algorithms=[alg, JWE_ENC])
            pos, kid = find_kid(side, ser, tok)
            d = {"kid_pos": pos, "kid": kid, "chosen": (kids.index(kid) + 1) if kid in kids else 0}
            # the produced token must verify/decrypt with the chosen key alone (independent implementation) ...
            if d["chosen"]:
                cj = jwks[d["chosen"] - 1]
                try:
                    if side == "jws":
                        if ser in ("compact", "7797compact"):
                            _, body = R.jws_verify_compact(tok, J.pub(cj))
                        else:
                            _, body = R.jws_verify_json(tok, [J.pub(cj)])
                    else:
                        _, body = R.jwe_decrypt(tok, cj)
                    d["ref_ok"] = body == payload
                except Exception as e:  # noqa
                    d["ref_ok"] = False; d["ref_err"] = repr(e)[:100]
            # ... and with the matching key set in joserfc
            ks2 = make_set(jwks, private=(side == "jwe"))
            try:
                got = J.jws_consume(ser, tok, ks2, algorithms=[alg]) if side == "jws" else J.jwe_consume(ser, tok, ks2, algorithms=[alg, JWE_ENC])
                d["loop_ok"] = got == payload
            except Exception as e:  # noqa
                d["loop_ok"] = False; d["loop_err"] = repr(e)[:100]
            return {"outcome": "ok", **d}
        # ---- consume
        sj = jwks[s["signer"] - 1]
        prot = {"alg": alg}
        if side == "jwe":
            prot["enc"] = JWE_ENC
        b64 = not ser.startswith("7797")
        if not b64:
            prot.update({"b64": False, "crit": ["b64"]}); payload = b"key-set_payload_7797"
        unprot = {}
        if hk is not None:
            (prot if s["pos"] == "protected" else unprot)["kid"] = hk
        ks = make_set(jwks, private=(side == "jwe"))
        arg = (lambda obj: ks) if s["how"] == "callable" else ks
        if side == "jws":
            oct_ = R.jdump(prot)
            if ser in ("compact", "7797compact"): tok = R.jws_compact(oct_, payload, alg, sj, b64=b64)
            elif ser in ("flattened", "7797json"): tok = R.jws_flattened(oct_, unprot or None, payload, alg, sj, b64=b64)
            else: tok = R.jws_general([(oct_, unprot or None, alg, sj)], payload)
            got = J.jws_consume(ser, tok, arg, algorithms=[alg])
        else:
            parts = R.jwe_encrypt(prot, payload, [{"jwk": sj, "where": "protected"}], unprotected=unprot or None)
            tok = R.jwe_compact(parts) if ser == "compact" else R.jwe_json(parts, flattened=(ser == "flattened"))
            got = J.jwe_consume(ser, tok, arg, algorithms=[alg, JWE_ENC])
        return {"outcome": "ok" if got == payload else "fail:content"}
    except InvalidKeyIdError:
        return {"outcome": "invalid_key_id"}
    except BaseException as e:  # noqa
        if isinstance(e, (KeyboardInterrupt, SystemExit)):
            raise
        return {"outcome": "fail:" + type(e).__name__, "err": str(e)[:100]}


def sig(s, what) -> str:
    return (f"keysel:{side_of(s)}.{s['op']}.{s['ser']} alg={s['alg']} set={'+'.join(s['set'])} kid={s['kid']}@{s['pos']} "
            f"how={s['how']} kids={s['kids']} signer={s['signer']} -> {what}")


def set_roundtrip(ctx: Ctx, sets) -> int:
    """importing a key set and exporting it preserves every key, and every key has a kid (the thumbprint when none given)"""
    from joserfc.jwk import KeySet
    n = 0
    for side, slots, kids in sets:
        jwks = [slot_jwk(side, sl, kids) for sl in slots]
        n += 1
        try:
            ks = KeySet.import_key_set({"keys": json.loads(json.dumps(jwks))})
            out = ks.as_dict(private=True)["keys"]
        except Exception as e:  # noqa
            ctx.violation(f"keysel:set-roundtrip {side} {'+'.join(slots)} {kids} raised {type(e).__name__}", {"slots": slots})
            continue
        ok = len(out) == len(jwks)
        for given, o in zip(jwks, out):
            exp = dict(given); exp.setdefault("kid", R.thumbprint(given))
            ok = ok and o == exp
        if not ok:
            ctx.violation(f"keysel:set-roundtrip {side} {'+'.join(slots)} {kids} differs", {"given": jwks, "exported": out})
        ctx.nontrivial.add(f"rt:{side}:{slots}:{kids}")
    return n


def history_batch(args):
    """KeySetHistory.tla behaviours on a real KeySet: materials 1..6 are six different EC P-256 keys; a lookup is exercised through
    get_by_kid, through verification of a token signed by the material the spec expects, and through signing with that kid"""
    hists, seed = args
    from joserfc import jws
    from joserfc.jwk import KeySet
    from joserfc.errors import InvalidKeyIdError
    mats = {}

    def mat(m):
        if m not in mats:
            mats[m] = K.get("EC:P-256", m - 1) if m <= 2 else R.gen_like(K.get("EC:P-256"))
        return mats[m]
    out = []
    n = 0
    for hi, h in enumerate(hists):
        init = h[0].get("set") if h[0]["op"] == "lookup" else None
        # reconstruct the initial set: replay the mutations backwards is unnecessary - the spec's Init is keys a,b,c with materials 1,2,3
        first_lookup_set = next((s["set"] for s in h if s["op"] == "lookup"), None)
        nkeys = None
        # initial size: the number of keys before any mutation = recorded in the first step's set if it is a lookup, else derive by simulation
        size = None
        for cand in (1, 2, 3):
            keys = [{"kid": "abc"[i], "mat": i + 1} for i in range(cand)]
            ok = True
            for st in h:
                if st["op"] in ("lookup", "pick"):
                    if st["set"] != keys: ok = False; break
                elif st["op"] == "remove":
                    if st["i"] > len(keys): ok = False; break
                    keys = keys[:st["i"] - 1] + keys[st["i"]:]
                elif st["op"] == "replace":
                    if st["i"] > len(keys): ok = False; break
                    keys = [dict(k) for k in keys]; keys[st["i"] - 1]["mat"] = st["mat"]
                elif st["op"] == "append":
                    keys = keys + [{"kid": st["kid"], "mat": st["mat"]}]
            if ok:
                size = cand; break
        if size is None:
            out.append((hi, "machinery: cannot reconstruct initial set")); continue
        ks = KeySet([J.fresh_jkey({**mat(i + 1), "kid": "abc"[i]}) for i in range(size)])
        pubs = lambda m: J.pub(mat(m))
        for si, st in enumerate(h):
            n += 1
            try:
                if st["op"] == "remove":
                    del ks.keys[st["i"] - 1]
                elif st["op"] == "replace":
                    old = ks.keys[st["i"] - 1]
                    ks.keys[st["i"] - 1] = J.fresh_jkey({**mat(st["mat"]), "kid": old.kid})
                elif st["op"] == "append":
                    ks.keys.append(J.fresh_jkey({**mat(st["mat"]), "kid": st["kid"]}))
                elif st["op"] == "pick":
                    # producing without a kid: whichever key is picked, it is one the set holds now (named by its kid, signed by its material)
                    now = {k["kid"]: k["mat"] for k in st["set"]}
                    bad = None
                    for rep in range(8):
                        if rep % 2:
                            t3 = jws.serialize_compact({"alg": "ES256"}, b"r", ks, algorithms=["ES256"])
                            hd = json.loads(R.b64d(t3.split(".")[0]))
                        else:
                            j3 = jws.serialize_json({"protected": {"alg": "ES256"}}, b"r", ks, algorithms=["ES256"])
                            hd = {**json.loads(R.b64d(j3["protected"])), **j3.get("header", {})}
                            t3 = j3["protected"] + "." + j3["payload"] + "." + j3["signature"]
                        kid3 = hd.get("kid")
                        if kid3 not in now:
                            bad = f"a token produced without kid names kid {kid3!r}, the set now holds {sorted(now)}"; break
                        try:
                            R.jws_verify_compact(t3, pubs(now[kid3]))
                        except Exception:  # noqa
                            bad = f"a token produced without kid (named {kid3}) is not signed by the key the set now holds under that kid"; break
                    if bad:
                        out.append((hi, f"step {si + 1}: {bad}")); break
                else:
                    kid, want = st["kid"], st["want"]
                    try:
                        got = ks.get_by_kid(kid)
                        gm = next((m for m in mats if R.public_jwk(mats[m])["x"] == got.as_dict()["x"]), -1)
                    except InvalidKeyIdError:
                        gm = 0
                    if gm != want:
                        out.append((hi, f"step {si + 1}: get_by_kid({kid}) resolved material {gm}, the set now holds {want or 'no such key'}")); break
                    # consuming a token that names kid
                    signer = mat(want) if want else mat(1)
                    tok = R.jws_compact(R.jdump({"alg": "ES256", "kid": kid}), b"p", "ES256", signer)
                    try:
                        jws.deserialize_compact(tok, ks, algorithms=["ES256"]); res = "ok"
                    except InvalidKeyIdError:
                        res = "invalid_key_id"
                    except Exception as e:  # noqa
                        res = "fail:" + type(e).__name__
                    if res != ("ok" if want else "invalid_key_id"):
                        out.append((hi, f"step {si + 1}: verification with kid {kid} gave {res}, the set now holds {want or 'no such key'}")); break
                    if want:
                        t2 = jws.serialize_compact({"alg": "ES256", "kid": kid}, b"q", ks, algorithms=["ES256"])
                        try:
                            R.jws_verify_compact(t2, pubs(want))
                        except Exception:  # noqa
                            out.append((hi, f"step {si + 1}: signing with kid {kid} did not use the key the set now holds")); break
            except Exception as e:  # noqa
                out.append((hi, f"step {si + 1}: {st['op']} raised {type(e).__name__}")); break
    return out, n


def run(ctx: Ctx) -> None:
    thorough = ctx.tier == "thorough"
    rnd = random.Random(ctx.seed)
    # every row of the pick table (PickTable.tla): one process per history, forked before this process touches the library
    from .common import FreshPool
    from . import picktable
    with FreshPool() as fresh:
        ctx.evaluations += picktable.run(ctx, "C14", fresh)
    from . import jwkheap
    jwkheap.run(ctx, "C14")             # kids of keys built over shared caller dictionaries (JwkHeap.tla)
    rs = ctx.tlc_many([("KeySel", "KeySel_jws", {"timeout": 900}), ("KeySel", "KeySel_jwe", {"timeout": 900})])
    ctx.tlc_many([("KeySel", "KeySel_dev_" + d, {"timeout": 600, "expect_violation": True})
                  for d in ("FallbackFirstKey", "UnprotectedKidIgnored", "PickAnyType", "ShortcutAnySize", "KidNotRecorded")])
    cases = []
    for r in rs:
        seen = set()
        for c in r.cases:
            k = json.dumps(c["s"], sort_keys=True)
            if k not in seen:
                seen.add(k); cases.append(c)
    if len(cases) < 80000:
        raise MachineryError(f"scenario export too small: {len(cases)}")
    total = len(cases)
    if not thorough:
        cases = [c for c in cases if rnd.random() < 0.25]
    reps = 6 if thorough else 3
    items, owner = [], []
    for i, c in enumerate(cases):
        n = reps if (c["s"]["op"] == "produce" and c["s"]["kid"] == "absent" and len(c["candidates"]) > 1) else 1
        for r in range(n):
            items.append((c["s"], r)); owner.append(i)
    obs = pmap(run_scn, items, chunksize=100)
    picked: dict = {}
    for (s, _), i, o in zip(items, owner, obs):
        c = cases[i]
        ctx.evaluations += 1
        kind = o["outcome"].split(":")[0]
        if kind not in c["allowed"]:
            ctx.violation(sig(s, kind), {"scenario": s, "allowed": c["allowed"], "observed": o})
            continue
        if kind == "ok" and s["op"] == "produce":
            if o["chosen"] not in c["candidates"]:
                ctx.violation(sig(s, f"kid of key {o['chosen']} not a candidate"), {"scenario": s, "candidates": c["candidates"], "observed": o})
            elif s["kid"] == "absent" and o["kid_pos"] != c["writeback"]:
                ctx.violation(sig(s, f"kid recorded at {o['kid_pos']}"), {"scenario": s, "expected_pos": c["writeback"], "observed": o})
            elif not o.get("ref_ok"):
                ctx.violation(sig(s, "token does not verify with the chosen key"), {"scenario": s, "observed": o})
            elif not o.get("loop_ok"):
                ctx.violation(sig(s, "token not accepted by the matching key set"), {"scenario": s, "observed": o})
            picked.setdefault(i, set()).add(o["chosen"])
        ctx.nontrivial.add(json.dumps(s, sort_keys=True))
    from .common import _pool_init
    _pool_init()
    sets = sorted({(side_of(c["s"]), tuple(c["s"]["set"]), c["s"]["kids"]) for c in cases})
    ctx.evaluations += set_roundtrip(ctx, sets)
    multi = [i for i, c in enumerate(cases) if c["s"]["op"] == "produce" and c["s"]["kid"] == "absent" and len(c["candidates"]) > 1]
    ctx.notes.update(abstract_scenarios_total=total, random_pick_scenarios=len(multi),
                     random_pick_scenarios_with_more_than_one_key_seen=sum(1 for i in multi if len(picked.get(i, ())) > 1))
    rh = ctx.tlc("KeySetHistory", timeout=300)
    ctx.sensitivity("KeySetHistory", "KeySetHistory_dev_MemoisedLookup")
    ctx.sensitivity("KeySetHistory", "KeySetHistory_dev_FirstKeyFallback")
    hs = list({json.dumps(h, sort_keys=True): h for h in rh.cases}.values())
    if len(hs) < 5000:
        raise MachineryError("KeySetHistory export too small")
    ctx.sensitivity("KeySetHistory", "KeySetHistory_dev_MemoisedPick")
    if not thorough:
        twice = [h for h in hs if sum(st["op"] == "pick" for st in h) >= 2]      # pick ... mutation ... pick: kept whole
        rest = [h for h in hs if sum(st["op"] == "pick" for st in h) < 2]
        hs = twice + rnd.sample(rest, 2500)
    ctx.notes["keyset_histories_with_two_picks"] = sum(1 for h in hs if sum(st["op"] == "pick" for st in h) >= 2)
    hres = pmap(history_batch, [(hs[i::16], ctx.seed) for i in range(16)], chunksize=1)
    for k, (bad, n) in enumerate(hres):
        ctx.evaluations += n
        for hi, what in bad:
            if what.startswith("machinery"):
                raise MachineryError(what)
            h = hs[k::16][hi]
            ops = ";".join(f"{st['op']}({st.get('kid', st.get('i', ''))})" for st in h)
            ctx.violation(f"keyset-history:[{ops}] -> {what.split(':', 1)[1].strip()[:70]}", {"history": h, "problem": what})
    ctx.notes["keyset_histories"] = len(hs)
    ctx.traces = len(cases) + len(hs)
    ctx.exhaustive = thorough
    ctx.rule = ("TLC enumerates scenarios over key sets of 1..3 distinct slots (oct, RSA, two EC, OKP), 4 algorithms per side, kid selector, position, "
                "serialization, set/callable, explicit/thumbprint kids, operation and signer; each scenario = one behaviour of guess_key (resolve, use) "
                "replayed on the real library, random picks repeated; distinct_nontrivial = distinct scenarios executed")
    for i in (7, 5001, 9001):
        ctx.sample(cases[i % len(cases)])
    ctx.assumptions = ["sets mixing curves of one key type (P-256 with P-384, Ed25519 with X25519) are not generated: the pick is by key type only",
                       "empty-string kid is not generated (treated as absent by the code)"]


def replay(ctx: Ctx, rec: dict) -> None:
    from .common import _pool_init
    _pool_init()
    if rec.get("heap"):
        from . import jwkheap
        return jwkheap.replay(ctx, rec)
    if "pick_history" in rec:
        from . import picktable
        return picktable.replay(ctx, rec)
    o = run_scn((rec["scenario"], 0))
    print(json.dumps(rec["scenario"]), "\nobserved now:", o)
    if o["outcome"].split(":")[0] not in rec.get("allowed", [o["outcome"].split(":")[0]]) or "->" in rec["signature"] and o.get("ref_ok") is False:
        ctx.violation(rec["signature"], {"scenario": rec["scenario"], "observed": o})
