"""Replay of JwkHeap.tla behaviours: two key objects built over caller-owned parameter dictionaries that may be shared
(build / first use / ensure_kid / public export / key-set export).  Findings are tagged with the property they belong to:
  C12  a public export carries private-named members or private octets of any key of the process
  C11  the as-held JWK of a key cannot be imported again / is not the key's own material
  C13  an automatically assigned kid is not the RFC 7638 thumbprint of the key itself
  C14  a key set does not resolve a member's kid to that member"""
from __future__ import annotations
import json
import random

from .common import Ctx, MachineryError, pmap
from . import jwkchains, refimpl as R, keys as K

HEAP_KIND = {"rsa_priv": ("RSA1024", True), "ec_priv": ("EC:P-256", True), "ec_pub": ("EC:P-384", False), "okp_pub": ("OKP:Ed25519", False),
             "oct": ("oct256", True)}
ALL_PRIVATE_NAMES = {"d", "p", "q", "dp", "dq", "qi", "oth", "k"}
_BYTES: dict = {}


def _key_bytes(kind, idx, src, priv):
    from cryptography.hazmat.primitives import serialization as S
    if (kind, idx, src, priv) not in _BYTES:
        native = R.jwk_to_native(K.get(kind, idx), True)
        enc = S.Encoding.PEM if src == "pem" else S.Encoding.DER
        _BYTES[(kind, idx, src, priv)] = (native.private_bytes(enc, S.PrivateFormat.PKCS8, S.NoEncryption()) if priv
                                          else native.public_key().public_bytes(enc, S.PublicFormat.SubjectPublicKeyInfo))
    return _BYTES[(kind, idx, src, priv)]


def heap_replay(hist):
    """-> (failures [(property, what)], caller dictionaries modified)"""
    from joserfc.jwk import JWKRegistry, KeySet
    objs = {"P": {"use": "sig"}, "Q": {"x5t": "dGh1bWI", "alg": "custom-alg"}, "none": None}
    keep = json.loads(json.dumps(objs))
    keys, jwks, privs, fails = {}, {}, {}, []
    needles = []

    def judge_public(st, i, outs):
        names = set()
        for o in outs:
            if isinstance(o, dict):
                for d in (o["keys"] if "keys" in o else [o]):
                    names |= set(d) & ALL_PRIVATE_NAMES
            if jwkchains.scan(o, needles):
                fails.append(("C12", f"step {i} {st['op']}({st['k']}): private octets of a key of this process in a public output"))
        if names != {n for _, n in st["out"]}:
            fails.append(("C12", f"step {i} {st['op']}({st['k']}): private-named members {sorted(names)} in a public export"))

    def judge_kid(st, i, k, kid):
        own = R.thumbprint(jwks[k])
        want = st["kids"][k]
        if want == k and kid != own:
            fails.append(("C13", f"step {i} {st['op']}({st['k']}): kid of key {k} is not the thumbprint of that key"))
        elif want == "none" and kid is not None:
            fails.append(("C13", f"step {i} {st['op']}({st['k']}): key {k} shows a kid nobody assigned to it"))

    def judge_asheld(st, i, k):
        """C11: the JWK a key shows (as held) is that key: importable, same public numbers, private members only its own"""
        d = keys[k].as_dict()
        jwk, priv = jwks[k], privs[k]
        want = dict(jwk) if priv else R.public_jwk(jwk)
        core = {m: v for m, v in d.items() if m in ("kty", "crv", "x", "y", "d", "n", "e", "p", "q", "dp", "dq", "qi", "k")}
        if core != want:
            fails.append(("C11", f"step {i} {st['op']}({k}): the key's JWK carries material that is not its own (members {sorted(set(core) ^ set(want)) or 'differ'})"))
            return
        try:
            JWKRegistry.import_key(json.loads(json.dumps({m: v for m, v in d.items() if m != "alg"})))
        except Exception as e:  # noqa
            fails.append(("C11", f"step {i} {st['op']}({k}): exported JWK cannot be imported again ({type(e).__name__})"))

    for i, st in enumerate(hist):
        k = st["k"]
        try:
            if st["op"] == "build":
                kind, priv = HEAP_KIND[st["kind"]]
                if kind == "RSA1024" and k == "b":
                    kind = "RSA2048"                  # (the pool holds one 1024-bit key; the two keys of a history must differ)
                jwk = K.get(kind, 0 if k == "a" else 1)
                jwks[k], privs[k] = jwk, priv
                if priv and jwk["kty"] != "oct":
                    needles.extend(jwkchains.secret_needles(jwk))
                form = dict(jwk) if priv else R.public_jwk(jwk)
                if st["src"] == "jwk":
                    keys[k] = JWKRegistry.import_key(form, parameters=objs[st["params"]])
                else:
                    keys[k] = JWKRegistry.import_key(_key_bytes(kind, 0 if k == "a" else 1, st["src"], priv), jwk["kty"], objs[st["params"]])
            elif st["op"] == "touch":
                judge_kid(st, i, k, keys[k].kid)                   # first use of the JWK view
            elif st["op"] == "ensure_kid":
                keys[k].ensure_kid()
                judge_kid(st, i, k, keys[k].kid)
            elif st["op"] == "public_export":
                pub = keys[k].as_dict(private=False)
                outs = [pub]
                if jwks[k]["kty"] != "oct":
                    outs += [keys[k].as_pem(private=False), keys[k].as_der(private=False)]
                judge_public(st, i, outs)
                judge_kid(st, i, k, pub.get("kid"))
                judge_asheld(st, i, k)
            elif st["op"] == "set_public_export":
                ks = KeySet([keys["a"], keys["b"]])
                out = ks.as_dict(private=False)
                judge_public(st, i, [out])
                for x, d in zip(("a", "b"), out["keys"]):
                    judge_kid(st, i, x, d.get("kid"))
                    try:
                        if ks.get_by_kid(keys[x].kid) is not keys[x]:
                            fails.append(("C14", f"step {i} key set resolves the kid of key {x} to another key"))
                    except Exception as e:  # noqa
                        fails.append(("C14", f"step {i} key set cannot resolve the kid of key {x} ({type(e).__name__})"))
        except Exception as e:  # noqa
            fails.append(("*", f"step {i} {st['op']}({k}) raised {type(e).__name__}: {str(e)[:60]}"))
            break
    drift = [n for n in ("P", "Q") if objs[n] != keep[n]]
    return fails, drift


def _shares(h):
    """two keys built over the same caller dictionary, a lazily built view among them, and an export / kid assignment"""
    b = [s for s in h if s["op"] == "build"]
    return (len(b) == 2 and b[0]["params"] == b[1]["params"] != "none" and any(s["src"] != "jwk" for s in b)
            and any(s["op"].endswith("export") or s["op"] == "ensure_kid" for s in h))


def heap_chunk(args):
    """parse the exported behaviours of this chunk, pick a seeded sample (sharing histories with probability ps, others pr)
    and replay the picked ones -> (replays with findings or drift, #replayed, #sharing seen)"""
    import zlib
    from .common import parse_case_line
    lines, ps, pr, seed = args
    out, n, nshare = [], 0, 0
    for line in lines:
        h = parse_case_line(line)["hist"]
        sh = _shares(h)
        nshare += sh
        u = (zlib.crc32(line.encode()) ^ (seed * 2654435761)) % 100000 / 100000.0
        if u >= (ps if sh else pr):
            continue
        n += 1
        fails, drift = heap_replay(h)
        if fails or drift:
            out.append((h, fails, drift))
    return out, n, nshare


def run(ctx: Ctx, prop: str):
    thorough = ctx.tier == "thorough"
    r = ctx.tlc("JwkHeap", "JwkHeap" if thorough else "JwkHeap_quick", timeout=1200, lazy_cases=True)
    for d in ("ViewBuiltInCallerDict", "ParamsWrittenBack", "KidWrittenToParams"):
        ctx.sensitivity("JwkHeap", "JwkHeap_dev_" + d)
    lines = sorted(set(r.case_lines))
    if len(lines) < 20000:
        raise MachineryError(f"JwkHeap export too small: {len(lines)}")
    # (C12 owns the heap model; the others re-use it with a smaller sample.)  About a fifth of the behaviours share a dictionary.
    ps, pr = (1.0, 0.2) if thorough else ((0.19, 0.015) if prop == "C12" else (0.08, 0.004))
    res = pmap(heap_chunk, [(lines[i::64], ps, pr, ctx.seed) for i in range(64)], chunksize=1)
    nrep = nshare = 0
    for out, n, ns in res:
        nrep += n; nshare += ns
        ctx.evaluations += n
        for h, fails, drift in out:
            for p, what in fails:
                if p not in (prop, "*"):
                    continue
                ops = " ".join(f"{s['op']}({s['k']}" + (f":{s['kind']},{s['src']},{s['params']}" if s["op"] == "build" else "") + ")" for s in h)
                ctx.violation(f"heap:{what.split(': ', 1)[-1]} history=[{ops}]", {"hist": h, "what": what, "heap": True})
            if drift:
                ctx.note_drift({"hist": h, "caller_dictionaries_modified": drift})
    if nrep < 1000:
        raise MachineryError(f"only {nrep} heap behaviours replayed")
    ctx.nontrivial.add(f"heap:{nrep} behaviours")
    ctx.notes["heap_histories"] = {"exported": len(lines), "sharing": nshare, "replayed": nrep}


def replay(ctx: Ctx, rec: dict) -> None:
    fails, drift = heap_replay(rec["hist"])
    print(json.dumps(rec["hist"])[:800], "\n->", fails, drift)
    if any(p in (ctx.prop, "*") for p, _ in fails):
        ctx.violation(rec["signature"], {"now": fails})
