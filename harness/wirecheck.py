"""Translation validation of harness/refimpl.py against spec/Wire.tla (binding B3).

Seeded concrete inputs are written to a JSON file, TLC evaluates the Wire.tla operators on them (WireEval.tla) and every
layout function of refimpl must return exactly TLC's octets.  Returns (points compared, list of mismatches)."""
from __future__ import annotations
import json
import random

from .common import Ctx, MachineryError
from . import refimpl as R


def L(b: bytes) -> list[int]:
    return list(b)


def rb(rnd, n):
    return bytes(rnd.randrange(256) for _ in range(n))


def validate(ctx: Ctx, n: int = 12) -> tuple[int, list]:
    rnd = random.Random(ctx.seed + 77)
    I: dict = {k: [] for k in ("si", "cj", "rs", "aad", "al", "macin", "split", "oi", "kdf", "salt", "ce", "ecc", "rsai", "th")}
    E: dict = {k: [] for k in I}
    for _ in range(n):
        h = json.dumps({"alg": rnd.choice(R.JWS_ALGS), "x": "é" * rnd.randrange(3)}, ensure_ascii=False).encode()
        p = rb(rnd, rnd.choice([0, 1, 2, 3, 17, 64]))
        for b64 in (True, False):
            I["si"].append({"h": L(h), "p": L(p), "b64": b64}); E["si"].append(R.signing_input(R.b64e(h), p, b64))
            s = rb(rnd, rnd.choice([0, 32, 64]))
            det = rnd.random() < .3
            I["cj"].append({"h": L(h), "p": L(p), "s": L(s), "b64": b64, "det": det})
            seg = R.b64e(h)
            E["cj"].append(seg + b"." + (b"" if det else (R.b64e(p) if b64 else p)) + b"." + R.b64e(s))
        w = rnd.choice([32, 48, 66])
        r = rnd.getrandbits(8 * w - rnd.choice([0, 0, 8, 16, 9])); s_ = rnd.getrandbits(8 * w - rnd.choice([0, 8, 1]))
        I["rs"].append({"r": L(R.i2o(r)), "s": L(R.i2o(s_)), "w": w}); E["rs"].append(R.ecdsa_rs(r, s_, w))
        seg = R.b64e(rb(rnd, rnd.randrange(1, 60)))
        aad = rb(rnd, rnd.randrange(0, 40)); has = rnd.random() < .6 and len(aad) > 0
        I["aad"].append({"seg": L(seg), "aad": L(aad), "has": has}); E["aad"].append(R.aad_of(seg, aad if has else None))
        a = rb(rnd, rnd.choice([0, 1, 31, 32, 200]))
        I["al"].append({"aad": L(a)}); E["al"].append(R.al(a))
        iv, ct = rb(rnd, 16), rb(rnd, rnd.choice([16, 32, 48]))
        I["macin"].append({"aad": L(a), "iv": L(iv), "ct": L(ct)}); E["macin"].append(R.cbc_hs_mac_input(a, iv, ct))
        kl = rnd.choice([16, 24, 32]); cek = rb(rnd, 2 * kl)
        I["split"].append({"cek": L(cek), "kl": kl})
        mk, ek = R.cbc_hs_split(cek, kl)
        E["split"].append({"mac": mk, "enc": ek, "tag": cek[:kl]})
        alg = rnd.choice(["A128GCM", "ECDH-ES+A128KW", "ECDH-1PU+A256KW", "XC20P"]).encode()
        apu, apv, tag = rb(rnd, rnd.choice([0, 5, 16])), rb(rnd, rnd.choice([0, 3, 32])), rb(rnd, rnd.choice([16, 24, 32]))
        bits = rnd.choice([128, 192, 256, 384, 512]); hast = rnd.random() < .5
        oi = R.other_info(alg, apu, apv, bits, tag if hast else None)
        I["oi"].append({"alg": L(alg), "apu": L(apu), "apv": L(apv), "bits": bits, "tag": L(tag), "has": hast}); E["oi"].append(oi)
        z = rb(rnd, rnd.choice([32, 56, 64, 66])); i = rnd.choice([1, 2, 3])
        I["kdf"].append({"i": i, "z": L(z), "oi": L(oi)}); E["kdf"].append(R.concat_kdf_round_input(i, z, oi))
        palg = rnd.choice(["PBES2-HS256+A128KW", "PBES2-HS384+A192KW", "PBES2-HS512+A256KW"]); p2s = rb(rnd, rnd.choice([8, 16, 33]))
        I["salt"].append({"alg": L(palg.encode()), "p2s": L(p2s)}); E["salt"].append(R.pbes2_salt(palg, p2s))
        ekb, tg = rb(rnd, rnd.choice([0, 24, 40])), rb(rnd, 16)
        I["ce"].append({"seg": L(seg), "ek": L(ekb), "iv": L(iv), "ct": L(ct), "tag": L(tg)})
        E["ce"].append(b".".join([seg, R.b64e(ekb), R.b64e(iv), R.b64e(ct), R.b64e(tg)]))
        num = rnd.getrandbits(8 * w - rnd.choice([0, 8, 16, 3]))
        I["ecc"].append({"n": L(R.i2o(num)), "w": w}); E["ecc"].append(R.b64e(R.i2o(num, w)))
        big = rnd.getrandbits(rnd.choice([17, 1024, 2048, 2047]))  | 1
        I["rsai"].append({"n": L(b"\x00\x00" + R.i2o(big))}); E["rsai"].append(R.b64e(R.i2o(big)))
        jwk = rnd.choice([{"kty": "EC", "crv": "P-256", "x": R.b64e(rb(rnd, 32)).decode(), "y": R.b64e(rb(rnd, 32)).decode()},
                          {"kty": "RSA", "n": R.b64e(rb(rnd, 64)).decode(), "e": "AQAB"},
                          {"kty": "oct", "k": R.b64e(rb(rnd, 20)).decode()},
                          {"kty": "OKP", "crv": "Ed25519", "x": R.b64e(rb(rnd, 32)).decode()}])
        ms = [[L(m.encode()), L(jwk[m].encode())] for m in R.THUMB_MEMBERS[jwk["kty"]]]
        rnd.shuffle(ms)
        I["th"].append({"members": ms}); E["th"].append(R.thumbprint_input(jwk))
    fin, fout = ctx.scratch / "wire_in.json", ctx.scratch / "wire_out.json"
    fin.write_text(json.dumps(I))
    ctx.tlc("WireEval", workers=1, env={"IN_FILE": str(fin), "OUT_FILE": str(fout)}, timeout=900)
    O = json.loads(fout.read_text())
    bad = []
    pts = 0
    for k in I:
        if len(O[k]) != len(E[k]):
            raise MachineryError(f"WireEval output length mismatch for {k}")
        for i, (o, e) in enumerate(zip(O[k], E[k])):
            pts += 1
            if isinstance(e, dict):
                ok = all(bytes(o[m]) == e[m] for m in e)
            else:
                ok = bytes(o) == e
            if not ok:
                bad.append((k, i))
    if bad:
        raise MachineryError(f"refimpl disagrees with TLC's evaluation of Wire.tla at {bad[:5]} - the reference implementation is not "
                             f"a faithful transliteration of the specification")
    return pts, bad
