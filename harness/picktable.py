"""Every row of the table behind KeySet.pick_random_key (spec/PickTable.tla), shared by C14 and C20.

A behaviour is a short history of "produce with a key set and no kid" calls, one per algorithm NAME (all JWS and all JWE
key-management algorithms, drafts included).  Each call gets a fresh key set holding one key of every type (the EC / OKP key
on the algorithm's curve, the oct key of its size), so the keys of the row's types are the candidates and the call must
succeed with a suited key, its kid recorded in the token.  Each history runs in a process of its own: the table is class-level
state.  C14 judges every call; C20 judges that a call behaves at the second position as it does at the first.
"""
from __future__ import annotations
import json

from .common import Ctx, MachineryError
from . import joseops as J
from . import refimpl as R
from . import keys as K

PAYLOAD = b"picked from the set"


def keyset_for(alg: str, rot: int, variant: int):
    """-> (KeySet, {kid: jwk}, suited kids, enc, sender jwk or None)"""
    from joserfc.jwk import KeySet
    jws = alg in R.JWS_ALGS
    enc, sender = None, None
    if jws:
        suited_kind = K.JWS_KEY_KIND[alg]
        kinds = {"oct": "oct256", "RSA": "RSA2048", "EC": "EC:P-256", "OKP": "OKP:Ed25519"}
    else:
        enc = "A128CBC-HS256" if "1PU+" in alg else "A128GCM"
        suited_kind = K.jwe_key_kind(alg, enc)
        kinds = {"oct": "oct128", "RSA": "RSA2048", "EC": "EC:P-256", "OKP": "OKP:X25519"}
    kty = {"oct": "oct", "RSA": "RSA", "EC:": "EC", "OKP": "OKP"}[suited_kind[:3]]
    kinds[kty] = suited_kind
    if alg.startswith("ECDH"):
        # key agreement takes EC and OKP keys: the set holds one agreement key (the other type by variant), the sender's key is on its curve
        if variant % 2:
            kinds["OKP" if kty == "EC" else "EC"] = None
            agree = kinds[kty]
        else:
            other = "OKP" if kty == "EC" else "EC"
            agree = kinds[other] = {"OKP": "OKP:X25519", "EC": "EC:P-384"}[other]
            kinds[kty] = None
            kty = other
        if "1PU" in alg:
            sender = K.get(agree, 1)
    # the suited key comes first (rot 0) or last (rot 1) in the set
    others = [t for t in ("oct", "RSA", "EC", "OKP") if kinds[t] and t != kty]
    order = [kty] + others if rot % 2 == 0 else others + [kty]
    jwks = {}
    for t in order:
        j = dict(K.get(kinds[t], 0)); j["kid"] = "k-" + t
        jwks[j["kid"]] = j
    ks = KeySet([J.fresh_jkey(J.pub(j)) if (not jws and j["kty"] != "oct") else J.fresh_jkey(j) for j in jwks.values()])
    suited = {"k-" + kty}
    return ks, jwks, suited, enc, sender


def one_call(alg: str, rot: int, variant: int) -> str:
    from joserfc import jws, jwe
    J.register_drafts({"1pu", "chacha"})
    ks, jwks, suited, enc, sender = keyset_for(alg, rot, variant)
    try:
        if enc is None:
            if variant % 2:
                tok = jws.serialize_compact({"alg": alg}, PAYLOAD, ks, algorithms=[alg])
                hdr = json.loads(R.b64d(tok.split(".")[0]))
                kid = hdr.get("kid")
                if kid not in suited:
                    return f"picked {kid!r}"
                h2, body = R.jws_verify_compact(tok, J.pub(jwks[kid]))
            else:
                tok = jws.serialize_json({"protected": {"alg": alg}}, PAYLOAD, ks, algorithms=[alg])
                kid = (tok.get("header") or {}).get("kid", json.loads(R.b64d(tok["protected"])).get("kid"))
                if kid not in suited:
                    return f"picked {kid!r}"
                h2, body = R.jws_verify_json(tok, [J.pub(jwks[kid])])
            return "ok" if body == PAYLOAD else "other payload"
        kw = {"sender_key": J.fresh_jkey(sender)} if sender else {}
        hdr0 = {"alg": alg, "enc": enc, **({"p2c": 8} if alg.startswith("PBES2") else {})}
        tok = jwe.encrypt_compact(hdr0, PAYLOAD, ks, algorithms=[alg, enc], **kw)
        kid = json.loads(R.b64d(tok.split(".")[0])).get("kid")
        if kid not in suited:
            return f"picked {kid!r}"
        _, pt = R.jwe_decrypt(tok, jwks[kid], sender=J.pub(sender) if sender else None)
        return "ok" if pt == PAYLOAD else "other plaintext"
    except BaseException as e:  # noqa
        if isinstance(e, (KeyboardInterrupt, SystemExit)):
            raise
        return f"raised {type(e).__name__}: {str(e)[:60]}"


def history(args):
    hist, rot = args
    return [one_call(a, rot, rot) for a in hist]


def run(ctx: Ctx, prop: str, fresh) -> int:
    r = ctx.tlc("PickTable", timeout=300)
    for d in ("RowNamesOtherType", "RowSpentByUse"):
        ctx.sensitivity("PickTable", "PickTable_dev_" + d)
    hists = sorted({json.dumps(h): h for h in r.cases}.values(), key=json.dumps)
    if len(hists) < 1000:
        raise MachineryError(f"PickTable export too small: {len(hists)}")
    tasks = [(h, rot) for h in hists for rot in (0, 1)]
    res = fresh.map(history, tasks, chunksize=16)
    first: dict = {}
    for (h, rot), obs in zip(tasks, res):
        first.setdefault((h[0], rot), obs[0])
    n = nviol = 0
    for (h, rot), obs in zip(tasks, res):
        for i, (a, o) in enumerate(zip(h, obs)):
            n += 1
            nviol += o != "ok"
            ctx.nontrivial.add(f"pick:{a}:{i}")
            if prop == "C14" and o != "ok":
                ctx.violation(f"picktable:produce with a key set, no kid, alg={a} (call {i + 1} of the process) -> {o.split(':')[0]}",
                              {"pick_history": h, "rot": rot, "call": i + 1, "observed": o})
            if prop == "C20" and i > 0 and first.get((a, rot)) == "ok" and o != "ok":
                ctx.violation(f"picktable:alg={a} served as the first call of a process, refused after [{' '.join(h[:i])}] -> {o.split(':')[0]}",
                              {"pick_history": h, "rot": rot, "call": i + 1, "observed": o})
    if sum(1 for obs in res for o in obs if o == "ok") < 1000 and not nviol:          # (a library that fails every call is reported above, not here)
        raise MachineryError("vacuous pick-table pass: " + json.dumps([o for obs in res for o in obs if o != "ok"][:5]))
    ctx.notes["pick_table_histories"] = len(tasks)
    return n


def replay(ctx: Ctx, rec: dict) -> None:
    from .common import FreshPool
    with FreshPool(1) as fresh:
        obs = fresh.map(history, [(rec["pick_history"], rec["rot"])])[0]
    print(rec["pick_history"], "rot", rec["rot"], "->", obs)
    if any(o != "ok" for o in obs):
        ctx.violation(rec["signature"], {"now": obs})
