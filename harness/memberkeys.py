"""Per-member key resolution of general JSON JWS (spec/JwsMemberKeys.tla), shared by C01.

Every case of the model - a resolver (single key, key set, callable by issuer, callable returning the issuer's key set) and
1..3 members, each naming a kid (or none), an issuer through "jku", and signed by one of the four keys A1 A2 B1 B2 - becomes a
real general JSON token authenticated by refimpl, and is handed to jws.deserialize_json with the resolver as its key.  The
token may be accepted only if every member was signed by the key the resolver yields for THAT member.
"""
from __future__ import annotations
import hashlib
import json

from .common import Ctx, MachineryError
from . import refimpl as R

JKU = {"A": "https://issuer-a.example/keys", "B": "https://issuer-b.example/keys"}
ALGS = ("HS256", "EdDSA", "ES256")
_KEYS: dict = {}


def keys_for(alg: str) -> dict:
    """four keys of the algorithm's family, named A1 A2 B1 B2, carrying the kids 1 2 1 2"""
    if alg not in _KEYS:
        out = {}
        for n in ("A1", "A2", "B1", "B2"):
            if alg == "HS256":
                jwk = {"kty": "oct", "k": R.b64e(hashlib.sha256(("member-keys-" + n).encode()).digest()).decode()}
            elif alg == "EdDSA":
                jwk = R.native_to_jwk(R.OKP_PRIV["Ed25519"].generate(), True)
            else:
                from cryptography.hazmat.primitives.asymmetric import ec
                jwk = R.native_to_jwk(ec.generate_private_key(ec.SECP256R1()), True)
            jwk["kid"] = n[1]
            out[n] = jwk
        _KEYS[alg] = out
    return _KEYS[alg]


_SIG: dict = {}


def member_of(alg: str, m: dict, payload_seg: bytes, v: int) -> dict:
    prot = {"alg": alg}
    unprot = {}
    if m["kid"] != "absent":
        prot["kid"] = m["kid"]
    (prot if v % 2 == 0 else unprot)["jku"] = JKU[m["iss"]]
    seg = R.b64e(R.jdump(prot))
    k = (alg, seg, m["signer"])
    if k not in _SIG:
        _SIG[k] = R.b64e(R.jws_sign(alg, keys_for(alg)[m["signer"]], seg + b"." + payload_seg)).decode()
    d = {"protected": seg.decode(), "signature": _SIG[k]}
    if unprot:
        d["header"] = unprot
    return d


def resolver(alg: str, name: str):
    from joserfc.jwk import JWKRegistry, KeySet
    ks = keys_for(alg)

    def imp(n):
        j = dict(ks[n]) if ks[n]["kty"] == "oct" else R.public_jwk(ks[n])
        j["kid"] = ks[n]["kid"]
        return JWKRegistry.import_key(j)
    if name == "single":
        return imp("A1")
    if name == "set":
        return KeySet([imp("A1"), imp("A2")])
    sets = {i: KeySet([imp(i + "1"), imp(i + "2")]) for i in "AB"}
    firsts = {i: imp(i + "1") for i in "AB"}
    by = {v: k for k, v in JKU.items()}

    def by_issuer(obj):
        return firsts[by[obj.headers()["jku"]]]

    def by_issuer_set(obj):
        return sets[by[obj.headers()["jku"]]]
    return by_issuer if name == "by_issuer" else by_issuer_set


def run_case(c: dict, alg: str, v: int) -> str:
    from joserfc import jws
    payload_seg = R.b64e(b"payload of the members")
    tok = {"payload": payload_seg.decode(), "signatures": [member_of(alg, m, payload_seg, v) for m in c["members"]]}
    try:
        o = jws.deserialize_json(tok, resolver(alg, c["resolver"]), algorithms=[alg])
        return "ok" if o.payload == b"payload of the members" else "ok:other-payload"
    except BaseException as e:  # noqa
        if isinstance(e, (KeyboardInterrupt, SystemExit)):
            raise
        return "reject:" + type(e).__name__


def label(c: dict) -> str:
    return c["resolver"] + " " + ",".join(f"kid={m['kid']}/iss={m['iss']}/by={m['signer']}" for m in c["members"])


def _chunk(args):
    cases, alg, nv = args
    return [(i, v, run_case(c["c"], alg, v)) for i, c in cases for v in range(nv)]


def run(ctx: Ctx) -> int:
    thorough = ctx.tier == "thorough"
    r = ctx.tlc("JwsMemberKeys", "JwsMemberKeys_thorough" if thorough else "JwsMemberKeys", timeout=900, workers=8)
    for d in ("ResolutionSharedByAlgKid", "FirstKeyForAll"):
        ctx.sensitivity("JwsMemberKeys", "JwsMemberKeys_dev_" + d)
    cases = list({json.dumps(c["c"], sort_keys=True): c for c in r.cases}.values())
    if len(cases) < 2000:
        raise MachineryError(f"JwsMemberKeys export too small: {len(cases)}")
    if thorough and len(cases) > 20000:
        import random
        rnd = random.Random(ctx.seed)
        small = [c for c in cases if len(c["c"]["members"]) < 3]
        big = [c for c in cases if len(c["c"]["members"]) == 3]
        cases = small + rnd.sample(big, 12000)
    from .common import pmap
    items = list(enumerate(cases))
    n = ok = bad = 0
    tasks = [(items[i::8], alg, 2) for alg in ALGS for i in range(8)]
    for (_, alg, _nv), res in zip(tasks, pmap(_chunk, tasks, chunksize=1)):
        for i, v, o in res:
            n += 1
            c = cases[i]
            want = c["verdict"]
            ctx.nontrivial.add("memberkeys:" + label(c["c"]))
            if o.split(":")[0] == "ok":
                ok += 1
            if o.split(":")[0] != want:
                bad += 1
                if want == "ok":
                    ctx.note_drift({"memberkeys": c["c"], "alg": alg, "observed": o})
                else:
                    ctx.violation(f"memberkeys:{label(c['c'])} -> accepted [{alg}]",
                                  {"memberkeys_case": c["c"], "alg": alg, "variant": v, "observed": o})
    if ok < 100 and not bad:
        raise MachineryError(f"vacuous member-key pass: {ok} tokens accepted")
    ctx.notes["member_key_cases"] = len(cases)
    return n


def replay(ctx: Ctx, rec: dict) -> None:
    o = run_case(rec["memberkeys_case"], rec["alg"], rec.get("variant", 0))
    print(label(rec["memberkeys_case"]), "->", o)
    if o.startswith("ok"):
        ctx.violation(rec["signature"], {"now": o})
