"""API-level tracer (no repository hooks): wraps the public entry points of joserfc from outside and records one event
per outermost call - also on the error path - for validation by TLC against spec/TraceApi.tla.

Activated by harness/verif_pytest_plugin.py (the repository's own test-suite becomes a trace generator) and by drivers.
Events go to the file named by JOSERFC_VERIF_TRACE as JSON lines."""
from __future__ import annotations
import base64
import functools
import json
import os
import sys
import threading

_depth = threading.local()
_out = None
_seq = 0
_lock = threading.Lock()

API = {
    "joserfc.jws": ["serialize_compact", "deserialize_compact", "serialize_json", "deserialize_json"],
    "joserfc.rfc7797.compact": ["serialize_compact", "deserialize_compact"],
    "joserfc.rfc7797.json": ["serialize_json", "deserialize_json"],
    "joserfc.jwe": ["encrypt_compact", "decrypt_compact", "encrypt_json", "decrypt_json"],
    "joserfc.jwt": ["encode", "decode"],
}


def _b64d(s):
    if isinstance(s, str):
        s = s.encode()
    return base64.urlsafe_b64decode(s + b"=" * (-len(s) % 4))


def _hdr_of_segment(seg):
    try:
        h = json.loads(_b64d(seg))
        return h if isinstance(h, dict) else {}
    except Exception:  # noqa
        return None


def _entries(api, args, kwargs):
    """-> list of header dicts (one per signature / recipient) the call is about, or None if it cannot be told"""
    name = api.rsplit(".", 1)[1]
    a0 = args[0] if args else None
    try:
        if name in ("serialize_compact", "encrypt_compact", "encode"):
            return [dict(a0)] if isinstance(a0, dict) else None
        if name == "serialize_json":
            ms = a0 if isinstance(a0, list) else [a0]
            return [{**(m.get("protected") or {}), **(m.get("header") or {})} for m in ms]
        if name == "encrypt_json":
            return [r.headers() for r in a0.recipients]
        if name in ("deserialize_compact", "decrypt_compact", "decode"):
            v = a0.encode() if isinstance(a0, str) else a0
            h = _hdr_of_segment(v.split(b".")[0])
            return None if h is None else [h]
        if name == "deserialize_json":
            sigs = a0["signatures"] if "signatures" in a0 else [a0]
            out = []
            for s in sigs:
                p = _hdr_of_segment(s["protected"]) if "protected" in s else {}
                if p is None:
                    return None
                out.append({**p, **(s.get("header") or {})})
            return out
        if name == "decrypt_json":
            p = _hdr_of_segment(a0["protected"])
            if p is None:
                return None
            recs = a0["recipients"] if "recipients" in a0 else [a0]
            return [{**p, **(a0.get("unprotected") or {}), **(r.get("header") or {})} for r in recs]
    except Exception:  # noqa
        return None
    return None


def _registered():
    from joserfc.jwe import JWERegistry
    out = []
    if "ECDH-1PU" in JWERegistry.algorithms["alg"]: out.append("1pu")
    if "C20P" in JWERegistry.algorithms["enc"]: out.append("chacha")
    return out


def _event(api, args, kwargs, outcome):
    global _seq
    from joserfc.jwe import JWERegistry
    name = api.rsplit(".", 1)[1]
    params = {"serialize_compact": ("protected", "payload", "private_key", "algorithms", "registry"),
              "deserialize_compact": ("value", "public_key", "algorithms", "registry") if "7797" not in api else ("value", "public_key", "payload", "algorithms", "registry"),
              "serialize_json": ("members", "payload", "private_key", "algorithms", "registry"),
              "deserialize_json": ("value", "public_key", "algorithms", "registry"),
              "encrypt_compact": ("protected", "plaintext", "public_key", "algorithms", "registry", "sender_key"),
              "decrypt_compact": ("value", "private_key", "algorithms", "registry", "sender_key"),
              "encrypt_json": ("obj", "public_key", "algorithms", "registry", "sender_key"),
              "decrypt_json": ("data", "private_key", "algorithms", "registry", "sender_key"),
              "encode": ("header", "claims", "key", "algorithms", "registry", "encoder_cls"),
              "decode": ("value", "key", "algorithms", "registry", "decoder_cls")}[name]
    bound = dict(zip(params, args)); bound.update(kwargs)
    algs, reg = bound.get("algorithms"), bound.get("registry")
    side = "jwe" if (name.startswith(("encrypt", "decrypt")) or (name in ("encode", "decode") and isinstance(reg, JWERegistry))) else "jws"
    ents = _entries(api, args, kwargs)
    judged = ents is not None
    es = []
    for h in ents or []:
        e = {"alg": h.get("alg"), "enc": h.get("enc") if side == "jwe" else "", "zip": h.get("zip", "") if side == "jwe" else ""}
        if not all(isinstance(v, str) for v in e.values()):
            judged = False
            e = {k: (v if isinstance(v, str) else "#illtyped") for k, v in e.items()}
        es.append(e)
    reg_allowed = getattr(reg, "allowed", None) if reg is not None else None
    with _lock:
        _seq += 1
        ev = {"seq": _seq, "api": api.replace("joserfc.", ""), "side": side, "op": "produce" if name.startswith(("serialize", "encrypt", "encode")) else "consume",
              "entries": es, "judged": judged,
              "algorithms": sorted(algs) if isinstance(algs, list) and all(isinstance(x, str) for x in algs) else [],
              "algorithms_given": bool(algs),
              "registry_given": reg is not None,
              "registry_allowed": sorted(reg_allowed) if isinstance(reg_allowed, list) else [],
              "registry_has_list": bool(reg_allowed),
              "reg": _registered(), "outcome": outcome}
        _out.write(json.dumps(ev) + "\n")
        _out.flush()


def _wrap(api, fn):
    @functools.wraps(fn)
    def w(*args, **kwargs):
        d = getattr(_depth, "n", 0)
        _depth.n = d + 1
        outcome = "ok"
        try:
            return fn(*args, **kwargs)
        except BaseException as e:  # noqa
            outcome = type(e).__name__
            raise
        finally:
            _depth.n = d
            if d == 0:
                try:
                    _event(api, args, kwargs, outcome)
                except Exception as ex:  # noqa  - tracing must never change behaviour
                    sys.stderr.write(f"[verif tracer] {api}: {ex!r}\n")
    w.__verif_wrapped__ = True
    return w


def install(path=None):
    global _out
    if _out is not None:
        return
    path = path or os.environ.get("JOSERFC_VERIF_TRACE")
    if not path:
        return
    _out = open(path, "a")
    import importlib
    for mod, names in API.items():
        m = importlib.import_module(mod)
        for n in names:
            orig = getattr(m, n)
            if getattr(orig, "__verif_wrapped__", False):
                continue
            w = _wrap(f"{mod}.{n}", orig)
            # replace every reference to the original function held by joserfc modules (from-imports)
            for mm in list(sys.modules.values()):
                if mm is None or not getattr(mm, "__name__", "").startswith("joserfc"):
                    continue
                for k, v in list(vars(mm).items()):
                    if v is orig:
                        setattr(mm, k, w)
