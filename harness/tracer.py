"""API-level tracer (no repository hooks): wraps the public entry points of joserfc from outside and records one event
per outermost call - also on the error path - for validation by TLC against spec/TraceApi.tla.

Activated by harness/verif_pytest_plugin.py (the repository's own test-suite becomes a trace generator) and by drivers.
Events go to the file named by JOSERFC_VERIF_TRACE as JSON lines."""
from __future__ import annotations
import base64
import functools
import json
import os
import sys
import threading

_depth = threading.local()
_out = None
_seq = 0
_lock = threading.Lock()

API = {
    "joserfc.jws": ["serialize_compact", "deserialize_compact", "serialize_json", "deserialize_json"],
    "joserfc.rfc7797.compact": ["serialize_compact", "deserialize_compact"],
    "joserfc.rfc7797.json": ["serialize_json", "deserialize_json"],
    "joserfc.jwe": ["encrypt_compact", "decrypt_compact", "encrypt_json", "decrypt_json"],
    "joserfc.jwt": ["encode", "decode"],
}


def _b64d(s):
    if isinstance(s, str):
        s = s.encode()
    return base64.urlsafe_b64decode(s + b"=" * (-len(s) % 4))


def _hdr_of_segment(seg):
    try:
        h = json.loads(_b64d(seg))
        return h if isinstance(h, dict) else {}
    except Exception:  # noqa
        return None


def _entries(api, args, kwargs):
    """-> list of header dicts (one per signature / recipient) the call is about, or None if it cannot be told"""
    name = api.rsplit(".", 1)[1]
    a0 = args[0] if args else None
    try:
        if name in ("serialize_compact", "encrypt_compact", "encode"):
            return [dict(a0)] if isinstance(a0, dict) else None
        if name == "serialize_json":
            ms = a0 if isinstance(a0, list) else [a0]
            return [{**(m.get("protected") or {}), **(m.get("header") or {})} for m in ms]
        if name == "encrypt_json":
            return [r.headers() for r in a0.recipients]
        if name in ("deserialize_compact", "decrypt_compact", "decode"):
            v = a0.encode() if isinstance(a0, str) else a0
            h = _hdr_of_segment(v.split(b".")[0])
            return None if h is None else [h]
        if name == "deserialize_json":
            sigs = a0["signatures"] if "signatures" in a0 else [a0]
            out = []
            for s in sigs:
                p = _hdr_of_segment(s["protected"]) if "protected" in s else {}
                if p is None:
                    return None
                out.append({**p, **(s.get("header") or {})})
            return out
        if name == "decrypt_json":
            p = _hdr_of_segment(a0["protected"])
            if p is None:
                return None
            recs = a0["recipients"] if "recipients" in a0 else [a0]
            return [{**p, **(a0.get("unprotected") or {}), **(r.get("header") or {})} for r in recs]
    except Exception:  # noqa
        return None
    return None


def _jclass(v):
    if isinstance(v, bool): return "bool"
    if isinstance(v, int): return "int"
    if isinstance(v, float): return "float"
    if v is None: return "null"
    if isinstance(v, str): return "url" if v.startswith(("http://", "https://")) else "str"
    if isinstance(v, list): return "list_str" if all(isinstance(x, str) for x in v) else "list_other"
    if isinstance(v, dict): return "obj"
    return "other"


def _headers_info(api, args, kwargs):
    """per entry: member names with the JSON class of their values, and the crit list - taken BEFORE the call runs"""
    ents = _entries(api, args, kwargs)
    if ents is None:
        return None
    out = []
    for h in ents:
        names = [str(k) for k in h]
        crit = h.get("crit")
        out.append({"names": names, "classes": [_jclass(h[k]) for k in h],
                    "crit": [c for c in crit if isinstance(c, str)] if isinstance(crit, list) else [],
                    "crit_list": isinstance(crit, list) and all(isinstance(c, str) for c in crit)})
    return out


def _registry_info(reg, side):
    """strict flag and caller-registered parameters of the registry object the call was given"""
    import joserfc.registry as jr
    types = {jr.is_str: "str", jr.is_url: "url", jr.is_int: "int", jr.is_bool: "bool", jr.is_list_str: "list[str]", jr.is_jwk: "jwk"}
    if reg is None:
        return True, []
    from joserfc.rfc7797 import JWSRegistry as R7797
    std = [jr.JWS_HEADER_REGISTRY, jr.JWE_HEADER_REGISTRY, R7797.default_header_registry]
    custom = []
    for n, hp in (getattr(reg, "header_registry", {}) or {}).items():
        if not any(d.get(n) is hp for d in std):          # a name the caller registered (or re-registered with another entry)
            custom.append({"name": n, "type": types.get(hp.validate, "any"), "required": bool(hp.required)})
    return bool(getattr(reg, "strict_check_header", True)), custom


def _key_info(key):
    """the key argument of a call, if it is a single key object (taken AFTER the call: reading it builds the key's JWK view,
    which the call itself has done by then)"""
    try:
        from joserfc.rfc7517.models import BaseKey
        if not isinstance(key, BaseKey):
            return None
        kty = key.key_type
        bits = 0
        if kty == "oct":
            bits = len(key.raw_value) * 8
        elif kty == "RSA":
            bits = key.raw_value.key_size
        ops = key.get("key_ops")
        crv = key.get("crv") or ""
        if kty == "EC" and not crv:
            crv = {"secp256r1": "P-256", "secp384r1": "P-384", "secp521r1": "P-521", "secp256k1": "secp256k1"}.get(key.raw_value.curve.name, "")
        return {"kty": kty, "crv": crv if isinstance(crv, str) else "", "bits": bits if bits < 2 ** 20 else 2 ** 20,
                "use": key.get("use") if isinstance(key.get("use"), str) else "",
                "ops_declared": ops is not None, "ops": [o for o in ops if isinstance(o, str)] if isinstance(ops, list) else [],
                "priv": bool(key.is_private)}
    except Exception:  # noqa
        return None


def _is7797(reg):
    from joserfc.rfc7797 import JWSRegistry as R7797
    return isinstance(reg, R7797)


def _registered():
    from joserfc.jwe import JWERegistry
    out = []
    if "ECDH-1PU" in JWERegistry.algorithms["alg"]: out.append("1pu")
    if "C20P" in JWERegistry.algorithms["enc"]: out.append("chacha")
    return out


def _event(api, args, kwargs, outcome, pre=None):
    global _seq
    from joserfc.jwe import JWERegistry
    name = api.rsplit(".", 1)[1]
    params = {"serialize_compact": ("protected", "payload", "private_key", "algorithms", "registry"),
              "deserialize_compact": ("value", "public_key", "algorithms", "registry") if "7797" not in api else ("value", "public_key", "payload", "algorithms", "registry"),
              "serialize_json": ("members", "payload", "private_key", "algorithms", "registry"),
              "deserialize_json": ("value", "public_key", "algorithms", "registry"),
              "encrypt_compact": ("protected", "plaintext", "public_key", "algorithms", "registry", "sender_key"),
              "decrypt_compact": ("value", "private_key", "algorithms", "registry", "sender_key"),
              "encrypt_json": ("obj", "public_key", "algorithms", "registry", "sender_key"),
              "decrypt_json": ("data", "private_key", "algorithms", "registry", "sender_key"),
              "encode": ("header", "claims", "key", "algorithms", "registry", "encoder_cls"),
              "decode": ("value", "key", "algorithms", "registry", "decoder_cls")}[name]
    bound = dict(zip(params, args)); bound.update(kwargs)
    algs, reg = bound.get("algorithms"), bound.get("registry")
    side = "jwe" if (name.startswith(("encrypt", "decrypt")) or (name in ("encode", "decode") and isinstance(reg, JWERegistry))) else "jws"
    ents = _entries(api, args, kwargs)
    judged = ents is not None
    es = []
    for h in ents or []:
        e = {"alg": h.get("alg"), "enc": h.get("enc") if side == "jwe" else "", "zip": h.get("zip", "") if side == "jwe" else ""}
        if not all(isinstance(v, str) for v in e.values()):
            judged = False
            e = {k: (v if isinstance(v, str) else "#illtyped") for k, v in e.items()}
        es.append(e)
    reg_allowed = getattr(reg, "allowed", None) if reg is not None else None
    strict, custom = _registry_info(reg, side)
    kinfo = _key_info(bound.get("private_key", bound.get("public_key", bound.get("key"))))
    nokey = {"kty": "", "crv": "", "bits": 0, "use": "", "ops_declared": False, "ops": [], "priv": False}
    hdrs = pre if (pre is not None and len(pre) == len(es)) else []
    with _lock:
        _seq += 1
        ev = {"seq": _seq, "api": api.replace("joserfc.", ""), "side": side, "op": "produce" if name.startswith(("serialize", "encrypt", "encode")) else "consume",
              "entries": es, "judged": judged,
              "algorithms": sorted(algs) if isinstance(algs, list) and all(isinstance(x, str) for x in algs) else [],
              "algorithms_given": bool(algs),
              "registry_given": reg is not None,
              "registry_allowed": sorted(reg_allowed) if isinstance(reg_allowed, list) else [],
              "registry_has_list": bool(reg_allowed),
              "reg": _registered(), "outcome": outcome,
              "headers": hdrs, "headers_judged": bool(hdrs) and judged, "strict": strict, "custom": custom, "api7797": "7797" in api, "reg7797": _is7797(reg),
              "key": kinfo or nokey, "key_judged": kinfo is not None and judged and bound.get("sender_key") is None}
        _out.write(json.dumps(ev) + "\n")
        _out.flush()


def _wrap(api, fn):
    @functools.wraps(fn)
    def w(*args, **kwargs):
        d = getattr(_depth, "n", 0)
        _depth.n = d + 1
        outcome = "ok"
        pre = None
        if d == 0:
            try:
                pre = _headers_info(api, args, kwargs)
            except Exception:  # noqa
                pre = None
        try:
            return fn(*args, **kwargs)
        except BaseException as e:  # noqa
            outcome = type(e).__name__
            raise
        finally:
            _depth.n = d
            if d == 0:
                try:
                    _event(api, args, kwargs, outcome, pre)
                except Exception as ex:  # noqa  - tracing must never change behaviour
                    sys.stderr.write(f"[verif tracer] {api}: {ex!r}\n")
    w.__verif_wrapped__ = True
    return w


def _install_claims(path):
    """one event per ClaimsRegistry.validate call (also on the error path), for validation against Claims.tla"""
    import joserfc.rfc7519.registry as cr
    orig = cr.ClaimsRegistry.validate
    if getattr(orig, "__verif_wrapped__", False):
        return
    out = open(path + ".claims", "a")

    @functools.wraps(orig)
    def validate(self, claims):
        outcome = "ok"
        try:
            snap = json.loads(json.dumps(claims, default=lambda o: {"#unjson": type(o).__name__}))
        except Exception:  # noqa
            snap = None
        try:
            return orig(self, claims)
        except BaseException as e:  # noqa
            outcome = type(e).__name__
            raise
        finally:
            try:
                ev = {"now": getattr(self, "now", None), "leeway": getattr(self, "leeway", None), "cls": type(self).__name__,
                      "options": json.loads(json.dumps(self.options, default=lambda o: {"#unjson": type(o).__name__})),
                      "claims": snap, "outcome": outcome}
                with _lock:
                    out.write(json.dumps(ev) + "\n"); out.flush()
            except Exception as ex:  # noqa
                sys.stderr.write(f"[verif tracer] claims: {ex!r}\n")
    validate.__verif_wrapped__ = True
    cr.ClaimsRegistry.validate = validate


def install(path=None):
    global _out
    if _out is not None:
        return
    path = path or os.environ.get("JOSERFC_VERIF_TRACE")
    if not path:
        return
    _out = open(path, "a")
    _install_claims(path)
    import importlib
    for mod, names in API.items():
        m = importlib.import_module(mod)
        for n in names:
            orig = getattr(m, n)
            if getattr(orig, "__verif_wrapped__", False):
                continue
            w = _wrap(f"{mod}.{n}", orig)
            # replace every reference to the original function held by joserfc modules (from-imports)
            for mm in list(sys.modules.values()):
                if mm is None or not getattr(mm, "__name__", "").startswith("joserfc"):
                    continue
                for k, v in list(vars(mm).items()):
                    if v is orig:
                        setattr(mm, k, w)
