#!/bin/sh
# validates MANIFEST.json and every evidence file against the schemas (tooling venv has jsonschema)
python3-vt - <<'PY'
import json, jsonschema, glob, sys
m=json.load(open('/verif/MANIFEST.json')); jsonschema.validate(m, json.load(open('/root/.vp/MANIFEST.schema.json')))
es=json.load(open('/root/.vp/EVIDENCE.schema.json'))
claimed={c['property_id'] for c in m['checks']}
for f in sorted(glob.glob('/verif/evidence/*.json')):
    jsonschema.validate(json.load(open(f)), es)
missing=[p for p in claimed if not __import__('os').path.exists(f'/verif/evidence/{p}.json')]
print("manifest+evidence valid; claimed:", sorted(claimed), "missing evidence:", missing)
PY
