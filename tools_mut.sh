#!/bin/sh
# usage: tools_mut.sh '<sed-expr>' <file-rel-to-repo> -- <cmd...>   : apply an ad-hoc mutant to /repo, run, revert
expr="$1"; file="$2"; shift 3
sed -i "$expr" /repo/$file
git -C /repo diff --stat | tail -1
VERIF_SCRATCH_RUN=1 "$@"; rc=$?
git -C /repo checkout -- . 
echo "mutant rc=$rc"
