#!/bin/sh
# Repository baseline with the guard OFF: the 198 stable tests of BASELINE.json must pass.
unset JOSERFC_VERIF
out=$(mktemp /var/tmp/baseline.XXXXXX.xml)
cd /repo && /venv/bin/python -m pytest -ra -q -p no:cacheprovider --timeout=900 --continue-on-collection-errors --junitxml="$out" >/dev/null 2>&1
/venv/bin/python - "$out" <<'PY'
import json, sys, xml.etree.ElementTree as ET
base = json.load(open('/root/.vp/BASELINE.json'))
want = set(base['stable_pass'])
passed = set()
for tc in ET.parse(sys.argv[1]).getroot().iter('testcase'):
    if not any(c.tag in ('failure', 'error', 'skipped') for c in tc):
        passed.add(f"{tc.get('classname')}::{tc.get('name')}")
missing = sorted(want - passed)
print(f"baseline: {len(want & passed)}/{len(want)} stable tests pass")
for m in missing[:20]:
    print("  NOT PASSING:", m)
sys.exit(1 if missing else 0)
PY
rc=$?
rm -f "$out"
exit $rc
