#!/bin/sh
# Offline setup: parse every specification with SANY, byte-compile nothing (python -B), check tools.
cd "$(dirname "$0")" || exit 2
set -e
command -v java >/dev/null
test -x /venv/bin/python
fail=0
cd spec
for f in *.tla; do
  if ! java -cp /opt/veriftools/tla/tla2tools.jar:/opt/veriftools/tla/CommunityModules-deps.jar tla2sany.SANY "$f" >/tmp/.sany.$$ 2>&1; then
    echo "SANY failed: $f"; tail -5 /tmp/.sany.$$; fail=1
  fi
done
rm -f /tmp/.sany.$$
cd ..
/venv/bin/python -B -c "import sys; sys.path.insert(0,'/repo/src'); import joserfc, cryptography, hypothesis" 
mkdir -p evidence replays
exit $fail
