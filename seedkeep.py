#!/venv/bin/python
"""usage: seedkeep.py <name> <seed-dir> <property> "<needs>" CHECK=caught|missed ... [note]   - file a confirmed seeded change under /verif/seeded/<name>/"""
import json, shutil, sys, os
name, src, prop, needs = sys.argv[1:5]
det = {}
note = ""
for a in sys.argv[5:]:
    if "=" in a and a.split("=")[0].startswith("C"):
        k, v = a.split("="); det[k] = (v == "caught")
    else:
        note = a
d = f"/verif/seeded/{name}"
os.makedirs(d, exist_ok=True)
for f in ("patch.diff", "demo.py", "notes.md"):
    shutil.copy(os.path.join(src, f), d)
json.dump({"breaks_property": prop, "needs_to_manifest": needs, "origin": "fresh sub-agent given only the property text and a scratch worktree",
           "confirmed": "seedtest.sh: demo.py exits 0 on the unchanged tree and 1 with patch.diff applied; baseline.sh 198/198 with the patch; patch applied to /repo, checks run, patch reverted",
           "detected_by": det, "note": note}, open(f"{d}/meta.json", "w"), indent=1)
print("kept", d, det)
