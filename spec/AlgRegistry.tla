---------------------------- MODULE AlgRegistry ----------------------------
(***************************************************************************)
(* Property C05: only caller-allowed algorithms are ever used; the default *)
(* is the recommended set; outcomes do not depend on earlier calls.        *)
(*                                                                         *)
(* State: the class-level algorithm tables (abstracted to the set `reg` of *)
(* registered drafts - everything else is registered at import), and the   *)
(* history of calls.  `leak` is shared state that an *incorrect*           *)
(* implementation could keep between calls (deviation AllowListLeaks); the *)
(* intended design never reads it.                                         *)
(*                                                                         *)
(* Layer D: Allowed(call, reg).  Layer O: the gate as the code runs it     *)
(* (registry lookup, then allow-list or recommended list, per name).       *)
(***************************************************************************)
EXTENDS JoseDefs, TLC, Json

CONSTANTS Family,     \* "jws" | "jwealg" | "jweenc" | "history"
          MaxCalls,
          Dev
DevNames == {"AllowListLeaks", "RecommendedFlipped", "NoneVerifies", "JsonConsumeSkipsGate", "EmptyListMeansNothing", "EncNotGated"}
ASSUME Dev \subseteq DevNames

VARIABLES reg, leak, hist
vars == <<reg, leak, hist>>

\* ------------------------------------------------------------------ names and allow-lists
Unknown == "UNKNOWN-ALG"
\* abstract classes of ill-typed names (concretised by the harness): a JSON number, a list, null
IllTyped == {"#int", "#list", "#null"}
WellTyped(n) == n \notin IllTyped

AllowAbsent == [kind |-> "absent", names |-> {}]
AllowEmpty  == [kind |-> "empty", names |-> {}]
AllowList(s) == [kind |-> "list", names |-> s]

\* "7797compact"/"7797json": the RFC 7797 entry points with "b64": false; "..._plain" / "..._true": the same entry points given
\* an ordinary token (no b64 member) or "b64": true - they hand over to the RFC 7515 code and must carry the caller's list along
JwsSer == {"compact", "flattened", "general", "7797compact", "7797json", "jwt", "7797compact_plain", "7797json_plain", "7797compact_true"}
\* general_any: General JSON with a second recipient of another, listed algorithm that opens the token, consumed with a registry
\* that is content with any recipient - a name the caller did not allow on the first recipient must still make the call fail
JweSer == {"compact", "flattened", "general", "jwt", "general_any"}

\* ------------------------------------------------------------------ layer D
SupportedAt(side, pos, r) ==
  IF side = "jws" THEN JwsNames
  ELSE CASE pos = "alg" -> {a.name : a \in {x \in JweAlgs : x.draft = "" \/ x.draft \in r}}
         [] pos = "enc" -> {a.name : a \in {x \in JweEncs : x.draft = "" \/ x.draft \in r}}
         [] pos = "zip" -> JweZipNames
RecommendedOf(side) == IF side = "jws" THEN JwsRecommended ELSE JweRecommended

Effective(side, pos, allow, r) ==
  IF allow.kind = "list" THEN allow.names \cap SupportedAt(side, pos, r)
  ELSE RecommendedOf(side) \cap SupportedAt(side, pos, r)

Usable(c, r) ==
  /\ c.alg \in Effective(c.side, "alg", c.allow, r)
  /\ c.side = "jwe" => /\ c.enc \in Effective("jwe", "enc", c.allow, r)
                       /\ (c.zip = "" \/ c.zip \in Effective("jwe", "zip", c.allow, r))

AllWellTyped(c) == WellTyped(c.alg) /\ (c.side = "jwe" => WellTyped(c.enc) /\ WellTyped(c.zip))

Allowed(c, r) ==
  IF Usable(c, r)
  THEN IF c.side = "jws" /\ c.op = "consume" /\ c.alg = "none" THEN {"fail"} ELSE {"ok"}
  ELSE IF AllWellTyped(c) THEN {"unsupported"} ELSE {"unsupported", "fail"}

\* ------------------------------------------------------------------ layer O (the gate as coded)
RecTableO(side) ==
  IF "RecommendedFlipped" \in Dev
  THEN IF side = "jws" THEN (JwsRecommended \ {"ES256"}) \cup {"HS384"} ELSE (JweRecommended \ {"A256KW"}) \cup {"RSA1_5"}
  ELSE RecommendedOf(side)

\* get_alg / _check_algorithm
GateO(side, pos, name, allow, r, lk) ==
  LET eff == IF allow.kind = "list" THEN allow
             ELSE IF "AllowListLeaks" \in Dev /\ lk.kind = "list" THEN lk
             ELSE IF "EmptyListMeansNothing" \in Dev /\ allow.kind = "empty" THEN AllowList({})
             ELSE AllowAbsent
  IN IF name \notin SupportedAt(side, pos, r) THEN "unsupported"
     ELSE IF eff.kind = "list" THEN (IF name \in eff.names THEN "pass" ELSE "unsupported")
     ELSE IF name \in RecTableO(side) THEN "pass" ELSE "unsupported"

OutcomeO(c, r, lk) ==
  IF ~AllWellTyped(c) THEN "fail"       \* header type validation / lookup of an ill-typed name fails
  ELSE IF c.side = "jws" THEN
    IF "JsonConsumeSkipsGate" \in Dev /\ c.op = "consume" /\ c.ser \in {"flattened", "general"} /\ c.alg \in JwsNames
    THEN (IF c.alg = "none" THEN "fail" ELSE "ok")
    ELSE IF GateO("jws", "alg", c.alg, c.allow, r, lk) # "pass" THEN "unsupported"
    ELSE IF c.op = "consume" /\ c.alg = "none" /\ "NoneVerifies" \notin Dev THEN "fail"
    ELSE "ok"
  ELSE
    IF "EncNotGated" \notin Dev /\ GateO("jwe", "enc", c.enc, c.allow, r, lk) # "pass" THEN "unsupported"
    ELSE IF GateO("jwe", "alg", c.alg, c.allow, r, lk) # "pass" THEN "unsupported"
    ELSE IF c.zip # "" /\ GateO("jwe", "zip", c.zip, c.allow, r, lk) # "pass" THEN "unsupported"
    ELSE "ok"

\* ------------------------------------------------------------------ call space
Call(side, op, ser, via, allow, alg, enc, zip) ==
  [side |-> side, op |-> op, ser |-> ser, via |-> via, allow |-> allow, alg |-> alg, enc |-> enc, zip |-> zip]

AllJwe(r) == SupportedAt("jwe", "alg", r) \cup SupportedAt("jwe", "enc", r) \cup {"DEF"}
\* allow-list shapes relative to the names of the call
AllowMenu(side, names, r) ==
  LET all == IF side = "jws" THEN JwsNames ELSE AllJwe(r)
      wt == {n \in names : WellTyped(n) /\ n # ""}
      menu == {AllowAbsent, AllowEmpty, AllowList(wt), AllowList(all \ wt), AllowList(all), AllowList(all \cup {Unknown}),
               AllowList(RecommendedOf(side) \cup {Unknown})}
              \cup {AllowList(wt \ {n}) : n \in wt}               \* drop exactly one of the needed names
              \cup (IF wt = {} THEN {} ELSE {AllowList({CHOOSE n \in wt : TRUE, Unknown})})
  IN \* a list without names is the "empty" shape (algorithms=[]), which the library treats as absent
     {a \in menu : a.kind # "list" \/ a.names # {}}

Ops == {"produce", "consume"}
Vias == {"algorithms", "registry"}
\* ECDH-1PU key wrapping needs a CBC-HMAC content encryption (refused otherwise: C04), keep cases compatible
Compatible(alg, enc) == ~(alg \in {"ECDH-1PU+A128KW", "ECDH-1PU+A192KW", "ECDH-1PU+A256KW"} /\ enc \in JweEncNames
                          /\ JweEncOf(enc).fam # "cbc")

\* The call spaces are enumerated by nested quantifiers in Next (TLC then never builds the product set).
\* "#empty": the member is present and is the empty string - a name like any other unknown one
JwsAlgDomain == JwsNames \cup {Unknown, "A128KW", "#empty"} \cup IllTyped
JweAlgDomain == JweAlgNames \cup {Unknown, "HS256", "A128GCM", "#empty"} \cup IllTyped
JweEncDomain == JweEncNames \cup {Unknown, "A128KW", "#int", "#null", "#empty"}

\* reduced menu for histories: calls whose outcome differs between allow-lists
HistCalls(r) ==
  {Call("jws", op, ser, via, al, alg, "", "") :
     op \in Ops, ser \in {"compact", "general"}, via \in Vias, alg \in {"HS256", "HS384"},
     al \in {AllowAbsent, AllowList({"HS384"}), AllowList({"HS256"})}}
  \cup
  {Call("jws", "consume", ser, via, AllowList({"HS256", "none"}), "none", "", "") : ser \in {"compact", "general"}, via \in Vias}
  \cup
  {Call("jwe", op, "compact", via, al, ae[1], ae[2], "") :
     op \in Ops, via \in Vias, ae \in {<<"A128KW", "A128GCM">>, <<"A192KW", "C20P">>},
     al \in {AllowAbsent, AllowList({"A192KW", "A128GCM", "C20P"}), AllowList({"A128KW", "A128GCM"})}}

\* ------------------------------------------------------------------ behaviour
Init == /\ reg \in (IF Family \in {"history", "jws"} THEN {{}} ELSE {{}, Drafts})
        /\ leak = AllowAbsent /\ hist = <<>>

NCalls == Cardinality({i \in 1..Len(hist) : hist[i].t = "call"})

DoCall(c) ==
  /\ NCalls < MaxCalls
  /\ LET o == OutcomeO(c, reg, leak)
     IN hist' = Append(hist, [t |-> "call", c |-> c, reg |-> reg, allowed |-> Allowed(c, reg), out |-> o])
  /\ leak' = IF c.allow.kind = "list" THEN c.allow ELSE leak      \* written always, read only under the deviation
  /\ UNCHANGED reg

Register(d) ==
  /\ Family = "history" /\ d \notin reg /\ NCalls < MaxCalls
  /\ reg' = reg \cup {d}
  /\ hist' = Append(hist, [t |-> "register", d |-> d])
  /\ UNCHANGED leak

JwsNext ==
  \E alg \in JwsAlgDomain, op \in Ops, ser \in JwsSer, via \in Vias :
    \E al \in AllowMenu("jws", {alg}, reg) : DoCall(Call("jws", op, ser, via, al, alg, "", ""))
JweAlgNext ==
  \E alg \in JweAlgDomain, enc \in {"A128CBC-HS256", "A256GCM"}, op \in Ops, ser \in JweSer, via \in Vias :
    /\ Compatible(alg, enc)
    /\ \E al \in AllowMenu("jwe", {alg, enc}, reg) : DoCall(Call("jwe", op, ser, via, al, alg, enc, ""))
JweEncNext ==
  \E alg \in {"dir", "A128KW", "ECDH-ES+A192KW"}, enc \in JweEncDomain, zip \in {"", "DEF", Unknown, "#int", "#empty"},
     op \in Ops, ser \in JweSer, via \in Vias :
    /\ Compatible(alg, enc)
    /\ \E al \in AllowMenu("jwe", {alg, enc, zip}, reg) : DoCall(Call("jwe", op, ser, via, al, alg, enc, zip))
HistNext == \E c \in HistCalls(reg) : DoCall(c)

Next == \/ (NCalls < MaxCalls /\ Family = "jws" /\ JwsNext) \/ (NCalls < MaxCalls /\ Family = "jwealg" /\ JweAlgNext)
        \/ (NCalls < MaxCalls /\ Family = "jweenc" /\ JweEncNext)
        \/ (NCalls < MaxCalls /\ Family = "history" /\ HistNext)
        \/ (\E d \in Drafts : Register(d))
Spec == Init /\ [][Next]_vars

\* ------------------------------------------------------------------ properties
\* every call in every history yields an outcome the statement allows for (call, registered drafts) alone:
\* this is both the allow-list rule and history independence
Sound == \A i \in 1..Len(hist) : hist[i].t = "call" => hist[i].out \in hist[i].allowed
NoneNeverVerifies == \A i \in 1..Len(hist) :
   hist[i].t = "call" /\ hist[i].c.side = "jws" /\ hist[i].c.op = "consume" /\ hist[i].c.alg = "none" => hist[i].out # "ok"
\* the intended gate never reads the leaked state (action property)
LeakIrrelevant == [][\A c \in HistCalls(reg) : OutcomeO(c, reg, leak) = OutcomeO(c, reg, AllowAbsent)]_vars
Export == NCalls = MaxCalls => PrintT("CASE " \o ToJson(hist))
=============================================================================
