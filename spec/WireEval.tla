------------------------------ MODULE WireEval ------------------------------
(* TLC as a calculator over Wire.tla: reads concrete inputs (IN_FILE), writes the expected octets (OUT_FILE).  *)
EXTENDS Wire, Json, IOUtils
In == JsonDeserialize(IOEnv.IN_FILE)
F(q, Op(_)) == [i \in 1..Len(q) |-> Op(q[i])]

SI(x) == SigningInput(x.h, x.p, x.b64)
CJ(x) == CompactJws(x.h, x.p, x.s, x.b64, x.det)
RS(x) == EcdsaRS(x.r, x.s, x.w)
AADo(x) == Aad(x.seg, x.aad, x.has)
ALo(x) == AL(x.aad)
MACIN(x) == CbcHsMacInput(x.aad, x.iv, x.ct)
SPLIT(x) == [mac |-> CbcHsMacKey(x.cek, x.kl), enc |-> CbcHsEncKey(x.cek, x.kl), tag |-> TagTrunc(x.cek, x.kl)]
OI(x) == OtherInfo(x.alg, x.apu, x.apv, x.bits, x.tag, x.has)
KDF(x) == ConcatKdfRoundInput(x.i, x.z, x.oi)
SALT(x) == Pbes2Salt(x.alg, x.p2s)
CE(x) == CompactJwe(x.seg, x.ek, x.iv, x.ct, x.tag)
ECC(x) == EcCoordinate(x.n, x.w)
RSAI(x) == RsaInteger(x.n)
TH(x) == ThumbprintInput(x.members)

ASSUME JsonSerialize(IOEnv.OUT_FILE,
  [si |-> F(In.si, SI), cj |-> F(In.cj, CJ), rs |-> F(In.rs, RS), aad |-> F(In.aad, AADo), al |-> F(In.al, ALo),
   macin |-> F(In.macin, MACIN), split |-> F(In.split, SPLIT), oi |-> F(In.oi, OI), kdf |-> F(In.kdf, KDF),
   salt |-> F(In.salt, SALT), ce |-> F(In.ce, CE), ecc |-> F(In.ecc, ECC), rsai |-> F(In.rsai, RSAI), th |-> F(In.th, TH)])
=============================================================================
