SPECIFICATION Spec
CONSTANTS MaxEdits = 2  Dev = {"AadFromParsedHeader"}  Mode = "wrap"  TagBound = FALSE
INVARIANT AuthPlain
CHECK_DEADLOCK FALSE
