SPECIFICATION Spec
CONSTANTS Dev = {"P2cRange"}
INVARIANT NoEscape
CHECK_DEADLOCK FALSE
