SPECIFICATION Spec
CONSTANTS Dev = {}  Family = "pbes2"
INVARIANT Sound
INVARIANT NoViolatedOperates
INVARIANT Export
CHECK_DEADLOCK FALSE
