SPECIFICATION Spec
CONSTANTS MaxOps = 5  Dev = {"KidWrittenToParams"}
INVARIANT NoLeak
INVARIANT KidIsOwn
CHECK_DEADLOCK FALSE
