SPECIFICATION Spec
CONSTANTS Dev = {"EmptyProtectedSigned"}
INVARIANT RoundTrip
INVARIANT KidRecorded
PROPERTY DetachKeeps
CHECK_DEADLOCK FALSE
