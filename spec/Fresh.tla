-------------------------------- MODULE Fresh --------------------------------
(***************************************************************************)
(* Property C18: every encryption and key generation draws fresh           *)
(* randomness of the right size.                                            *)
(*                                                                         *)
(* State: per kind of random value, the set of values drawn so far and two *)
(* bit accumulators (AND / OR over all draws of that kind and length).     *)
(* Draw(kind, v, want) is enabled only for a value never drawn before and  *)
(* of exactly the length the algorithm requires (at least, for the PBES2   *)
(* salt input).  A run of the real library is a behaviour of this spec iff *)
(* every recorded draw is an enabled Draw step (TraceFresh.tla).           *)
(***************************************************************************)
EXTENDS JoseDefs, Bitwise, TLC

Kinds == {"iv", "cek", "gcmkw_iv", "p2s", "epk", "genkey"}
\* required length in octets of a value of `kind` for the algorithms named in `ctx` (0 = no fixed length)
WantLen(kind, ctx) ==
  CASE kind = "iv"       -> JweEncOf(ctx.enc).iv \div 8
    [] kind = "cek"      -> JweEncOf(ctx.enc).cek \div 8
    [] kind = "gcmkw_iv" -> 12
    [] kind = "p2s"      -> 8                         \* at least
    [] kind = "epk"      -> IF ctx.crv \in EcCurves THEN EcCoordLen(ctx.crv) ELSE OkpLen(ctx.crv)
    [] kind = "genkey"   -> ctx.len
LenOk(kind, v, ctx) == IF kind = "p2s" THEN Len(v) >= WantLen(kind, ctx) ELSE Len(v) = WantLen(kind, ctx)

VARIABLES used, andAcc, orAcc, draws
fvars == <<used, andAcc, orAcc, draws>>

FInit == /\ used = [k \in Kinds |-> {}] /\ andAcc = [k \in Kinds |-> <<>>] /\ orAcc = [k \in Kinds |-> <<>>]
         /\ draws = [k \in Kinds |-> 0]

Acc(op(_, _), acc, v) == IF Len(acc) # Len(v) THEN v ELSE [i \in 1..Len(v) |-> op(acc[i], v[i])]
BAnd(a, b) == a & b
BOr(a, b) == a | b

Fresh(kind, v) == v \notin used[kind]
Draw(kind, v, ctx) ==
  /\ Fresh(kind, v)
  /\ LenOk(kind, v, ctx)
  /\ used' = [used EXCEPT ![kind] = @ \cup {v}]
  /\ andAcc' = [andAcc EXCEPT ![kind] = Acc(BAnd, @, v)]
  /\ orAcc' = [orAcc EXCEPT ![kind] = Acc(BOr, @, v)]
  /\ draws' = [draws EXCEPT ![kind] = @ + 1]

\* after enough draws of a uniformly random kind no bit position is constant
NoFixedBit(kind) == draws[kind] >= 64 =>
   /\ \A i \in 1..Len(andAcc[kind]) : andAcc[kind][i] = 0
   /\ \A i \in 1..Len(orAcc[kind]) : orAcc[kind][i] = 255
Unique(kind) == Cardinality(used[kind]) = draws[kind]
=============================================================================
