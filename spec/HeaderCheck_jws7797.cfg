SPECIFICATION Spec
CONSTANTS Dev = {}  Family = "jws7797"
INVARIANT Sound
INVARIANT NoViolatedOperates
INVARIANT Export
CHECK_DEADLOCK FALSE
