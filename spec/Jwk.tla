-------------------------------- MODULE Jwk --------------------------------
(***************************************************************************)
(* Properties C11 (import/export round trips), C12 (public outputs carry   *)
(* no private material) and C13 (RFC 7638 thumbprints, kid assignment).    *)
(*                                                                         *)
(* A key object = (material, private?, how it was loaded, kid, optional    *)
(* members).  The material never changes along a lineage of export/import  *)
(* steps; what may change is whether private material is still held, the   *)
(* kid and the optional members.  Every output carries an information-flow *)
(* label: does it depend on private atoms of the material?                 *)
(* Behaviours (chains of operations) are exported and replayed on real     *)
(* keys; after each step the harness projects the real object back to this *)
(* state and checks the concrete encodings against JoseDefs / Wire.tla.    *)
(***************************************************************************)
EXTENDS JoseDefs, TLC, Json

CONSTANTS MaxOps, Dev, Kty,
          ExportEvery      \* 1: every complete behaviour is exported; n: every n-th distinct state (quick tier replays a sample anyway)
DevNames == {"PublicExportLeaks", "PrivateOnPublicSilent", "KidOverwritten", "ThumbUsesOptional", "PemKeepsKid", "SetExportIgnoresFlag",
             "PublicKeySkipsFilter"}
ASSUME Dev \subseteq DevNames

Forms == IF Kty = "oct" THEN {"jwk"} ELSE {"jwk", "pem", "der"}
PrivFlags == {"true", "false", "none"}                  \* private=True / False / None (None = as held)
Kids == {"none", "given", "thumb"}

VARIABLES obj, hist, lastOut
vars == <<obj, hist, lastOut>>
\* stray: a public-only key whose JWK view nevertheless carries private-named members (given in the JWK - RSA CRT members
\* without d - or through the parameters argument): "arbitrary extra parameters"
Obj(priv, origin, kid, extras, stray) == [priv |-> priv, origin |-> origin, kid |-> kid, extras |-> extras, stray |-> stray]
Out(kind, private, ok) == [kind |-> kind, carriesPrivate |-> private, ok |-> ok]
NoOut == Out("none", FALSE, TRUE)

Init == /\ \E p \in BOOLEAN, o \in {"generated"} \cup Forms, k \in {"none", "given"}, x \in BOOLEAN, st \in BOOLEAN :
             /\ (st => ~p /\ Kty # "oct" /\ o # "generated")
             /\ (Kty = "oct" => p)                       \* a symmetric key is always private
             /\ (o \in {"pem", "der", "generated"} => (k = "none" \/ x))    \* kid/extras come as import parameters then
             /\ (k = "given" => x)
             /\ obj = Obj(p, o, k, x, st)
        /\ hist = <<>> /\ lastOut = NoOut

Step(op, o2, out) == /\ Len(hist) < MaxOps /\ obj' = o2 /\ lastOut' = out
                     /\ hist' = Append(hist, [op |-> op, before |-> obj, obj |-> o2, out |-> out])

\* export in a form with a private flag, then import the artefact again
Transfer ==
  \E f \in Forms, p \in PrivFlags, pw \in BOOLEAN :
    /\ (pw => f # "jwk" /\ p # "false")
    /\ (Kty = "oct" => p # "false")
    /\ (obj.stray /\ f = "jwk" => p = "false")   \* the as-held JWK of such an object is not a public output; only its public exports are judged          \* the public form of a symmetric key holds no key: nothing to import
    /\ LET wantPriv == IF p = "none" THEN obj.priv ELSE p = "true"
           illegal == p = "true" /\ ~obj.priv
           leaks == "PublicExportLeaks" \in Dev /\ p = "false" /\ obj.priv
       IN IF illegal
          THEN IF "PrivateOnPublicSilent" \in Dev
               THEN Step(<<"transfer", f, p, pw>>, obj, Out(f, FALSE, TRUE))
               ELSE Step(<<"transfer", f, p, pw>>, obj, Out(f, FALSE, FALSE))          \* an error, not a silent public export
          ELSE Step(<<"transfer", f, p, pw>>,
                    Obj((wantPriv /\ obj.priv) \/ leaks, f,
                        IF f = "jwk" \/ "PemKeepsKid" \in Dev THEN obj.kid ELSE "none",
                        IF f = "jwk" THEN obj.extras ELSE FALSE,
                        f = "jwk" /\ obj.stray /\ (p # "false" \/ "PublicKeySkipsFilter" \in Dev)),
                    Out(f, (wantPriv /\ obj.priv) \/ leaks \/ (f = "jwk" /\ obj.stray /\ (p # "false" \/ "PublicKeySkipsFilter" \in Dev)), TRUE))
Thumbprint == Step(<<"thumbprint">>, obj, Out("thumbprint", "ThumbUsesOptional" \in Dev /\ obj.extras /\ FALSE, TRUE))
EnsureKid == Step(<<"ensure_kid">>,
                  [obj EXCEPT !.kid = IF obj.kid = "none" \/ "KidOverwritten" \in Dev THEN "thumb" ELSE obj.kid],
                  Out("kid", FALSE, TRUE))
AsDictPublic == Step(<<"as_dict_public">>, obj, Out("jwk", ("PublicExportLeaks" \in Dev /\ obj.priv) \/ ("PublicKeySkipsFilter" \in Dev /\ obj.stray), TRUE))
SetExportPublic == Step(<<"keyset_public">>, [obj EXCEPT !.kid = IF obj.kid = "none" THEN "thumb" ELSE obj.kid],
                        Out("jwks", ("SetExportIgnoresFlag" \in Dev /\ obj.priv) \/ ("PublicKeySkipsFilter" \in Dev /\ obj.stray), TRUE))
Next == Transfer \/ Thumbprint \/ EnsureKid \/ AsDictPublic \/ SetExportPublic
Spec == Init /\ [][Next]_vars

\* ---- properties
\* C12: whatever is exported as public carries no private atoms; a private export of a public-only key is an error
PublicClean == \A i \in 1..Len(hist) :
   LET h == hist[i] IN
   /\ (h.op[1] \in {"as_dict_public", "keyset_public", "thumbprint", "ensure_kid"} => ~h.out.carriesPrivate)
   /\ (h.op[1] = "transfer" /\ h.op[3] = "false" => ~h.out.carriesPrivate)
PrivateOnPublicIsError == \A i \in 1..Len(hist) :
   LET h == hist[i] IN (h.op[1] = "transfer" /\ h.op[3] = "true" /\ ~h.before.priv) => ~h.out.ok
\* C11: private material is never gained; it is kept whenever the export carried it
NoPrivateGain == \A i \in 1..Len(hist) : hist[i].obj.priv => hist[i].before.priv
PrivateKept == \A i \in 1..Len(hist) :
   LET h == hist[i] IN (h.op[1] = "transfer" /\ h.before.priv /\ h.op[3] # "false") => h.obj.priv
\* C13: a kid, once present, is never overwritten on the same object, and travels with the key in JWK form
KidStable == \A i \in 1..Len(hist) :
   LET h == hist[i] IN
   /\ (h.before.kid # "none" /\ (h.op[1] # "transfer" \/ h.op[2] = "jwk") /\ h.out.ok) => h.obj.kid = h.before.kid
   /\ (h.op[1] \in {"ensure_kid", "keyset_public"} /\ h.before.kid = "none") => h.obj.kid = "thumb"
   /\ (h.op[1] = "transfer" /\ h.op[2] # "jwk" /\ h.out.ok) => h.obj.kid = "none"
Export == (Len(hist) = MaxOps /\ (ExportEvery = 1 \/ TLCGet("distinct") % ExportEvery = 0)) => PrintT("CASE " \o ToJson([kty |-> Kty, hist |-> hist]))
=============================================================================
