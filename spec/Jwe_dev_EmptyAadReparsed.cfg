SPECIFICATION Spec
CONSTANTS MaxEdits = 2  Dev = {"EmptyAadReparsed"}  Mode = "wrap"  TagBound = FALSE
INVARIANT AuthPlain
CHECK_DEADLOCK FALSE
