------------------------------ MODULE ZipHistory ------------------------------
(***************************************************************************)
(* Property C17 over histories of one consumer: whether the plaintext of a *)
(* token goes through the bounded decompressor is decided by the "zip"     *)
(* member of the protected header RECEIVED WITH THAT TOKEN - nothing a     *)
(* caller did to the object returned for an earlier token changes it.      *)
(* Tokens: Z1, Z2 carry zip=DEF and byte-identical protected headers       *)
(* (direct encryption: nothing in the header is per-message), ZB is Z1's   *)
(* header over a plaintext that inflates beyond the limit, P1 carries no   *)
(* zip.  Between two decryptions the caller may edit the header object it  *)
(* was handed (forwarding the message uncompressed, or compressed).        *)
(*   ParsedHeaderShared (deviation): the decoded header is remembered per  *)
(*   header segment and handed to every token that carries that segment.   *)
(***************************************************************************)
EXTENDS Naturals, Sequences, TLC, Json

CONSTANTS Dev, MaxOps
ASSUME Dev \subseteq {"ParsedHeaderShared"}
Tokens == {"Z1", "Z2", "ZB", "P1"}
SegOf(t) == IF t = "P1" THEN "plain" ELSE "zip"
HasZip(t) == t # "P1"
Edits == {"pop_zip", "set_zip"}

VARIABLES hist, shared, last, results
vars == <<hist, shared, last, results>>
\* shared: for each header segment, whether the remembered dict currently has "zip" ("unset": not decoded yet)
Init == hist = <<>> /\ shared = [s \in {"zip", "plain"} |-> "unset"] /\ last = "none" /\ results = <<>>
Decrypt(t) ==
  /\ Len(hist) < MaxOps
  /\ LET seg == SegOf(t)
         remembered == "ParsedHeaderShared" \in Dev /\ shared[seg] # "unset"
         inflate == IF remembered THEN shared[seg] = "has" ELSE HasZip(t)
     IN /\ results' = Append(results, [token |-> t, inflated |-> inflate])
        /\ shared' = IF shared[seg] = "unset" THEN [shared EXCEPT ![seg] = IF HasZip(t) THEN "has" ELSE "hasnot"] ELSE shared
  /\ hist' = Append(hist, t) /\ last' = t
Edit(e) ==
  /\ Len(hist) < MaxOps - 1 /\ last # "none" /\ hist[Len(hist)] \in Tokens
  /\ shared' = IF "ParsedHeaderShared" \in Dev THEN [shared EXCEPT ![SegOf(last)] = IF e = "pop_zip" THEN "hasnot" ELSE "has"] ELSE shared
  /\ hist' = Append(hist, e) /\ UNCHANGED <<last, results>>
Next == (\E t \in Tokens : Decrypt(t)) \/ (\E e \in Edits : Edit(e))
Spec == Init /\ [][Next]_vars

ByItsOwnHeader == \A i \in 1..Len(results) : results[i].inflated = HasZip(results[i].token)
Export == (Len(hist) = MaxOps /\ hist[MaxOps] \in Tokens) => PrintT("CASE " \o ToJson(hist))
=============================================================================
