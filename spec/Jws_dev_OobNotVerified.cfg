SPECIFICATION Spec
CONSTANTS MaxEdits = 1  Dev = {"OobNotVerified"}  RawMode = TRUE
INVARIANT AuthOnly
CHECK_DEADLOCK FALSE
