SPECIFICATION Spec
CONSTANTS Dev = {"KeyTypeGateMissing"}
INVARIANT NoEscape
CHECK_DEADLOCK FALSE
