SPECIFICATION Spec
CONSTANTS Dev = {}  Family = "jws"
INVARIANT Sound
INVARIANT NoViolatedOperates
INVARIANT Export
CHECK_DEADLOCK FALSE
