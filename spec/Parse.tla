------------------------------- MODULE Parse -------------------------------
(***************************************************************************)
(* Property C16: untrusted tokens are rejected only with JoseError or      *)
(* ValueError.  An exception-flow model of the consuming entry points.     *)
(*                                                                         *)
(* A case is a valid baseline token for an entry point in which one slot   *)
(* carries attacker content of some class.  The entry point is a pipeline  *)
(* of stages; each stage applies primitives that have *domains* (iterating *)
(* needs an iterable, dict lookup needs a hashable present key, PBKDF2     *)
(* needs 1 <= count < 2^31, inflate needs a valid stream, ...).  A value   *)
(* outside the domain of the primitive that first touches it raises that   *)
(* primitive's native exception; the stage's guard (type validation before *)
(* use, or a try/except that maps to DecodeError/ValueError) decides what  *)
(* the caller sees.  NoEscape: the caller only ever sees a return, a       *)
(* JoseError or a ValueError.                                              *)
(***************************************************************************)
EXTENDS Naturals, Sequences, FiniteSets, TLC, Json

CONSTANTS Dev
\* each deviation removes one guard (these are the escapes found on the original tree)
DevNames == {"HeaderNotObject", "CritUnvalidated", "EncUnhashable", "EncMissingJson", "EpkCrvLookup", "P2cRange",
             "InflateError", "DeepJson", "SegmentTypeConfusion", "LenientSkipsAlgParams", "KeyTypeGateMissing", "DeepClaims"}
ASSUME Dev \subseteq DevNames

JwsEntries == {"jws.compact", "jws.flattened", "jws.general", "7797.compact", "7797.flattened", "jwt.jws"}
JweEntries == {"jwe.compact", "jwe.flattened", "jwe.general", "jwt.jwe"}
Entries == JwsEntries \cup JweEntries
IsJson(e) == e \in {"jws.flattened", "jws.general", "7797.flattened", "jwe.flattened", "jwe.general"}
IsJwe(e) == e \in JweEntries

JT == {"absent", "str_ok", "str_bad", "int_pos", "int_zero", "int_neg", "int_big", "float", "true", "false", "null",
       "list_empty", "list_str", "list_mixed", "list_nested", "obj_empty", "obj_ok", "obj_bad", "deep"}
SegClasses == {"bad_alphabet", "len1mod4", "empty", "nonascii", "padded", "whitespace", "other_valid"}
\* table_value: every well-formed value the member's own table lists (all eight key_ops values, both uses, every kty and crv
\* name), alone and next to the members it is cross-checked against
EpkClasses == {"absent", "str_unknown", "str_otherkty", "str_badb64", "str_shortb64", "int", "list", "null", "obj", "list_nested", "list_obj", "bool", "float", "deep",
               "table_value"}

CommonMembers == {"alg", "kid", "typ", "cty", "jku", "jwk", "x5c", "crit", "unknown"}
JwsMembers == CommonMembers \cup {"b64"}
JweMembers == CommonMembers \cup {"enc", "zip", "epk", "apu", "apv", "p2s", "p2c", "iv", "tag", "skid"}

\* the caller's registry configuration is part of the case: `strict_check_header=False` only stops *unknown* names from
\* being refused, `verify_all_recipients=False` only lets a later recipient succeed; neither removes a guard
RegsOf(e) == {"default", "lenient"} \cup (IF e = "jwe.general" THEN {"lenient_any"} ELSE {})

\* ------------------------------------------------------------------ slots
Slot(kind, name, pos) == [kind |-> kind, name |-> name, pos |-> pos]
Positions(e) == IF ~IsJson(e) THEN {"protected"} ELSE IF IsJwe(e) THEN {"protected", "unprotected", "recipient"} ELSE {"protected", "unprotected"}
Segments(e) == IF IsJwe(e) THEN {"header", "ek", "iv", "ciphertext", "tag"} \cup (IF IsJson(e) THEN {"aad"} ELSE {})
               ELSE {"header", "payload", "signature"}
SlotsOf(e) ==
  {Slot("hdr_type", "protected", "protected")}
  \cup {Slot("member", m, p) : m \in (IF IsJwe(e) THEN JweMembers ELSE JwsMembers), p \in Positions(e)}
  \cup (IF IsJwe(e) THEN {Slot("epk", s, p) : s \in {"kty", "crv", "x", "y", "d", "use", "key_ops", "alg", "kid", "x5c", "x5u", "unknown"}, p \in Positions(e)} ELSE {})
  \cup {Slot("segment", s, "wire") : s \in Segments(e)}
  \cup (IF IsJson(e) THEN {Slot("json_shape", s, "wire") : s \in {"unprotected_type", "entry_list", "entry_missing_member", "protected_absent"}}
        ELSE {Slot("compact_shape", s, "wire") : s \in {"dots", "empty", "not_utf8", "huge"}})
  \cup (IF IsJwe(e) THEN {Slot("inner", "deflate", "wire")} ELSE {})
  \cup (IF e \in {"jwt.jws", "jwt.jwe"} THEN {Slot("inner", "claims", "wire")} ELSE {})
ClassesOf(s) ==
  CASE s.kind \in {"hdr_type", "member"} -> (JT \ (IF s.kind = "hdr_type" THEN {"absent", "obj_ok"} ELSE {}))
                                             \* other_family: an allowed algorithm of another key family than the key the verifier holds (the attacker names it)
                                             \cup (IF s.kind = "member" /\ s.name = "alg" THEN {"other_family"} ELSE {})
    [] s.kind = "epk" -> EpkClasses
    [] s.kind = "segment" -> SegClasses
    [] s.kind = "json_shape" -> {"list", "str", "int", "null", "empty_list", "list_of_nondict", "missing"}
    [] s.kind = "compact_shape" -> {"0", "1", "3", "5", "6", "empty", "not_utf8", "huge"}
    [] s.kind = "inner" -> {"corrupt", "truncated", "empty", "notjson", "nonobject", "bomb", "short"}   \* short: one or two octets
                           \cup (IF s.name = "claims" THEN {"deep"} ELSE {})                              \* authenticated claims nested beyond the decoder's reach

\* ------------------------------------------------------------------ pipeline
\* stage at which the slot's content is first touched by a primitive with a domain
Stage(s) ==
  CASE s.kind = "compact_shape" -> "split"
    [] s.kind = "json_shape" -> "extract"
    [] s.kind = "segment" -> "decode_segments"
    [] s.kind = "hdr_type" -> "decode_header"
    [] s.kind = "member" /\ s.name = "crit" -> "check_crit"
    [] s.kind = "member" /\ s.name \in {"enc", "zip"} -> "get_enc"
    [] s.kind = "member" /\ s.name \in {"p2c", "p2s", "iv", "tag", "apu", "apv", "epk", "skid"} -> "key_management"
    [] s.kind = "member" -> "check_header"
    [] s.kind = "epk" -> "key_management"
    [] s.kind = "inner" -> "post"
\* the algorithm of another family passes every header check (it is a well-formed, allowed name): the key meets the primitive
StageOf(s, c) == IF c = "other_family" THEN "crypto" ELSE Stage(s)
Stages == <<"split", "extract", "decode_segments", "decode_header", "check_crit", "get_enc", "check_header", "key_management", "crypto", "post">>

\* native exception the unguarded primitive would raise for the slot/class ("none": in the domain)
Native(s, c) ==
  CASE s.kind = "hdr_type" -> IF c \in {"obj_empty"} THEN "none" ELSE "TypeError"          \* `"alg" in 5`, `header["enc"]`
    [] s.kind = "member" /\ s.name = "crit" /\ c \in {"int_pos", "int_zero", "int_neg", "int_big", "float", "true", "false", "null", "list_nested", "obj_bad"} -> "TypeError"
    [] s.kind = "member" /\ s.name \in {"enc", "zip", "alg"} /\ c \in {"list_empty", "list_str", "list_mixed", "list_nested", "obj_empty", "obj_ok", "obj_bad"} -> "TypeError"  \* unhashable
    [] s.kind = "member" /\ s.name = "enc" /\ c = "absent" -> "KeyError"
    [] s.kind = "member" /\ s.name = "p2c" /\ c \in {"int_neg", "int_big", "int_zero"} -> "OverflowError"
    [] s.kind = "member" /\ c = "other_family" -> "TypeError"                                  \* hmac / sign / verify handed a foreign key object
    [] s.kind = "inner" /\ s.name = "claims" /\ c = "deep" -> "RecursionError"
    [] s.kind = "member" /\ c = "deep" -> "RecursionError"
    [] s.kind = "epk" /\ s.name = "crv" /\ c \in {"str_unknown", "str_otherkty"} -> "KeyError"
    [] s.kind = "epk" /\ c \in {"int", "list", "null", "obj", "list_nested", "list_obj", "bool", "float"} -> "TypeError"
    [] s.kind = "epk" /\ c = "deep" -> "RecursionError"
    [] s.kind = "epk" /\ c = "table_value" /\ s.name \in {"use", "key_ops", "kty", "crv"} -> "KeyError"      \* a lookup table that lacks the row
    [] s.kind = "inner" /\ s.name = "deflate" /\ c \in {"corrupt", "truncated", "short"} -> "zlib.error"
    [] s.kind = "json_shape" /\ c \in {"list", "str", "int", "null", "list_of_nondict"} -> "TypeError"
    [] s.kind = "segment" -> "binascii.Error"          \* a ValueError already
    [] OTHER -> "none"

Guarded(s, c, r) ==
  ~ \/ ("LenientSkipsAlgParams" \in Dev /\ r # "default" /\ Stage(s) = "key_management")
    \/ ("HeaderNotObject" \in Dev /\ s.kind = "hdr_type")
    \/ ("CritUnvalidated" \in Dev /\ s.kind = "member" /\ s.name = "crit")
    \/ ("EncUnhashable" \in Dev /\ s.kind = "member" /\ s.name \in {"enc", "zip"} /\ c # "absent")
    \/ ("EncMissingJson" \in Dev /\ s.kind = "member" /\ s.name = "enc" /\ c = "absent")
    \/ ("EpkCrvLookup" \in Dev /\ s.kind = "epk")
    \/ ("P2cRange" \in Dev /\ s.kind = "member" /\ s.name = "p2c")
    \/ ("InflateError" \in Dev /\ s.kind = "inner" /\ s.name = "deflate")
    \/ ("DeepJson" \in Dev /\ c = "deep" /\ s.kind # "inner")
    \/ ("DeepClaims" \in Dev /\ c = "deep" /\ s.kind = "inner")
    \/ ("KeyTypeGateMissing" \in Dev /\ c = "other_family")
    \/ ("SegmentTypeConfusion" \in Dev /\ s.kind = "json_shape")

VARIABLES case, at, seen
vars == <<case, at, seen>>

Init == /\ at = 1 /\ seen = "none"
        /\ \E e \in Entries : \E s \in SlotsOf(e) : \E c \in ClassesOf(s) : \E r \in RegsOf(e) : case = [entry |-> e, slot |-> s, class |-> c, reg |-> r]

Advance ==
  /\ seen = "none" /\ at <= Len(Stages)
  /\ IF Stages[at] = StageOf(case.slot, case.class) /\ Native(case.slot, case.class) # "none"
     THEN seen' = IF Native(case.slot, case.class) = "binascii.Error" THEN "value_error"
                  ELSE IF Guarded(case.slot, case.class, case.reg) THEN "jose_or_value_error" ELSE "escape:" \o Native(case.slot, case.class)
     ELSE seen' = IF at = Len(Stages) THEN "return_or_jose" ELSE "none"
  /\ at' = at + 1 /\ UNCHANGED case
Next == Advance
Spec == Init /\ [][Next]_vars

NoEscape == seen \in {"none", "value_error", "jose_or_value_error", "return_or_jose"}
Export == at = 1 => PrintT("CASE " \o ToJson([c |-> case, stage |-> StageOf(case.slot, case.class), native |-> Native(case.slot, case.class)]))
=============================================================================
