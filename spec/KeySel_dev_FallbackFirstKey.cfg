SPECIFICATION Spec
CONSTANTS Dev = {"FallbackFirstKey"}  Side = "jws"  MaxSet = 2
INVARIANT Sound
INVARIANT RightKey
CHECK_DEADLOCK FALSE
