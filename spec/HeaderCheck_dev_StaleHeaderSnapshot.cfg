SPECIFICATION Spec
CONSTANTS Dev = {"StaleHeaderSnapshot"}  Family = "kw"
INVARIANT Sound
INVARIANT NoViolatedOperates
CHECK_DEADLOCK FALSE
