------------------------------- MODULE Claims -------------------------------
(***************************************************************************)
(* Property C10: JWTClaimsRegistry(now, leeway, **request).validate(claims) *)
(*                                                                         *)
(* Layer D (declarative): Allowed(case), written from the statement.       *)
(* Layer O (operational): the code's decision procedure, one action per     *)
(* stage: essential pass, then the claims in dict order, each dispatched to *)
(* validate_exp/nbf/iat/aud or check_value.                                 *)
(* TLC checks O |= D over every case and exports each case with its        *)
(* allowed outcome set for replay against the real code (binding B1).      *)
(*                                                                         *)
(* Time is in half-second ticks relative to `now` (tick 0), so that        *)
(* now-leeway-1/2 exists; leeway Lw is an even number of ticks.            *)
(***************************************************************************)
EXTENDS Integers, Sequences, FiniteSets, TLC, Json

CONSTANTS LwSet,      \* set of leeways (even ticks) explored
          Dev,        \* set of named deviations of layer O (empty = intended design)
          Family      \* "single" | "pair" : which family of cases this run enumerates

DevNames == {"BoolIsNumber", "LeewaySignFlipped", "EssentialNullAccepted", "ValuesAsValue",
             "BlankDefaultAllowed", "AudNeedsAll"}
ASSUME Dev \subseteq DevNames

TimeNames == {"exp", "nbf", "iat"}
Names == {"iss", "sub", "aud", "jti", "priv"} \cup TimeNames

\* ------------------------------------------------------------------ JSON values
Absent == [k |-> "absent"]
Null   == [k |-> "null"]
Obj    == [k |-> "obj"]
S(x)   == [k |-> "str", s |-> x]
N(t)   == [k |-> "num", n |-> t]          \* t: tick
B(b)   == [k |-> "bool", b |-> b]
L(q)   == [k |-> "list", l |-> q]         \* q: sequence of scalar values

VEq(a, b) ==
  /\ a.k = b.k
  /\ CASE a.k = "str"  -> a.s = b.s
       [] a.k = "num"  -> a.n = b.n
       [] a.k = "bool" -> a.b = b.b
       [] a.k = "list" -> /\ Len(a.l) = Len(b.l)
                          /\ \A i \in 1..Len(a.l) :
                               /\ a.l[i].k = b.l[i].k
                               /\ CASE a.l[i].k = "str" -> a.l[i].s = b.l[i].s
                                    [] a.l[i].k = "num" -> a.l[i].n = b.l[i].n
                                    [] OTHER -> TRUE
       [] OTHER -> TRUE
InSeq(x, q) == \E i \in 1..Len(q) : VEq(q[i], x)
IsNumber(v) == v.k = "num"
IsBlank(v)  == v.k = "str" /\ v.s = ""

\* ------------------------------------------------------------------ requests
\* option record: ess, blank \in {"absent","true","false"}; req \in none / value / values / both
NoReq == [k |-> "none"]
ReqValue(v)  == [k |-> "value", v |-> v]
ReqValues(q) == [k |-> "values", q |-> q]
ReqBoth(v, q) == [k |-> "both", v |-> v, q |-> q]
Opt(e, r, b) == [ess |-> e, req |-> r, blank |-> b]
NoOpt == [ess |-> "none"]                  \* the claim carries no request at all
HasOpt(o) == o.ess # "none"
Essential(o) == HasOpt(o) /\ o.ess = "true"
BlankAllowed(o) == HasOpt(o) /\ o.blank = "true"
\* `iss={}`: a request object with no member.  The code treats it as no request; the statement
\* does not say, so a blank value under it is a don't-care corner.
EmptyReq(o) == HasOpt(o) /\ o.ess = "absent" /\ o.blank = "absent" /\ o.req.k = "none"

\* ------------------------------------------------------------------ case space
Tri == {"absent", "true", "false"}

Ticks(lw) == {-lw - 2, -lw - 1, -lw, -lw + 1, -lw + 2, 0, lw - 1, lw, lw + 1, lw + 2}

ValsFull(lw) ==
  {Absent, Null, Obj, S(""), S("a"), S("b"), S("ab"), B(TRUE), B(FALSE),
   L(<<>>), L(<<S("a")>>), L(<<S("a"), S("b")>>), L(<<S("c")>>), L(<<S(""), S("b")>>), L(<<N(0)>>)}
  \cup {N(t) : t \in Ticks(lw)}

ReqsFull ==
  {NoReq, ReqValue(S("a")), ReqValue(S("b")), ReqValue(N(0)), ReqValue(N(2)),
   ReqValues(<<>>), ReqValues(<<S("a")>>), ReqValues(<<S("a"), S("b")>>), ReqValues(<<S("c"), N(0)>>),
   ReqValues(<<S("")>>),
   ReqBoth(S("a"), <<S("a"), S("b")>>), ReqBoth(S("a"), <<S("b")>>)}

OptsFull == {NoOpt} \cup {Opt(e, r, b) : e \in Tri, r \in ReqsFull, b \in Tri}

\* reduced sets for pairs of claims (error priority / interaction)
ValsSmall(lw) == {Absent, Null, S(""), S("a"), B(TRUE), N(-lw - 1), N(lw + 1), N(0), L(<<S("a")>>)}
OptsSmall == {NoOpt, Opt("true", NoReq, "absent"), Opt("absent", ReqValue(S("a")), "absent"),
              Opt("false", ReqValues(<<S("b")>>), "true"), Opt("true", ReqValue(N(0)), "false")}
PairNames == {"iss", "aud", "exp", "nbf", "priv"}

\* a case: leeway, up to two entries [n, v, o] in claims-dict order (v = Absent: not in the dict)
Entry(n, v, o) == [n |-> n, v |-> v, o |-> o]
\* (cases are enumerated by nested quantifiers in Init: TLC never builds the product set)
AllValsFull == UNION {ValsFull(l) : l \in LwSet}
AllValsSmall == UNION {ValsSmall(l) : l \in LwSet}

\* ------------------------------------------------------------------ layer D
Present(e) == e.v.k # "absent"

\* audiences of the token
AudList(v) == IF v.k = "list" THEN v.l ELSE <<v>>

\* request on a non-aud claim satisfied by value v
ReqOk(r, v) ==
  CASE r.k = "none"   -> TRUE
    [] r.k = "value"  -> VEq(v, r.v)
    [] r.k = "values" -> InSeq(v, r.q)
    [] r.k = "both"   -> VEq(v, r.v) \/ InSeq(v, r.q)
\* aud: at least one requested audience is among the token's audiences
Requested(r) == CASE r.k = "none" -> <<>> [] r.k = "value" -> <<r.v>> [] r.k = "values" -> r.q
                  [] r.k = "both" -> r.q
AudOk(r, v) == r.k = "none" \/ \E i \in 1..Len(Requested(r)) : InSeq(Requested(r)[i], AudList(v))

\* corners the statement leaves open (either verdict accepted) - see DESIGN.md section 5
SoftEntry(lw, e) ==
  IF ~Present(e) THEN {} ELSE
  (IF e.n = "exp" /\ IsNumber(e.v) /\ e.v.n = -lw THEN {"ok", "expired"} ELSE {})
  \cup (IF HasOpt(e.o) /\ e.n # "aud" /\ e.o.req.k = "both" /\ ~(VEq(e.v, e.o.req.v) /\ InSeq(e.v, e.o.req.q))
        THEN {"ok", "invalid"} ELSE {})
  \cup (IF EmptyReq(e.o) /\ e.n # "aud" /\ IsBlank(e.v) THEN {"ok", "invalid"} ELSE {})
  \cup (IF HasOpt(e.o) /\ e.n = "aud" /\ e.o.req.k = "both" THEN {"ok", "invalid"} ELSE {})
  \cup (IF e.n = "aud" /\ HasOpt(e.o) /\ e.o.req.k \in {"values", "both"} /\ Len(e.o.req.q) = 0
        THEN {"ok", "invalid"} ELSE {})
  \cup (IF e.n = "aud" /\ HasOpt(e.o) /\ e.o.req.k \in {"value"} /\ IsBlank(e.o.req.v)
        THEN {"ok", "invalid"} ELSE {})

HardEntry(lw, e) ==
  (IF Essential(e.o) /\ (~Present(e) \/ e.v.k = "null") THEN {"missing"} ELSE {})
  \cup
  (IF ~Present(e) THEN {} ELSE
     (IF e.n \in TimeNames /\ ~IsNumber(e.v) THEN {"invalid"} ELSE {})
     \cup (IF e.n = "exp" /\ IsNumber(e.v) /\ e.v.n < -lw THEN {"expired"} ELSE {})
     \cup (IF e.n \in {"nbf", "iat"} /\ IsNumber(e.v) /\ e.v.n > lw THEN {"notyet"} ELSE {})
     \cup (IF HasOpt(e.o) /\ e.n # "aud" /\ ~(e.n \in TimeNames /\ ~IsNumber(e.v))
              /\ ( (IsBlank(e.v) /\ ~BlankAllowed(e.o) /\ ~EmptyReq(e.o)) \/ ~ReqOk(e.o.req, e.v) )
           THEN {"invalid"} ELSE {})
     \cup (IF HasOpt(e.o) /\ e.n = "aud" /\ e.o.req.k \in {"value", "values"} /\ ~AudOk(e.o.req, e.v)
              /\ ~(e.o.req.k = "values" /\ Len(e.o.req.q) = 0)
              /\ ~(e.o.req.k = "value" /\ IsBlank(e.o.req.v))
           THEN {"invalid"} ELSE {}))

Hard(c) == UNION {HardEntry(c.lw, c.e[i]) : i \in 1..Len(c.e)}
Soft(c) == UNION {SoftEntry(c.lw, c.e[i]) : i \in 1..Len(c.e)}
Allowed(c) == IF Hard(c) = {} THEN {"ok"} \cup Soft(c) ELSE Hard(c) \cup (Soft(c) \ {"ok"})

\* ------------------------------------------------------------------ layer O
VARIABLES case, pc, idx, out
vars == <<case, pc, idx, out>>

Init ==
  /\ pc = "essential" /\ idx = 1 /\ out = "none"
  /\ \E lw \in LwSet :
       IF Family = "single"
       THEN \E n \in Names, v \in AllValsFull, o \in OptsFull : case = [lw |-> lw, e |-> <<Entry(n, v, o)>>]
       ELSE \E n1 \in PairNames, n2 \in PairNames \ {"iss"}, v1 \in AllValsSmall, v2 \in AllValsSmall, o1 \in OptsSmall, o2 \in OptsSmall :
              n1 # n2 /\ case = [lw |-> lw, e |-> <<Entry(n1, v1, o1), Entry(n2, v2, o2)>>]

Finish(o) == pc' = "done" /\ out' = o /\ UNCHANGED <<case, idx>>

\* ClaimsRegistry.validate: missed_keys over essential_keys
EssentialPass ==
  /\ pc = "essential"
  /\ LET missed == {i \in 1..Len(case.e) :
                       /\ Essential(case.e[i].o)
                       /\ \/ ~Present(case.e[i])
                          \/ (case.e[i].v.k = "null" /\ "EssentialNullAccepted" \notin Dev)}
     IN IF missed # {} THEN Finish("missing")
        ELSE pc' = "loop" /\ UNCHANGED <<case, idx, out>>

NumericO(v) == IsNumber(v) \/ ("BoolIsNumber" \in Dev /\ v.k = "bool")
TickOf(v) == IF v.k = "num" THEN v.n ELSE 0

\* ClaimsRegistry.check_value
CheckValueO(o, v) ==     \* TRUE = passes
  IF ~HasOpt(o) \/ EmptyReq(o) THEN TRUE ELSE     \* `if option:` is false for {}
  /\ ~(IsBlank(v) /\ ~(BlankAllowed(o) \/ ("BlankDefaultAllowed" \in Dev /\ o.blank = "absent")))
  /\ (o.req.k \in {"value", "both"} => VEq(v, o.req.v))
  /\ (o.req.k \in {"values", "both"} =>
        IF "ValuesAsValue" \in Dev THEN (Len(o.req.q) > 0 /\ VEq(v, o.req.q[1])) ELSE InSeq(v, o.req.q))

\* JWTClaimsRegistry.validate_aud
AudO(o, v) ==
  IF ~HasOpt(o) THEN TRUE ELSE
  LET wanted == IF o.req.k \in {"values", "both"} THEN o.req.q
                ELSE IF o.req.k = "value" /\ ~IsBlank(o.req.v) THEN <<o.req.v>> ELSE <<>>
  IN IF Len(wanted) = 0 THEN TRUE
     ELSE IF "AudNeedsAll" \in Dev THEN \A i \in 1..Len(wanted) : InSeq(wanted[i], AudList(v))
     ELSE \E i \in 1..Len(wanted) : InSeq(wanted[i], AudList(v))

SkipAbsent ==
  /\ pc = "loop" /\ idx <= Len(case.e) /\ ~Present(case.e[idx])
  /\ idx' = idx + 1 /\ UNCHANGED <<case, pc, out>>

LoopEnd == pc = "loop" /\ idx > Len(case.e) /\ Finish("ok")

Advance == idx' = idx + 1 /\ UNCHANGED <<case, pc, out>>

ValidateTime ==
  /\ pc = "loop" /\ idx <= Len(case.e) /\ Present(case.e[idx]) /\ case.e[idx].n \in TimeNames
  /\ LET e == case.e[idx]
         lw == IF "LeewaySignFlipped" \in Dev THEN -case.lw ELSE case.lw
     IN IF ~NumericO(e.v) THEN Finish("invalid")
        ELSE IF e.n = "exp" /\ (TickOf(e.v) < -lw) THEN Finish("expired")
        ELSE IF e.n # "exp" /\ TickOf(e.v) > lw THEN Finish("notyet")
        ELSE IF ~CheckValueO(e.o, e.v) THEN Finish("invalid")
        ELSE Advance

ValidateAud ==
  /\ pc = "loop" /\ idx <= Len(case.e) /\ Present(case.e[idx]) /\ case.e[idx].n = "aud"
  /\ IF AudO(case.e[idx].o, case.e[idx].v) THEN Advance ELSE Finish("invalid")

CheckOther ==
  /\ pc = "loop" /\ idx <= Len(case.e) /\ Present(case.e[idx])
  /\ case.e[idx].n \notin TimeNames \cup {"aud"}
  /\ IF CheckValueO(case.e[idx].o, case.e[idx].v) THEN Advance ELSE Finish("invalid")

Next == EssentialPass \/ SkipAbsent \/ LoopEnd \/ ValidateTime \/ ValidateAud \/ CheckOther
Spec == Init /\ [][Next]_vars

\* ------------------------------------------------------------------ properties
TypeOK == pc \in {"essential", "loop", "done"} /\ out \in {"none", "ok", "missing", "invalid", "expired", "notyet"}
\* O |= D : the operational procedure only produces outcomes the statement allows
Sound == pc = "done" => out \in Allowed(case)
\* never accept an expired / not-yet-valid token (the part of C10 singled out in the statement)
NeverLate == pc = "done" /\ out = "ok" =>
               \A i \in 1..Len(case.e) :
                 LET e == case.e[i] IN
                 Present(e) /\ IsNumber(e.v) =>
                   /\ (e.n = "exp" => e.v.n >= -case.lw)
                   /\ (e.n \in {"nbf", "iat"} => e.v.n <= case.lw)
Export == pc = "done" =>
            PrintT("CASE " \o ToJson([c |-> case, allowed |-> Allowed(case), predicted |-> out]))
=============================================================================
