SPECIFICATION Spec
CONSTANTS Dev = {"DeepClaims"}
INVARIANT NoEscape
CHECK_DEADLOCK FALSE
