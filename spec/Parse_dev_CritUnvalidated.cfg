SPECIFICATION Spec
CONSTANTS Dev = {"CritUnvalidated"}
INVARIANT NoEscape
CHECK_DEADLOCK FALSE
