SPECIFICATION Spec
CONSTANTS Dev = {"SegmentTypeConfusion"}
INVARIANT NoEscape
CHECK_DEADLOCK FALSE
