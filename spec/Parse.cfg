SPECIFICATION Spec
CONSTANTS Dev = {}
INVARIANT NoEscape
INVARIANT Export
CHECK_DEADLOCK FALSE
