SPECIFICATION Spec
CONSTANTS Dev = {"NonObjectClaims"}
INVARIANT OnlyObjects
INVARIANT InvalidPayload
INVARIANT IntegrityFirst
INVARIANT Faithful
INVARIANT TypDefault
INVARIANT HeaderUntouched
CHECK_DEADLOCK FALSE
