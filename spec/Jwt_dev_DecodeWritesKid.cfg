SPECIFICATION Spec
CONSTANTS Dev = {"DecodeWritesKid"}
INVARIANT HeaderAsOnWire
CHECK_DEADLOCK FALSE
