------------------------------- MODULE KeyFit -------------------------------
(***************************************************************************)
(* Property C06: an operation succeeds only with a key suited to the       *)
(* algorithm and operation.                                                 *)
(*                                                                         *)
(* Layer D: Suitable(case), written from the statement and JoseDefs.       *)
(* Layer O: the gates in the order the code fires them (use, key type,     *)
(* curve, size, key_ops, private material), per entry-point path; a path   *)
(* may lack a gate, in which case the primitive itself refuses the foreign  *)
(* key object (the RFC 7797 compact path had no key-type gate until F22).   *)
(***************************************************************************)
EXTENDS JoseDefs, TLC, Json

CONSTANTS Family, Dev
DevNames == {"UseNotChecked", "KeyOpsNotCheckedOnConsume", "SizeAtLeast", "CurveNotChecked", "RsaSizeNotChecked",
             "PublicKeyDecrypts"}
ASSUME Dev \subseteq DevNames

\* ------------------------------------------------------------------ keys
\* kind: kty, crv ("" for oct/RSA), bits (oct and RSA; 0 for curves)
Kind(kty, crv, bits) == [kty |-> kty, crv |-> crv, bits |-> bits]
KeyKinds ==
  {Kind("oct", "", b) : b \in {64, 128, 192, 256, 384, 512}} \cup {Kind("RSA", "", b) : b \in {1024, 2047, 2048}}   \* 2047: the modulus fills 256 octets but is one bit short
  \cup {Kind("EC", c, 0) : c \in EcCurves} \cup {Kind("OKP", c, 0) : c \in OkpCurves}
\* use: "" (not declared) / sig / enc ; ops: none (not declared) / has (declares the needed operation) / lacks
Key(kind, priv, use, ops) == [kind |-> kind, priv |-> priv, use |-> use, ops |-> ops]
Keys == {Key(k, p, u, o) : k \in KeyKinds, p \in BOOLEAN, u \in {"", "sig", "enc"}, o \in {"none", "has", "lacks", "empty"}}   \* empty: "key_ops": [] (declared, includes nothing)

JwsPaths == {"compact", "flattened", "general", "7797compact", "7797json", "jwt"}
JwePaths == {"compact", "flattened", "general"}

\* enc used with each JWE alg in this model (dir: the enc fixes the key size; 1PU key wrapping needs CBC-HMAC)
EncFor(alg) == IF JweAlgOf(alg).mode = "1pukw" THEN "A128CBC-HS256" ELSE "A128GCM"

\* the JWK operation the statement ties to (family, op): "" = none named
NeededOp(side, mode, op) ==
  IF side = "jws" THEN (IF op = "produce" THEN "sign" ELSE "verify")
  ELSE CASE mode = "rsa" -> (IF op = "produce" THEN "encrypt" ELSE "decrypt")
         [] mode \in {"kw", "gcmkw"} -> (IF op = "produce" THEN "wrapKey" ELSE "unwrapKey")
         [] mode = "pbes2" -> "deriveKey"
         [] OTHER -> ""

\* a case: side, alg, op (produce/consume), path, key, sender ("" / same / other : ECDH-1PU sender key curve)
Case(side, alg, op, path, key, sender) == [side |-> side, alg |-> alg, op |-> op, path |-> path, key |-> key, sender |-> sender]

\* ------------------------------------------------------------------ layer D
UseOk(c) == c.key.use \in {"", IF c.side = "jws" THEN "sig" ELSE "enc"}
TypeOk(c) ==
  IF c.side = "jws" THEN c.key.kind.kty = JwsOf(c.alg).kty ELSE c.key.kind.kty \in JweAlgOf(c.alg).ktys
CurveOk(c) ==
  IF c.side = "jws"
  THEN CASE JwsOf(c.alg).fam = "ec" -> c.key.kind.crv = JwsOf(c.alg).crv
         [] JwsOf(c.alg).fam = "okp" -> c.key.kind.crv \in SignCurves
         [] OTHER -> TRUE
  ELSE IF JweAlgOf(c.alg).mode \in {"ecdh", "ecdhkw", "1pu", "1pukw"}
       THEN (c.key.kind.kty = "EC" \/ c.key.kind.crv \in ExchangeCurves) /\ c.sender # "other"
       ELSE TRUE
SizeOk(c) ==
  IF c.side = "jws" THEN TRUE
  ELSE LET a == JweAlgOf(c.alg) IN
       CASE a.mode \in {"kw", "gcmkw"} -> c.key.kind.bits = a.bits
         [] a.mode = "dir" -> c.key.kind.bits = JweEncOf(EncFor(c.alg)).cek
         [] a.mode = "rsa" -> (c.op = "produce" => c.key.kind.bits >= 2048)
         [] OTHER -> TRUE
OpsOk(c) ==
  LET mode == IF c.side = "jws" THEN "jws" ELSE JweAlgOf(c.alg).mode
  IN NeededOp(c.side, mode, c.op) # "" => c.key.ops \notin {"lacks", "empty"}
PrivateOk(c) == (c.op = "produce" /\ c.side = "jws") \/ (c.op = "consume" /\ c.side = "jwe") => c.key.priv

Suitable(c) == UseOk(c) /\ TypeOk(c) /\ CurveOk(c) /\ SizeOk(c) /\ OpsOk(c) /\ PrivateOk(c)
\* ECDH with declared key_ops is not covered by the statement: either verdict
SoftCase(c) == c.side = "jwe" /\ JweAlgOf(c.alg).mode \in {"ecdh", "ecdhkw", "1pu", "1pukw", "dir"} /\ c.key.ops # "none"
Allowed(c) == IF SoftCase(c) /\ UseOk(c) /\ TypeOk(c) /\ CurveOk(c) /\ SizeOk(c) /\ PrivateOk(c) THEN {"ok", "fail"}
              ELSE IF Suitable(c) THEN {"ok", "fail"} ELSE {"fail"}
\* (Suitable => ok is the business of the round-trip properties C03/C04; here a refusal of a suitable key is only drift)
Predicted(c) == IF Suitable(c) THEN "ok" ELSE "fail"

\* well-formed cases only: symmetric keys are always "private"; contradictory use/key_ops cannot be imported;
\* a sender key exists only for ECDH-1PU
WellFormed(c) ==
  /\ (c.key.kind.kty = "oct" => c.key.priv)
  /\ (c.key.ops # "none" => c.key.use \in {"", IF c.side = "jws" THEN "sig" ELSE "enc"})
  /\ (c.sender # "" <=> (c.side = "jwe" /\ JweAlgOf(c.alg).mode \in {"1pu", "1pukw"}))
  /\ (c.sender = "other" => c.key.kind.kty \in {"EC", "OKP"})

\* ------------------------------------------------------------------ layer O
VARIABLES case, pc, out
vars == <<case, pc, out>>

Init ==
  /\ pc = "use" /\ out = "none"
  /\ IF Family = "jws"
     THEN case \in {c \in {Case("jws", a, op, p, k, "") : a \in JwsNames \ {"none"}, op \in {"produce", "consume"}, p \in JwsPaths, k \in Keys} :
                      WellFormed(c)}
     ELSE case \in {c \in {Case("jwe", a, op, p, k, s) : a \in JweAlgNames, op \in {"produce", "consume"}, p \in JwePaths, k \in Keys,
                                                       s \in {"", "same", "other"}} : WellFormed(c)}

Fail(stage) == pc' = "done" /\ out' = "fail" /\ UNCHANGED case
Goto(l) == pc' = l /\ UNCHANGED <<case, out>>

GateUse == pc = "use" /\ IF ~UseOk(case) /\ "UseNotChecked" \notin Dev THEN Fail("use") ELSE Goto("type")
\* check_key_type (on the RFC 7797 compact path since fix F22; before, the primitive refused the foreign key object - with a TypeError, C16's business)
GateType == pc = "type" /\ IF ~TypeOk(case) THEN Fail("type") ELSE Goto("curve")
GateCurve == pc = "curve" /\ IF ~CurveOk(case) /\ "CurveNotChecked" \notin Dev THEN Fail("curve") ELSE Goto("size")
GateSize ==
  /\ pc = "size"
  /\ LET a == IF case.side = "jwe" THEN JweAlgOf(case.alg) ELSE [mode |-> "jws", bits |-> 0]
         ok == IF "SizeAtLeast" \in Dev /\ a.mode \in {"kw", "gcmkw"} THEN case.key.kind.bits >= a.bits
               ELSE IF "RsaSizeNotChecked" \in Dev /\ a.mode = "rsa" THEN TRUE
               ELSE SizeOk(case)
     IN IF ok THEN Goto("ops") ELSE Fail("size")
GateOps ==
  /\ pc = "ops"
  /\ IF ~OpsOk(case) /\ ~("KeyOpsNotCheckedOnConsume" \in Dev /\ case.op = "consume") THEN Fail("ops") ELSE Goto("private")
GatePrivate ==
  /\ pc = "private"
  /\ IF ~PrivateOk(case) /\ ~("PublicKeyDecrypts" \in Dev) THEN Fail("private")
     ELSE pc' = "done" /\ out' = "ok" /\ UNCHANGED case

Next == GateUse \/ GateType \/ GateCurve \/ GateSize \/ GateOps \/ GatePrivate
Spec == Init /\ [][Next]_vars

Sound == pc = "done" => out \in Allowed(case)
OnlySuitable == pc = "done" /\ out = "ok" => (Suitable(case) \/ SoftCase(case))
Export == pc = "use" => PrintT("CASE " \o ToJson([c |-> case, allowed |-> Allowed(case), predicted |-> Predicted(case)]))
=============================================================================
