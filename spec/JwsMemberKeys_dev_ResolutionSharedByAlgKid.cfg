SPECIFICATION Spec
CONSTANTS Dev = {"ResolutionSharedByAlgKid"}
  MaxMembers = 2
INVARIANT EachUnderItsOwnKey
CHECK_DEADLOCK FALSE
