SPECIFICATION MSpec
CONSTANTS MaxDraws = 3
INVARIANT AllUnique
CHECK_DEADLOCK FALSE
