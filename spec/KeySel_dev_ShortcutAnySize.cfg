SPECIFICATION Spec
CONSTANTS Dev = {"ShortcutAnySize"}  Side = "jws"  MaxSet = 2
INVARIANT Sound
INVARIANT RightKey
CHECK_DEADLOCK FALSE
