SPECIFICATION Spec
CONSTANTS MaxEdits = 2  Dev = {}  RawMode = FALSE
INVARIANT AuthOnly
INVARIANT RoundTrip
INVARIANT Export
CHECK_DEADLOCK FALSE
