---------------------------- MODULE TraceShared ----------------------------
(***************************************************************************)
(* Trace validation (binding B2) for C20: executions of the real library   *)
(* under the deterministic scheduler (harness/sched.py) are recorded as    *)
(*   run(t)          thread t gets the baton                               *)
(*   state(t, ptr, heap)   thread t's last source line changed the shared  *)
(*                   state of the key: which dict object key._dict_value   *)
(*                   is bound to and, per dict object ever bound, whether  *)
(*                   it is filled and whether it holds "kid" (projection   *)
(*                   of the real object, read from outside - no hook)      *)
(*   ret(t, r)       thread t's call returned r                            *)
(* and must be behaviours of Shared.tla with Dev = {}: every state event   *)
(* is a Step of the running thread with exactly that effect, steps without *)
(* a shared effect (reads, checks) are inferred, every return is the       *)
(* result the model computes.  Several traces are validated per TLC run    *)
(* (tid); how far each trace could be matched is kept in a TLC register.   *)
(***************************************************************************)
EXTENDS Shared, Json, IOUtils

Traces == JsonDeserialize(IOEnv.TRACE_FILE)
N == Len(Traces)
ASSUME \A i \in 1..N : TLCSet(i, 0)

VARIABLES tid, l, cur
tvars == <<vars, tid, l, cur>>

Ev == Traces[tid].events
HeapOf(e) == [d \in 0..MaxDicts |-> IF d < Len(e.heap) THEN [filled |-> e.heap[d + 1][1], kid |-> e.heap[d + 1][2]] ELSE Empty]

TInit ==
  /\ \E i \in 1..N : tid = i
  /\ l = 1 /\ cur = 0
  /\ heap = [d \in 0..MaxDicts |-> Empty] /\ ptr = 0 /\ nextId = 1
  /\ op = [t \in Threads |-> Traces[tid].ops[t]]
  /\ pc = [t \in Threads |-> "gv_read"] /\ loc = [t \in Threads |-> 0] /\ before = [t \in Threads |-> FALSE]
  /\ result = [t \in Threads |-> "none"] /\ observed = FALSE /\ failed = FALSE

Run == /\ l <= Len(Ev) /\ Ev[l].kind = "run" /\ cur' = Ev[l].t /\ l' = l + 1 /\ UNCHANGED <<vars, tid>>
\* a step of the running thread without shared effect (not logged)
Silent == /\ cur \in Threads /\ Step(cur) /\ heap' = heap /\ ptr' = ptr /\ UNCHANGED <<tid, l, cur>>
State == /\ l <= Len(Ev) /\ Ev[l].kind = "state" /\ Ev[l].t = cur
         /\ Step(cur) /\ heap' = HeapOf(Ev[l]) /\ ptr' = Ev[l].ptr
         /\ l' = l + 1 /\ UNCHANGED <<tid, cur>>
Ret == /\ l <= Len(Ev) /\ Ev[l].kind = "ret" /\ Ev[l].t = cur
       /\ pc[cur] = "done" /\ result[cur] = Ev[l].ret
       /\ l' = l + 1 /\ UNCHANGED <<vars, tid, cur>>
TNext == Run \/ Silent \/ State \/ Ret
TSpec == TInit /\ [][TNext]_tvars

Max(a, b) == IF a > b THEN a ELSE b
Track == TLCSet(tid, Max(TLCGet(tid), l))
Accepted == PrintT("CASE " \o ToJson([reached |-> [i \in 1..N |-> TLCGet(i)], len |-> [i \in 1..N |-> Len(Traces[i].events)]]))
=============================================================================
