SPECIFICATION Spec
CONSTANTS Dev = {"ZipOneSided"}  Family = "multi"
INVARIANT RoundTripOrRefused
INVARIANT NothingEmitted
CHECK_DEADLOCK FALSE
