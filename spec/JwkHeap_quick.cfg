SPECIFICATION Spec
CONSTANTS MaxOps = 4  Dev = {}
INVARIANT NoLeak
INVARIANT KidIsOwn
INVARIANT CallerDictsUntouched
INVARIANT Export
CHECK_DEADLOCK FALSE
