SPECIFICATION Spec
CONSTANTS Dev = {"CritNotChecked"}  Family = "jws"
INVARIANT Sound
INVARIANT NoViolatedOperates
CHECK_DEADLOCK FALSE
