----------------------------- MODULE CodecEval -----------------------------
(* TLC as a calculator: evaluates the Codec operators on the concrete points *)
(* the harness wrote to IN_FILE and writes the expected values to OUT_FILE.  *)
(* The real joserfc.util functions must agree point by point (binding B3).  *)
EXTENDS Codec, Json, IOUtils

In == JsonDeserialize(IOEnv.IN_FILE)

EncOut  == [i \in 1..Len(In.enc) |-> B64Enc(In.enc[i])]
DecOut  == [i \in 1..Len(In.dec) |->
              LET t == In.dec[i] c == B64Class(t)
              IN [class |-> c, val |-> IF c = "reject" THEN <<>> ELSE B64DecVal(B64Core(t))]]
IntOut  == [i \in 1..Len(In.ints) |-> [b64 |-> IntToB64(In.ints[i]), canon |-> Minimal(In.ints[i])]]
FixOut  == [i \in 1..Len(In.fixed) |->
              LET n == In.fixed[i].n w == In.fixed[i].w
              IN [fits |-> FitsWidth(n, w), val |-> IF FitsWidth(n, w) THEN FixedWidth(n, w) ELSE <<>>]]

ASSUME JsonSerialize(IOEnv.OUT_FILE, [enc |-> EncOut, dec |-> DecOut, ints |-> IntOut, fixed |-> FixOut])
=============================================================================
