SPECIFICATION Spec
CONSTANTS MaxOps = 4  Dev = {"GeneratedMembersKept"}
INVARIANT SelfConsistent
CHECK_DEADLOCK FALSE
