SPECIFICATION Spec
CONSTANTS MaxEdits = 2  Dev = {"MultipleCekIgnored"}  Mode = "wrap"  TagBound = FALSE
INVARIANT AuthPlain
CHECK_DEADLOCK FALSE
