-------------------------------- MODULE Jws --------------------------------
(***************************************************************************)
(* Properties C01 (verification returns only authentically signed content) *)
(* and C03 (sign-then-verify round trip), Dolev-Yao style.                 *)
(*                                                                         *)
(* Two honest tokens T1 = (H1, P1) and T2 = (H2, P2) exist, both signed    *)
(* with key K1.  Octet strings are identities:                             *)
(*   header octets   H1, H2, R1 (another JSON spelling of H1: parses to    *)
(*                   the same members), X (altered octets), N (member      *)
(*                   removed)                                              *)
(*   payload *text*  as carried on the wire: B(P) = base64url text of P,   *)
(*                   or P itself for an unencoded (b64=false) token        *)
(*   signatures      S1, S2 (the honest ones), junk/trunc/ext/empty        *)
(* A signature Si verifies only under K1, over exactly <<Hi, text_i>> -    *)
(* the signing input is the received header octets, '.', and the payload   *)
(* text.  (The text of an encoded payload and of an unencoded payload that *)
(* happens to be that text coincide; this is what makes an unprotected     *)
(* b64=false dangerous.)                                                   *)
(*                                                                         *)
(* The attacker edits the wire token (at most MaxEdits edits) and chooses  *)
(* the entry point and the key; Verify follows the code: per signature     *)
(* entry header check, key, b64 mode, signature check, then the conclusion.*)
(***************************************************************************)
EXTENDS Naturals, Sequences, FiniteSets, TLC, Json

CONSTANTS MaxEdits, Dev, RawMode   \* RawMode: the honest tokens carry b64=false (+crit) in their protected header
DevNames == {"OobNotVerified", "EmptyListVerifies", "B64FromUnprotected", "SigningInputRebuilt", "FalseNotRaised", "AnySigLength",
             "UnprotectedAlgTrusted", "OnlyFirstSignatureChecked", "UnsuitableKeyVerifies", "SiblingAlgorithmVerifies"}
ASSUME Dev \subseteq DevNames

Sers == {"compact", "flattened", "general"}
EntryPoints == {"jws", "7797", "jwt"}
Hdrs == {"H1", "H2", "R1", "X", "N"}
\* S3: a signature over <<H1, text_1>> made with K3, a key that does not fit the algorithm named in H1 (an EC key on another curve)
\* S4: a signature over <<H1, text_1>> made with K1 itself but under a sibling algorithm of the one H1 names (another digest,
\* the other RSA padding): as long as S1, valid under no reading of the token
SigsT == {"S1", "S2", "junk", "trunc", "ext", "empty", "S3", "S4"}
Unprots == {"none", "kid", "alg_same", "alg_other", "b64", "unknown"}

\* payload text on the wire (strings naming octet strings)
TextOf(i) == IF RawMode THEN (IF i = 1 THEN "raw:P1" ELSE "raw:P2") ELSE (IF i = 1 THEN "b64:P1" ELSE "b64:P2")
Texts == {TextOf(1), TextOf(2), "raw:PX"}
\* what a verifier in encoded mode obtains from the text ...
Decode(t) == CASE t = "b64:P1" -> "P1" [] t = "b64:P2" -> "P2" [] OTHER -> "undecodable"
\* ... and in unencoded mode: the text itself is the payload
RawVal(t) == CASE t = "raw:P1" -> "P1" [] t = "raw:P2" -> "P2" [] t = "raw:PX" -> "PX"
               [] t = "b64:P1" -> "TEXT-OF-b64:P1" [] t = "b64:P2" -> "TEXT-OF-b64:P2"

Entry(h, s, u) == [h |-> h, s |-> s, u |-> u]
Honest(ser, n) == [ser |-> ser, text |-> TextOf(1), es |-> [i \in 1..n |-> Entry("H1", "S1", "none")]]

\* oob: payload octets the caller supplies out of band (rfc7797.deserialize_compact(value, key, payload)), "none" when not given
VARIABLES wire, edits, phase, ep, key, oob, idx, failed, mode, verdict, returned
vars == <<wire, edits, phase, ep, key, oob, idx, failed, mode, verdict, returned>>

Init ==
  /\ \E ser \in Sers, n \in 1..2 : (n = 2 => ser = "general") /\ wire = Honest(ser, n)
  /\ edits = <<>> /\ phase = "attack" /\ ep = "none" /\ key = "none" /\ oob = "none" /\ idx = 0 /\ failed = FALSE
  /\ mode = "none" /\ verdict = "none" /\ returned = "none"

\* ------------------------------------------------------------------ attacker
NE == Len(wire.es)
SetEntry(i, e) == [wire EXCEPT !.es[i] = e]
Edit(name, w) == /\ phase = "attack" /\ Len(edits) < MaxEdits
                 /\ wire' = w /\ edits' = Append(edits, name)
                 /\ UNCHANGED <<phase, ep, key, oob, idx, failed, mode, verdict, returned>>

EditHdr == \E i \in 1..NE : \E h \in Hdrs \ {wire.es[i].h} :
             Edit(<<"hdr", i, h>>, SetEntry(i, [wire.es[i] EXCEPT !.h = h]))
EditSig == \E i \in 1..NE : \E s \in SigsT \ {wire.es[i].s} :
             Edit(<<"sig", i, s>>, SetEntry(i, [wire.es[i] EXCEPT !.s = s]))
EditUnprot == \E i \in 1..NE : \E u \in Unprots \ {wire.es[i].u} :
                /\ wire.ser # "compact"
                /\ Edit(<<"unprot", i, u>>, SetEntry(i, [wire.es[i] EXCEPT !.u = u]))
EditText == \E t \in Texts \ {wire.text} : Edit(<<"text", t>>, [wire EXCEPT !.text = t])
DropEntry == \E i \in 1..NE : /\ wire.ser = "general"
                              /\ Edit(<<"drop", i>>, [wire EXCEPT !.es = [j \in 1..(NE - 1) |-> IF j < i THEN wire.es[j] ELSE wire.es[j + 1]]])
DupEntry == \E i \in 1..NE : /\ wire.ser = "general" /\ NE < 3
                             /\ Edit(<<"dup", i>>, [wire EXCEPT !.es = Append(wire.es, wire.es[i])])
Reshape == \/ (wire.ser = "flattened" /\ Edit(<<"to_general">>, [wire EXCEPT !.ser = "general"]))
           \/ (wire.ser = "general" /\ NE = 1 /\ Edit(<<"to_flattened">>, [wire EXCEPT !.ser = "flattened"]))
Attack == EditHdr \/ EditSig \/ EditUnprot \/ EditText \/ DropEntry \/ DupEntry \/ Reshape

\* ------------------------------------------------------------------ verifier (layer O)
Present ==
  /\ phase = "attack"
  /\ \E e \in EntryPoints, k \in {"K1", "K2", "K3"} :
       /\ (e = "jwt" => wire.ser = "compact")
       /\ (e = "7797" => wire.ser # "general")        \* rfc7797.deserialize_json is for flattened; general is delegated
       /\ ep' = e /\ key' = k
       \* an out-of-band payload can be supplied to the RFC 7797 compact entry point; it is used for unencoded tokens
       /\ \E o \in {"none", "P1", "P2"} : (o # "none" => e = "7797" /\ wire.ser = "compact" /\ RawMode) /\ oob' = o
  /\ phase' = "verify" /\ idx' = 1
  /\ UNCHANGED <<wire, edits, failed, mode, verdict, returned>>

\* does the protected header of an entry carry b64=false (with crit)?  Only the honest octets (or a respelling) do.
ProtRaw(e) == RawMode /\ e.h \in {"H1", "H2", "R1"}
\* the b64 mode the verifier applies to the payload text for this entry
ModeFor(e) ==
  IF ep \in {"jws", "jwt"} THEN "enc"
  ELSE IF ProtRaw(e) THEN "raw"
  ELSE IF "B64FromUnprotected" \in Dev /\ e.u = "b64" THEN "raw"
  ELSE "enc"
\* header acceptable? (registry checks of the merged header; alg resolvable and allowed)
HeaderOk(e) ==
  /\ e.h \notin {"X", "N"}                      \* altered octets: undecodable / other members; no protected header: no alg
  /\ e.u # "unknown"                            \* unregistered parameter, strict checking
  /\ (e.u = "b64" => ep = "7797")               \* b64 is registered on the RFC 7797 entry points only
  /\ (ProtRaw(e) => ep = "7797")
  /\ (e.u = "alg_other" => "UnprotectedAlgTrusted" \in Dev)   \* merged alg differs: not the allowed one / not the signed one
\* the payload text the verifier signs over and returns: the supplied payload replaces the token's own segment (raw mode only)
UsedText(e) == IF oob # "none" /\ ModeFor(e) = "raw" /\ "OobNotVerified" \notin Dev THEN (IF oob = "P1" THEN "raw:P1" ELSE "raw:P2") ELSE wire.text
ReturnedText == IF oob # "none" /\ mode = "raw" THEN (IF oob = "P1" THEN "raw:P1" ELSE "raw:P2") ELSE wire.text
\* the signature check proper: Si verifies only under K1 over <<Hi, text_i>> (received octets)
SigOk(e) ==
  LET i == IF e.s = "S1" THEN 1 ELSE IF e.s = "S2" THEN 2 ELSE 0
      hmatch == \/ (i = 1 /\ e.h = "H1") \/ (i = 2 /\ e.h = "H2")
                \/ (i = 1 /\ e.h = "R1" /\ "SigningInputRebuilt" \in Dev)
  IN \/ (i # 0 /\ hmatch /\ UsedText(e) = TextOf(i) /\ key = "K1")
     \/ ("AnySigLength" \in Dev /\ e.s \in {"trunc", "ext"} /\ e.h = "H1" /\ wire.text = TextOf(1) /\ key = "K1")
     \/ ("UnsuitableKeyVerifies" \in Dev /\ e.s = "S3" /\ e.h = "H1" /\ UsedText(e) = TextOf(1) /\ key = "K3")
     \/ ("SiblingAlgorithmVerifies" \in Dev /\ e.s = "S4" /\ e.h = "H1" /\ UsedText(e) = TextOf(1) /\ key = "K1")

VerifyEntry ==
  /\ phase = "verify" /\ idx <= NE
  /\ ~("OnlyFirstSignatureChecked" \in Dev /\ idx > 1)
  /\ LET e == wire.es[idx]
     IN /\ failed' = (failed \/ ~HeaderOk(e) \/ ~SigOk(e))
        /\ mode' = IF idx = 1 THEN ModeFor(e) ELSE mode
  /\ idx' = idx + 1
  /\ UNCHANGED <<wire, edits, phase, ep, key, oob, verdict, returned>>
SkipRest ==
  /\ phase = "verify" /\ idx <= NE /\ "OnlyFirstSignatureChecked" \in Dev /\ idx > 1
  /\ idx' = NE + 1 /\ UNCHANGED <<wire, edits, phase, ep, key, oob, failed, mode, verdict, returned>>

Conclude ==
  /\ phase = "verify" /\ idx > NE
  /\ LET none == NE = 0 /\ "EmptyListVerifies" \notin Dev
         m == IF NE = 0 THEN "enc" ELSE mode
         pay == IF m = "raw" THEN RawVal(ReturnedText) ELSE Decode(wire.text)
         bad == failed \/ none \/ pay = "undecodable"
     IN /\ verdict' = IF bad /\ ~("FalseNotRaised" \in Dev /\ ~none /\ pay # "undecodable") THEN "reject" ELSE "ok"
        /\ returned' = IF verdict' = "ok" THEN pay ELSE "none"
  /\ phase' = "done"
  /\ UNCHANGED <<wire, edits, ep, key, oob, idx, failed, mode>>

Next == Attack \/ Present \/ VerifyEntry \/ SkipRest \/ Conclude
Spec == Init /\ [][Next]_vars

\* ------------------------------------------------------------------ layer D
\* which honest token an entry authentically belongs to (0: none)
EffText == IF oob # "none" /\ mode = "raw" THEN (IF oob = "P1" THEN "raw:P1" ELSE "raw:P2") ELSE wire.text
AuthOf(e) == IF e.h = "H1" /\ e.s = "S1" /\ EffText = TextOf(1) THEN 1
             ELSE IF e.h = "H2" /\ e.s = "S2" /\ EffText = TextOf(2) THEN 2 ELSE 0
SignedPayload(i) == IF i = 1 THEN "P1" ELSE "P2"
AuthOnly ==
  phase = "done" /\ verdict = "ok" =>
    /\ NE >= 1                                                    \* at least one signature is present
    /\ key = "K1"
    /\ \A i \in 1..NE : AuthOf(wire.es[i]) # 0                    \* every signature present is valid over the received octets
    /\ \A i \in 1..NE : wire.es[i].u \notin {"alg_other", "unknown"}
    /\ returned = SignedPayload(AuthOf(wire.es[1]))               \* the payload returned is the one that was signed
    /\ (mode = "raw" => ProtRaw(wire.es[1]))                      \* b64=false honoured only when integrity-protected
\* C03 inside the model: with no attacker edit and the right key and entry point the honest token verifies
RoundTrip ==
  phase = "done" /\ edits = <<>> /\ key = "K1" /\ oob \in {"none", "P1"} /\ (RawMode => ep = "7797") => verdict = "ok" /\ returned = "P1"

Export == phase = "done" =>
            PrintT("CASE " \o ToJson([ser |-> wire.ser, text |-> wire.text, es |-> wire.es, edits |-> edits, ep |-> ep, key |-> key, oob |-> oob,
                                      raw |-> RawMode, verdict |-> verdict, returned |-> returned]))
=============================================================================
