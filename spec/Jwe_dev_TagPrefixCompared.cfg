SPECIFICATION Spec
CONSTANTS MaxEdits = 2  Dev = {"TagPrefixCompared"}  Mode = "wrap"  TagBound = FALSE
INVARIANT AuthPlain
CHECK_DEADLOCK FALSE
