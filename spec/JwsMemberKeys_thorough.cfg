SPECIFICATION Spec
CONSTANTS Dev = {}
  MaxMembers = 3
INVARIANT EachUnderItsOwnKey
INVARIANT HonestVerifies
INVARIANT Export
CHECK_DEADLOCK FALSE
