SPECIFICATION Spec
CONSTANTS Dev = {}
INVARIANT OnlyObjects
INVARIANT InvalidPayload
INVARIANT IntegrityFirst
INVARIANT Faithful
INVARIANT TypDefault
INVARIANT HeaderUntouched
INVARIANT HeaderAsOnWire
INVARIANT Export
CHECK_DEADLOCK FALSE
