SPECIFICATION Spec
CONSTANTS MaxLen = 6  Dev = {}
INVARIANT Independent
INVARIANT Export
CHECK_DEADLOCK FALSE
