SPECIFICATION Spec
CONSTANTS Dev = {"HooksSharedAcrossClasses"}
  MaxCalls = 3
INVARIANT AsOnFreshRegistry
CHECK_DEADLOCK FALSE
