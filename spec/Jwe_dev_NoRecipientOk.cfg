SPECIFICATION Spec
CONSTANTS MaxEdits = 2  Dev = {"NoRecipientOk"}  Mode = "wrap"  TagBound = FALSE
INVARIANT AuthPlain
CHECK_DEADLOCK FALSE
