SPECIFICATION Spec
CONSTANTS MaxOps = 4  Dev = {"MemoisedLookup"}
INVARIANT ResolvesCurrentSet
CHECK_DEADLOCK FALSE
