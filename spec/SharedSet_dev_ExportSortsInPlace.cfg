SPECIFICATION Spec
CONSTANTS Dev = {"ExportSortsInPlace"}  Kids = {"set-0", "set-1", "set-2"}
INVARIANT AsInIsolation
CHECK_DEADLOCK FALSE
