SPECIFICATION Spec
CONSTANTS MaxOps = 3  Dev = {"SetExportIgnoresFlag"}  Kty = "EC"
INVARIANT PublicClean
INVARIANT PrivateOnPublicIsError
INVARIANT NoPrivateGain
INVARIANT PrivateKept
INVARIANT KidStable
CHECK_DEADLOCK FALSE
