SPECIFICATION Spec
CONSTANTS Dev = {"ForeignAlgParamsRegistered"}  Family = "ecdh"
INVARIANT Sound
INVARIANT NoViolatedOperates
CHECK_DEADLOCK FALSE
