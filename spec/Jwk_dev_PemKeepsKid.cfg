SPECIFICATION Spec
CONSTANTS MaxOps = 3  Dev = {"PemKeepsKid"}  Kty = "EC"  ExportEvery = 1
INVARIANT PublicClean
INVARIANT PrivateOnPublicIsError
INVARIANT NoPrivateGain
INVARIANT PrivateKept
INVARIANT KidStable
CHECK_DEADLOCK FALSE
