-------------------------------- MODULE Wire --------------------------------
(***************************************************************************)
(* Byte-exact constructions of the JOSE RFCs (properties C07, C08, and the *)
(* member encodings of C11/C13), over real octets (Seq(0..255)).           *)
(* Primitives (hash, HMAC, RSA, ECDSA, AES, PBKDF2, DH) are black boxes;   *)
(* what is specified here is *what is fed to them and how their outputs    *)
(* are laid out*.  TLC evaluates these operators on concrete inputs        *)
(* (WireEval.tla); the reference implementation harness/refimpl.py must    *)
(* reproduce the octets exactly and is then the independent peer.          *)
(***************************************************************************)
EXTENDS Codec

Dot == <<46>>          \* '.'

\* ---- RFC 7515 section 5.1 / RFC 7797 section 3: JWS Signing Input
\* ASCII(BASE64URL(UTF8(protected header)) || '.' || BASE64URL(payload)); payload as is when b64 is false
SigningInput(hdrOctets, payload, b64) ==
  Cat3(B64Enc(hdrOctets), Dot, IF b64 THEN B64Enc(payload) ELSE payload)
\* RFC 7515 section 7.1 compact serialization (payload segment empty when detached)
CompactJws(hdrOctets, payload, sig, b64, detached) ==
  Cat5(B64Enc(hdrOctets), Dot, IF detached THEN <<>> ELSE (IF b64 THEN B64Enc(payload) ELSE payload), Dot, B64Enc(sig))

\* ---- RFC 7518 section 3.4: ECDSA signature = R || S, each a fixed-width big-endian integer of the curve's size
EcdsaRS(r, s, w) == Cat(FixedWidth(r, w), FixedWidth(s, w))

\* ---- RFC 7516 section 5.1 step 14: Additional Authenticated Data
Aad(protSeg, aad, hasAad) == IF hasAad THEN Cat3(protSeg, Dot, B64Enc(aad)) ELSE protSeg
\* RFC 7518 section 5.2.2.1: AL = 64-bit big-endian bit length of the AAD
AL(aad) == U64(8 * Len(aad))
CbcHsMacInput(aad, iv, ct) == Cat4(aad, iv, ct, AL(aad))
\* MAC_KEY = initial octets, ENC_KEY = final octets of the CEK
CbcHsMacKey(cek, keyLen) == Take(cek, keyLen)
CbcHsEncKey(cek, keyLen) == Drop(cek, keyLen)
\* T = first keyLen octets of the HMAC output
TagTrunc(mac, keyLen) == Take(mac, keyLen)

\* ---- RFC 7518 section 4.6.2: Concat KDF OtherInfo
\* AlgorithmID || PartyUInfo || PartyVInfo || SuppPubInfo [|| cctag (ECDH-1PU key wrapping)], datalen-prefixed
LenPrefixed(x) == Cat(U32(Len(x)), x)
OtherInfo(algId, apu, apv, keyBits, tag, hasTag) ==
  Cat5(LenPrefixed(algId), LenPrefixed(apu), LenPrefixed(apv), U32(keyBits), IF hasTag THEN LenPrefixed(tag) ELSE <<>>)
\* NIST SP 800-56A 5.8.1: hash input of round i = counter || Z || OtherInfo
ConcatKdfRoundInput(i, z, oi) == Cat3(U32(i), z, oi)
\* ECDH-1PU: Z = Ze || Zs
Z1pu(ze, zs) == Cat(ze, zs)

\* ---- RFC 7518 section 4.8.1.1: PBES2 salt = UTF8(alg) || 0x00 || p2s
Pbes2Salt(algOctets, p2s) == Cat3(algOctets, <<0>>, p2s)

\* ---- RFC 7516 section 7.1 compact serialization
CompactJwe(protSeg, ek, iv, ct, tag) ==
  Cat(Cat5(protSeg, Dot, B64Enc(ek), Dot, B64Enc(iv)), Cat4(Dot, B64Enc(ct), Dot, B64Enc(tag)))

\* ---- JWK member encodings (RFC 7518 section 6)
EcCoordinate(n, w) == B64Enc(FixedWidth(n, w))       \* x, y, d: full length of the curve
RsaInteger(n) == B64Enc(Minimal(n))                  \* n, e, d, p, q, ...: minimal big-endian

\* ---- RFC 7638 section 3: thumbprint hash input.  members: sequence of <<nameOctets, valueOctets>>, all values strings.
\* Output {"n1":"v1","n2":"v2",...} with members in lexicographic order of the names, no whitespace.
LexLess(a, b) ==
  \/ \E k \in 1..Min(Len(a), Len(b)) : a[k] < b[k] /\ \A j \in 1..(k - 1) : a[j] = b[j]
  \/ (Len(a) < Len(b) /\ \A j \in 1..Len(a) : a[j] = b[j])
Rank(members, i) == 1 + Cardinality({j \in 1..Len(members) : LexLess(members[j][1], members[i][1])})
Sorted(members) == [r \in 1..Len(members) |-> members[CHOOSE i \in 1..Len(members) : Rank(members, i) = r]]
Quote == <<34>>
Member(m) == Cat5(Quote, m[1], <<34, 58, 34>>, m[2], Quote)          \* "name":"value"
RECURSIVE JoinMembers(_, _)
JoinMembers(ms, k) == IF k = 0 THEN <<>> ELSE IF k = 1 THEN Member(ms[1]) ELSE Cat3(JoinMembers(ms, k - 1), <<44>>, Member(ms[k]))
ThumbprintInput(members) == LET s == Sorted(members) IN Cat3(<<123>>, JoinMembers(s, Len(s)), <<125>>)
=============================================================================
