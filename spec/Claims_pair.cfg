SPECIFICATION Spec
CONSTANTS LwSet = {2}  Dev = {}  Family = "pair"
INVARIANT TypeOK
INVARIANT Sound
INVARIANT NeverLate
INVARIANT Export
CHECK_DEADLOCK FALSE
