SPECIFICATION Spec
CONSTANTS Dev = {"RecipientHeaderLost"}  Family = "multi"
INVARIANT RoundTripOrRefused
INVARIANT NothingEmitted
CHECK_DEADLOCK FALSE
