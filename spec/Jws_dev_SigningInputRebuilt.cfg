SPECIFICATION Spec
CONSTANTS MaxEdits = 2  Dev = {"SigningInputRebuilt"}  RawMode = FALSE
INVARIANT AuthOnly
CHECK_DEADLOCK FALSE
