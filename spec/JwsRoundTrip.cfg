SPECIFICATION Spec
CONSTANTS Dev = {}
INVARIANT RoundTrip
INVARIANT KidRecorded
PROPERTY DetachKeeps
INVARIANT Export
CHECK_DEADLOCK FALSE
