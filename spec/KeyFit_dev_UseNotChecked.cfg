SPECIFICATION Spec
CONSTANTS Dev = {"UseNotChecked"}  Family = "jwe"
INVARIANT Sound
INVARIANT OnlySuitable
CHECK_DEADLOCK FALSE
