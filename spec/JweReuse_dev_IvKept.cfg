SPECIFICATION Spec
CONSTANTS MaxOps = 4  Dev = {"IvKept"}
INVARIANT SelfConsistent
CHECK_DEADLOCK FALSE
