SPECIFICATION Spec
CONSTANTS Dev = {"RowNamesOtherType"}
  MaxCalls = 2
  BadRow = "ES256K"
INVARIANT EveryRowServes
CHECK_DEADLOCK FALSE
