SPECIFICATION Spec
CONSTANTS MaxOps = 4  Dev = {}
INVARIANT SelfConsistent
INVARIANT NoPrivateEpk
INVARIANT Export
CHECK_DEADLOCK FALSE
