SPECIFICATION Spec
CONSTANTS Dev = {"HeaderNotObject"}
INVARIANT NoEscape
CHECK_DEADLOCK FALSE
