SPECIFICATION Spec
CONSTANTS Mode = "enc"  MaxLen = 2  Chars = {65}
INVARIANT EncRoundTrip
INVARIANT EncAlphabet
INVARIANT EncLength
INVARIANT EncIsValue
INVARIANT IntRoundTrip
INVARIANT EncExport
CHECK_DEADLOCK FALSE
