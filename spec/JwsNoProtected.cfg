SPECIFICATION Spec
CONSTANTS Dev = {}
INVARIANT OnlyAsSigned
INVARIANT HonestVerifies
INVARIANT Export
CHECK_DEADLOCK FALSE
