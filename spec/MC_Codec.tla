----------------------------- MODULE MC_Codec -----------------------------
(* Exhaustive exploration for C19.                                          *)
(*  mode "enc": states = every octet string of length <= MaxLen;            *)
(*              invariants: round trip, alphabet, length, no padding.       *)
(*  mode "dec": states = every text of length <= MaxLen over Chars (ASCII   *)
(*              codes of representative alphabet / non-alphabet characters);*)
(*              each state is exported as a CASE line with the verdict the  *)
(*              strict decoder must give, for comparison with joserfc.util. *)
EXTENDS Codec, Json
CONSTANTS Mode, MaxLen, Chars
VARIABLES s

Init == s = <<>>
Grow == /\ Len(s) < MaxLen
        /\ \E b \in (IF Mode = "enc" THEN Byte ELSE Chars) : s' = Append(s, b)
Next == Grow
Spec == Init /\ [][Next]_s

\* ---- encoder side
EncRoundTrip == Mode = "enc" => B64DecVal(B64Enc(s)) = s
EncAlphabet  == Mode = "enc" => \A i \in 1..Len(B64Enc(s)) : InAlphabet(B64Enc(s)[i])
EncLength    == Mode = "enc" => Len(B64Enc(s)) = EncLen(Len(s)) /\ Len(B64Enc(s)) % 4 # 1
EncIsValue   == Mode = "enc" => B64Class(B64Enc(s)) = "value"
\* integers: canonical form survives, leading zeros never emitted
IntRoundTrip == Mode = "enc" => /\ B64ToInt(IntToB64(s)) = Minimal(s)
                                /\ (Len(Minimal(s)) > 0 => Minimal(s)[1] # 0)
                                /\ FixedWidth(s, 4) \in Seq(Byte) /\ Len(FixedWidth(s, 4)) = 4
                                /\ Minimal(FixedWidth(s, 4)) = Minimal(s)
EncExport    == Mode = "enc" => PrintT("CASE " \o ToJson([s |-> s, e |-> B64Enc(s)]))
\* ---- decoder side
DecTotal     == Mode = "dec" => B64Class(s) \in {"value", "reject", "dontcare"}
DecValueCanon == Mode = "dec" /\ B64Class(s) = "value" => B64Enc(B64DecVal(s)) = s
DecExport    == Mode = "dec" =>
                  PrintT("CASE " \o ToJson([t |-> s, class |-> B64Class(s),
                        val |-> IF B64Class(s) = "reject" THEN <<>> ELSE B64DecVal(B64Core(s))]))
=============================================================================
