CONSTANTS LwSet = {0}  Dev = {}  Family = "single"
INIT EInit
NEXT ENext
CHECK_DEADLOCK FALSE
