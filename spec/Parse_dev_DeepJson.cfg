SPECIFICATION Spec
CONSTANTS Dev = {"DeepJson"}
INVARIANT NoEscape
CHECK_DEADLOCK FALSE
