------------------------------- MODULE KeySel -------------------------------
(***************************************************************************)
(* Property C14: key sets resolve exactly the key named by kid.            *)
(*                                                                         *)
(* A key set is a sequence of distinct key slots; a slot has a key type.   *)
(* Scenario: (side, alg, set, header kid selector, kid position,           *)
(* serialization, how the set is passed, operation, [signer]).             *)
(* Layer O is guess_key: kid lookup, single-key shortcut, random pick      *)
(* filtered by the algorithm's key types (nondeterministic here), kid      *)
(* write-back.  Layer D: which key may be used and what must come out.     *)
(***************************************************************************)
EXTENDS JoseDefs, TLC, Json

CONSTANTS Side, Dev, MaxSet
DevNames == {"FallbackFirstKey", "UnprotectedKidIgnored", "PickAnyType", "ShortcutAnySize", "KidNotRecorded"}
ASSUME Dev \subseteq DevNames

\* slots: name -> key type.  (one curve per type inside a set: mixed curves are a don't-care corner)
Slots == IF Side = "jws" THEN {"o", "r", "e1", "e2", "d"} ELSE {"o", "r", "e1", "e2", "x"}
KtyOf(s) == CASE s = "o" -> "oct" [] s = "r" -> "RSA" [] s \in {"e1", "e2"} -> "EC" [] s \in {"d", "x"} -> "OKP"
Algs == IF Side = "jws" THEN {"HS256", "RS256", "ES256", "EdDSA"} ELSE {"A128KW", "RSA-OAEP", "ECDH-ES", "dir"}
KtysFor(a) == IF Side = "jws" THEN {JwsOf(a).kty} ELSE JweAlgOf(a).ktys

\* all sequences of distinct slots, length 1..MaxSet
RECURSIVE SeqsOf(_)
SeqsOf(n) == IF n = 0 THEN {<<>>}
             ELSE LET prev == SeqsOf(n - 1)
                  IN prev \cup {Append(q, s) : q \in {p \in prev : Len(p) = n - 1}, s \in Slots}
Sets == {q \in SeqsOf(MaxSet) : Len(q) >= 1 /\ \A i, j \in 1..Len(q) : i # j => q[i] # q[j]}

\* "7797compact"/"7797json": the RFC 7797 entry points with "b64": false (their own serialize/deserialize code)
Sers == {"compact", "flattened", "general"} \cup (IF Side = "jws" THEN {"7797compact", "7797json"} ELSE {})
IsCompact(ser) == ser \in {"compact", "7797compact"}
\* kid selector: "absent", "unknown" (a string that is no key's kid - concretised as an arbitrary string and as the thumbprint of
\* a key that is registered under another, explicit kid), or the index of a key of the set
KidSels(q) == {"absent", "unknown"} \cup {ToString(i) : i \in 1..Len(q)}
IdxOf(sel) == CHOOSE i \in 1..3 : ToString(i) = sel
Suited(q, a) == {i \in 1..Len(q) : KtyOf(q[i]) \in KtysFor(a)}

Scn(op, a, q, sel, pos, ser, how, kids, signer) ==
  [op |-> op, alg |-> a, set |-> q, kid |-> sel, pos |-> pos, ser |-> ser, how |-> how, kids |-> kids, signer |-> signer]

\* where joserfc records the kid of a picked key
WriteBackPos(ser) == IF IsCompact(ser) THEN "protected" ELSE IF Side = "jws" THEN "unprotected" ELSE "recipient"

\* ------------------------------------------------------------------ layer D
\* produce: the set of key indices that may end up being used, and the outcome
ProduceCandidates(s) ==
  CASE s.kid = "absent"  -> Suited(s.set, s.alg)
    [] s.kid = "unknown" -> {}
    [] OTHER -> IF IdxOf(s.kid) \in Suited(s.set, s.alg) THEN {IdxOf(s.kid)} ELSE {}
ProduceAllowed(s) ==
  IF s.kid = "unknown" THEN {"invalid_key_id"}
  ELSE IF ProduceCandidates(s) = {} THEN {"fail", "invalid_key_id"} ELSE {"ok"}
\* consume: the token was made with key `signer` of the set and names `kid`
ConsumeAllowed(s) ==
  CASE s.kid = "unknown" -> {"invalid_key_id"}
    [] s.kid = "absent"  -> IF Len(s.set) = 1 THEN {"ok"} ELSE {"fail", "invalid_key_id"}
    [] OTHER -> IF IdxOf(s.kid) = s.signer THEN {"ok"} ELSE {"fail"}
Allowed(s) == IF s.op = "produce" THEN ProduceAllowed(s) ELSE ConsumeAllowed(s)

\* ------------------------------------------------------------------ layer O (guess_key)
VARIABLES scn, pc, used, out, recorded
vars == <<scn, pc, used, out, recorded>>

\* scenarios are enumerated by nested quantifiers (TLC never builds the product set)
\* kids: explicit strings / RFC 7638 thumbprints / explicit with the empty string among them (a kid is any string)
HowKids == {<<"set", "explicit">>, <<"callable", "thumbprint">>, <<"set", "thumbprint">>, <<"set", "empty">>}
Init ==
  /\ pc = "resolve" /\ used = 0 /\ out = "none" /\ recorded = "none"
  /\ \E q \in Sets, a \in Algs, ser \in Sers, hk \in HowKids :
       \E sel \in KidSels(q), pos \in (IF IsCompact(ser) THEN {"protected"} ELSE {"protected", "unprotected"}) :
          \/ scn = Scn("produce", a, q, sel, pos, ser, hk[1], hk[2], 0)
          \/ \E sg \in Suited(q, a) : scn = Scn("consume", a, q, sel, pos, ser, hk[1], hk[2], sg)

Finish(o) == pc' = "done" /\ out' = o /\ UNCHANGED <<scn, used, recorded>>

\* the kid the lookup sees (a deviated implementation may miss the unprotected one)
SeenKid == IF "UnprotectedKidIgnored" \in Dev /\ scn.pos = "unprotected" THEN "absent" ELSE scn.kid

Resolve ==
  /\ pc = "resolve"
  /\ IF SeenKid = "absent" /\ scn.op = "produce"
     THEN \* pick_random_key: filtered by algorithm_keys[alg]; None -> ValueError
          LET cands == IF "PickAnyType" \in Dev THEN 1..Len(scn.set) ELSE Suited(scn.set, scn.alg)
          IN IF cands = {} THEN Finish("fail")
             ELSE \E i \in cands :
                    /\ used' = i /\ pc' = "use"
                    /\ recorded' = IF "KidNotRecorded" \in Dev THEN "none" ELSE WriteBackPos(scn.ser)
                    /\ UNCHANGED <<scn, out>>
     ELSE \* get_by_kid
          IF SeenKid = "absent"
          THEN IF Len(scn.set) = 1 \/ "ShortcutAnySize" \in Dev
               THEN used' = 1 /\ pc' = "use" /\ UNCHANGED <<scn, out, recorded>>
               ELSE Finish("invalid_key_id")
          ELSE IF SeenKid = "unknown"
               THEN IF "FallbackFirstKey" \in Dev THEN used' = 1 /\ pc' = "use" /\ UNCHANGED <<scn, out, recorded>>
                    ELSE Finish("invalid_key_id")
               ELSE used' = IdxOf(SeenKid) /\ pc' = "use" /\ UNCHANGED <<scn, out, recorded>>

\* the cryptographic operation with the resolved key
Use ==
  /\ pc = "use"
  /\ IF scn.op = "produce"
     THEN IF used \in Suited(scn.set, scn.alg) THEN Finish("ok") ELSE Finish("fail")
     ELSE IF used = scn.signer THEN Finish("ok") ELSE Finish("fail")

Next == Resolve \/ Use
Spec == Init /\ [][Next]_vars

Sound == pc = "done" => out \in Allowed(scn)
\* the key used is one the statement permits, and a picked key's kid is written back where the serialization carries it
RightKey == pc = "done" /\ out = "ok" =>
              /\ scn.op = "produce" => used \in ProduceCandidates(scn)
              /\ scn.op = "consume" => used = scn.signer
              /\ (scn.op = "produce" /\ scn.kid = "absent") => recorded = WriteBackPos(scn.ser)
Export == pc = "resolve" =>
            PrintT("CASE " \o ToJson([s |-> scn, allowed |-> Allowed(scn),
                                      candidates |-> IF scn.op = "produce" THEN ProduceCandidates(scn) ELSE {scn.signer},
                                      writeback |-> WriteBackPos(scn.ser)]))
=============================================================================
