---------------------------- MODULE ClaimsReuse ----------------------------
(***************************************************************************)
(* Property C10 over histories: one JWTClaimsRegistry object validates a   *)
(* sequence of claim sets (a service builds its registry once).  The       *)
(* request (essential names, requested values, now, leeway) is fixed at    *)
(* construction; validate() only reads it.  Every verdict of the history   *)
(* must be the verdict Claims.tla gives the claim set on a fresh registry. *)
(* Here only presence matters: essential names E, each claim set is the    *)
(* set of names it carries non-null.                                       *)
(*   EssentialConsumed (deviation): validate() computes the missing names  *)
(*   in place, so names once seen are no longer demanded.                  *)
(***************************************************************************)
EXTENDS Naturals, Sequences, FiniteSets, TLC, Json

CONSTANTS Dev, MaxCalls
ASSUME Dev \subseteq {"EssentialConsumed"}
Names == {"iss", "sub", "aud"}

VARIABLES ess0, ess, hist
vars == <<ess0, ess, hist>>

Init == /\ ess0 \in (SUBSET Names \ {{}}) /\ ess = ess0 /\ hist = <<>>
Verdict(e, present) == IF e \ present = {} THEN "ok" ELSE "missing"
Validate ==
  /\ Len(hist) < MaxCalls
  /\ \E present \in SUBSET Names :
       /\ hist' = Append(hist, [present |-> present, verdict |-> Verdict(ess, present)])
       /\ ess' = IF "EssentialConsumed" \in Dev THEN ess \ present ELSE ess
  /\ UNCHANGED ess0
Next == Validate
Spec == Init /\ [][Next]_vars

AsOnFreshRegistry == \A i \in 1..Len(hist) : hist[i].verdict = Verdict(ess0, hist[i].present)
Export == Len(hist) = MaxCalls => PrintT("CASE " \o ToJson([essential |-> ess0, hist |-> hist]))
=============================================================================
