SPECIFICATION Spec
CONSTANTS Dev = {"BoolIsInt"}  Family = "pbes2"
INVARIANT Sound
INVARIANT NoViolatedOperates
CHECK_DEADLOCK FALSE
