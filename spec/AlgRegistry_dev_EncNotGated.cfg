SPECIFICATION Spec
CONSTANTS Family = "jweenc"  MaxCalls = 2  Dev = {"EncNotGated"}
INVARIANT Sound
INVARIANT NoneNeverVerifies
CHECK_DEADLOCK FALSE
