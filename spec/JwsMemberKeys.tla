---------------------------- MODULE JwsMemberKeys ----------------------------
(***************************************************************************)
(* Property C01 for general JSON tokens when the verifier's key is         *)
(* RESOLVED PER MEMBER: "valid under the key resolved for it".  The key    *)
(* the application hands to jws.deserialize_json may be a single key, a    *)
(* key set (looked up by kid) or a callable that looks at the member's     *)
(* headers - here at "jku", naming one of two issuers who both number      *)
(* their keys "1", "2".  Every member is verified under the key resolved   *)
(* for THAT member; the resolution made for an earlier member is nobody    *)
(* else's.                                                                  *)
(*   ResolutionSharedByAlgKid (deviation): the lookup is remembered under  *)
(*   the member's (alg, kid) for the length of the call.                    *)
(*   FirstKeyForAll (deviation): the key resolved for the first member     *)
(*   verifies all of them.                                                  *)
(***************************************************************************)
EXTENDS Naturals, Sequences, FiniteSets, TLC, Json

CONSTANTS Dev, MaxMembers
ASSUME Dev \subseteq {"ResolutionSharedByAlgKid", "FirstKeyForAll"}
Issuers == {"A", "B"}
Kids == {"1", "2"}
KeyOf(i, k) == i \o k
AllKeys == {KeyOf(i, k) : i \in Issuers, k \in Kids}
Resolvers == {"single", "set", "by_issuer", "by_issuer_set"}
\* a member: the kid it names ("absent": none), the issuer its jku names, the key that made its signature
Members == [kid : Kids \cup {"absent"}, iss : Issuers, signer : AllKeys]

\* layer D: the key the application's resolver yields for one member ("error": no key, the token is refused)
Resolve(r, m) ==
  CASE r = "single" -> "A1"
    [] r = "set" -> IF m.kid = "absent" THEN "error" ELSE KeyOf("A", m.kid)
    [] r = "by_issuer" -> KeyOf(m.iss, "1")
    [] r = "by_issuer_set" -> IF m.kid = "absent" THEN "error" ELSE KeyOf(m.iss, m.kid)
Valid(c) == \A i \in 1..Len(c.members) : c.members[i].signer = Resolve(c.resolver, c.members[i])

\* layer O: verify_general_json walks the members, asking find_key for each
VARIABLES case, idx, memo, verdict
vars == <<case, idx, memo, verdict>>
Init ==
  /\ \E r \in Resolvers, n \in 1..MaxMembers : \E ms \in [1..n -> Members] : case = [resolver |-> r, members |-> ms]
  /\ idx = 1 /\ memo = <<>> /\ verdict = "none"
Remembered(m) ==
  IF "FirstKeyForAll" \in Dev /\ Len(memo) > 0 THEN memo[1].key
  ELSE IF "ResolutionSharedByAlgKid" \in Dev /\ m.kid # "absent" /\ \E j \in 1..Len(memo) : memo[j].kid = m.kid
       THEN memo[CHOOSE j \in 1..Len(memo) : memo[j].kid = m.kid /\ \A l \in 1..Len(memo) : memo[l].kid = m.kid => j <= l].key
       ELSE "none"
VerifyMember ==
  /\ verdict = "none" /\ idx <= Len(case.members)
  /\ LET m == case.members[idx]
         key == IF Remembered(m) # "none" THEN Remembered(m) ELSE Resolve(case.resolver, m)
     IN /\ memo' = Append(memo, [kid |-> m.kid, key |-> key])
        /\ IF key = "error" \/ m.signer # key THEN verdict' = "reject" /\ idx' = idx
           ELSE idx' = idx + 1 /\ verdict' = (IF idx = Len(case.members) THEN "ok" ELSE "none")
  /\ UNCHANGED case
Spec == Init /\ [][VerifyMember]_vars

EachUnderItsOwnKey == verdict = "ok" => Valid(case)
HonestVerifies == verdict = "reject" => ~Valid(case)
Export == verdict # "none" => PrintT("CASE " \o ToJson([c |-> case, verdict |-> verdict]))
=============================================================================
