SPECIFICATION Spec
CONSTANTS Dev = {"RsaSizeNotChecked"}  Family = "jwe"
INVARIANT Sound
INVARIANT OnlySuitable
CHECK_DEADLOCK FALSE
