SPECIFICATION Spec
CONSTANTS Dev = {"DetachDropsSignature"}
INVARIANT RoundTrip
INVARIANT KidRecorded
PROPERTY DetachKeeps
CHECK_DEADLOCK FALSE
