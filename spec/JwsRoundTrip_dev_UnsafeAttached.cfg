SPECIFICATION Spec
CONSTANTS Dev = {"UnsafeAttached"}
INVARIANT RoundTrip
INVARIANT KidRecorded
PROPERTY DetachKeeps
CHECK_DEADLOCK FALSE
