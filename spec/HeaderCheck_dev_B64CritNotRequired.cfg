SPECIFICATION Spec
CONSTANTS Dev = {"B64CritNotRequired"}  Family = "jws7797"
INVARIANT Sound
INVARIANT NoViolatedOperates
CHECK_DEADLOCK FALSE
