------------------------------ MODULE Deflate ------------------------------
(***************************************************************************)
(* Property C17: decompression of JWE plaintext is bounded.                *)
(*                                                                         *)
(* A DEFLATE stream is a sequence of symbols; symbol k expands to w[k]     *)
(* octets, 1 <= w[k] <= W (a literal is 1, a match up to 258 in zlib).     *)
(* The streaming inflater is given an output limit Cap: it reads symbols   *)
(* while there is room, and - this is the crux - when the limit is hit in  *)
(* the middle of a symbol the symbol's input has already been consumed:    *)
(* the rest of its output stays *pending inside the inflater*, the         *)
(* unconsumed input may be empty and end-of-stream has not been seen.      *)
(* After the call the wrapper decides between "plaintext" and "exceeded".  *)
(*   TailOnly       (deviation): exceeded iff unconsumed input remains     *)
(*   TailOrPending  (intended) : exceeded iff unconsumed input remains or  *)
(*                               output is still pending                   *)
(***************************************************************************)
EXTENDS Naturals, Sequences, FiniteSets, TLC, Json

CONSTANTS Cap, W, MaxTotal, Dev
DevNames == {"TailOnly", "CheckAfterFullInflate", "OffByOne", "SilentCut"}
ASSUME Dev \subseteq DevNames

VARIABLES stream, phase, pos, out, pending, peak, verdict
vars == <<stream, phase, pos, out, pending, peak, verdict>>

RECURSIVE SumTo(_, _)
SumTo(s, n) == IF n = 0 THEN 0 ELSE s[n] + SumTo(s, n - 1)
Total(s) == SumTo(s, Len(s))

Init == stream = <<>> /\ phase = "build" /\ pos = 1 /\ out = 0 /\ pending = 0 /\ peak = 0 /\ verdict = "none"

\* the producer (or attacker holding the key) builds any stream
AddSymbol == /\ phase = "build" /\ \E w \in 1..W : Total(stream) + w <= MaxTotal /\ stream' = Append(stream, w)
             /\ UNCHANGED <<phase, pos, out, pending, peak, verdict>>
Start == phase = "build" /\ phase' = "inflate" /\ UNCHANGED <<stream, pos, out, pending, peak, verdict>>

Limit == IF "OffByOne" \in Dev THEN Cap + 1 ELSE Cap
Bounded == "CheckAfterFullInflate" \notin Dev         \* the deviation inflates without an output limit and checks the length afterwards

\* one step of the inflater: emit pending output, else read the next symbol
Emit == /\ phase = "inflate" /\ pending > 0 /\ (out < Limit \/ ~Bounded)
        /\ out' = out + 1 /\ pending' = pending - 1 /\ peak' = IF out + 1 > peak THEN out + 1 ELSE peak
        /\ UNCHANGED <<stream, phase, pos, verdict>>
Read == /\ phase = "inflate" /\ pending = 0 /\ pos <= Len(stream) /\ (out < Limit \/ ~Bounded)
        /\ pending' = stream[pos] /\ pos' = pos + 1
        /\ UNCHANGED <<stream, phase, out, peak, verdict>>
\* the call returns: limit reached or stream exhausted
Return ==
  /\ phase = "inflate"
  /\ \/ (Bounded /\ out >= Limit) \/ (pending = 0 /\ pos > Len(stream))
  /\ LET tail == pos <= Len(stream)
         exceeded == IF "CheckAfterFullInflate" \in Dev THEN out > Cap
                     ELSE IF "TailOnly" \in Dev THEN tail
                     ELSE tail \/ pending > 0
     IN verdict' = IF exceeded /\ "SilentCut" \notin Dev THEN "exceeded" ELSE "plaintext"
  /\ phase' = "done" /\ UNCHANGED <<stream, pos, out, pending, peak>>

Next == AddSymbol \/ Start \/ Emit \/ Read \/ Return
Spec == Init /\ [][Next]_vars

\* ---- the property
NeverTooMuch == peak <= Cap                                                   \* never materialises more than the limit
RoundTrips == phase = "done" /\ Total(stream) <= Cap => verdict = "plaintext" /\ out = Total(stream)
Refuses == phase = "done" /\ Total(stream) > Cap => verdict = "exceeded"      \* never returned, never silently cut
NoSilentCut == phase = "done" /\ verdict = "plaintext" => out = Total(stream)
Export == phase = "done" => PrintT("CASE " \o ToJson([stream |-> stream, total |-> Total(stream), cap |-> Cap, w |-> W,
                                                      verdict |-> verdict, straddles |-> pending > 0, tail |-> pos <= Len(stream)]))
=============================================================================
