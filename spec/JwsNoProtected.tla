--------------------------- MODULE JwsNoProtected ---------------------------
(***************************************************************************)
(* Property C01 for JSON tokens whose JOSE header lives entirely in the    *)
(* unprotected member: the signature was made over "" || "." || payload.   *)
(* The attacker adds a "protected" member.  Whatever it decodes to - the   *)
(* empty object included - its octets are part of the signing input of the *)
(* token as received, so the signature no longer covers what was received  *)
(* and the token must be refused.                                           *)
(*   EmptyProtectedTakenAsAbsent (deviation): the verifier decides by the  *)
(*   DECODED header being non-empty whether the segment enters the input.  *)
(***************************************************************************)
EXTENDS Naturals, Sequences, TLC, Json

CONSTANTS Dev
ASSUME Dev \subseteq {"EmptyProtectedTakenAsAbsent"}
Sers == {"flattened", "general"}
Entries == {"jws", "7797"}
\* what the attacker puts into "protected": nothing (the honest token), the encodings of {} and of " {}", of an object with a member
Segs == {"absent", "e30", "IHt9", "obj_cty"}

VARIABLES case, verdict
vars == <<case, verdict>>
Init == /\ \E s \in Sers, e \in Entries, p \in Segs : case = [ser |-> s, entry |-> e, protected |-> p] /\ (e = "7797" => s = "flattened")
        /\ verdict = "none"
Verify ==
  /\ verdict = "none"
  /\ LET inInput == IF "EmptyProtectedTakenAsAbsent" \in Dev THEN case.protected \in {"obj_cty"} ELSE case.protected # "absent"
     IN verdict' = IF inInput THEN "reject" ELSE "ok"        \* the signature was made without a protected segment
  /\ UNCHANGED case
Spec == Init /\ [][Verify]_vars
OnlyAsSigned == verdict = "ok" => case.protected = "absent"
HonestVerifies == (verdict # "none" /\ case.protected = "absent") => verdict = "ok"
Export == verdict # "none" => PrintT("CASE " \o ToJson([c |-> case, verdict |-> verdict]))
=============================================================================
