------------------------------ MODULE TraceApi ------------------------------
(***************************************************************************)
(* Trace validation (binding B2) of API-level executions of the real       *)
(* library against the algorithm gate of AlgRegistry.tla: the repository's *)
(* own test-suite and the harness drivers run under harness/tracer.py,     *)
(* which records one event per outermost public call (entry point, names   *)
(* in the header(s) the call is about, algorithms= / registry= arguments,   *)
(* registered drafts, outcome).  Every event must be a DoCall step whose    *)
(* outcome the declarative rule allows:                                     *)
(*     outcome = ok  =>  every alg / enc / zip named is in the effective    *)
(*                       allow-list (the recommended set when none given),  *)
(*                       and "none" never verifies.                         *)
(* Verdicts are total: a rejected event is recorded with its clause.       *)
(***************************************************************************)
EXTENDS AlgRegistry, IOUtils

Trace == JsonDeserialize(IOEnv.TRACE_FILE)
VARIABLES l, rejected, judged
tvars == <<reg, leak, hist, l, rejected, judged>>

SeqToSet(q) == {q[i] : i \in 1..Len(q)}
\* which allow-list the code makes effective (JWS: a registry wins over algorithms=; JWE: a non-empty algorithms= wins)
AllowOf(e) ==
  IF e.side = "jws"
  THEN IF e.registry_given THEN (IF e.registry_has_list THEN AllowList(SeqToSet(e.registry_allowed)) ELSE AllowAbsent)
       ELSE IF e.algorithms_given THEN AllowList(SeqToSet(e.algorithms)) ELSE AllowAbsent
  ELSE IF e.algorithms_given THEN AllowList(SeqToSet(e.algorithms))
       ELSE IF e.registry_given /\ e.registry_has_list THEN AllowList(SeqToSet(e.registry_allowed)) ELSE AllowAbsent

\* ---- C15 on recorded calls: the declarative header rule of the statement, evaluated on the header the call was given
ClassFits(ty, c) ==
  CASE ty = "str" -> c \in {"str", "url"} [] ty = "url" -> c = "url" [] ty = "int" -> c = "int" [] ty = "bool" -> c = "bool"
    [] ty = "list[str]" -> c = "list_str" [] ty = "jwk" -> c = "obj" [] OTHER -> TRUE
HdrNames(h) == SeqToSet(h.names)
HdrClass(h, n) == h.classes[CHOOSE j \in 1..Len(h.names) : h.names[j] = n]
Uses7797(e, h) == e.reg7797 \/ (e.api7797 /\ "b64" \in HdrNames(h))
BaseRegistry(e, h) == IF e.side = "jws" THEN (IF Uses7797(e, h) THEN Jws7797Header ELSE JwsHeader) ELSE JweHeader
AlgRegistryOf(e, i) == IF e.side = "jwe" /\ e.entries[i].alg \in JweAlgNames THEN AlgHeader(JweAlgOf(e.entries[i].alg).mode) ELSE {}
CustomOf(e) == {HP(c.name, c.type, c.required) : c \in SeqToSet(e.custom)}
\* a caller's entry for a name replaces the standard one
HdrEffective(e, i, h) == LET cu == CustomOf(e) IN cu \cup {p \in BaseRegistry(e, h) \cup AlgRegistryOf(e, i) : p.name \notin {c.name : c \in cu}}
HeaderClause(e, i) ==
  LET h == e.headers[i]  names == HdrNames(h)  hreg == HdrEffective(e, i, h)  algreg == AlgRegistryOf(e, i)
  IN IF \E p \in hreg : p.required /\ p.name \notin names /\ (p \notin algreg \/ e.op = "consume") THEN "a required parameter is missing"
     ELSE IF \E p \in hreg : p.name \in names /\ ~ClassFits(p.type, HdrClass(h, p.name)) THEN "a registered parameter has the wrong JSON type"
     ELSE IF "crit" \in names /\ (~h.crit_list \/ \E c \in SeqToSet(h.crit) : c \notin names) THEN "crit names a parameter that is not in the header"
     ELSE IF "b64" \in names /\ Uses7797(e, h) /\ "b64" \notin SeqToSet(h.crit) THEN "b64 without a crit that lists it"
     ELSE IF e.strict /\ \E n \in names : n \notin {p.name : p \in hreg} THEN "an unregistered parameter under strict checking"
     ELSE "ok"

\* ---- C06 on recorded calls: a call that succeeded with a single key object was given a suitable key (KeyFit.tla, layer D)
KF == INSTANCE KeyFit WITH Family <- "jws", Dev <- {}, case <- 0, pc <- 0, out <- 0
ModeOf(e, i) == IF e.side = "jws" THEN "jws" ELSE JweAlgOf(e.entries[i].alg).mode
OpsClass(e, i) ==
  IF ~e.key.ops_declared THEN "none" ELSE IF Len(e.key.ops) = 0 THEN "empty"
  ELSE LET need == KF!NeededOp(e.side, ModeOf(e, i), e.op) IN IF need = "" \/ need \in SeqToSet(e.key.ops) THEN "has" ELSE "lacks"
KeyCase(e, i) == KF!Case(e.side, e.entries[i].alg, e.op, "compact",
                         KF!Key(KF!Kind(e.key.kty, e.key.crv, e.key.bits), e.key.priv, e.key.use, OpsClass(e, i)), "")
KeyKnown(e, i) == IF e.side = "jws" THEN e.entries[i].alg \in JwsNames \ {"none"}
                  ELSE e.entries[i].alg \in JweAlgNames /\ e.entries[i].enc \in JweEncNames /\ JweAlgOf(e.entries[i].alg).mode \notin {"1pu", "1pukw"}
\* (the size rule of KeyFit fixes the enc per alg; here the enc is the one the call named)
TraceSizeOk(e, i) ==
  IF e.side = "jws" THEN TRUE
  ELSE LET a == JweAlgOf(e.entries[i].alg) IN
       CASE a.mode \in {"kw", "gcmkw"} -> e.key.bits = a.bits
         [] a.mode = "dir" -> e.key.bits = JweEncOf(e.entries[i].enc).cek
         [] a.mode = "rsa" -> (e.op = "produce" => e.key.bits >= 2048)
         [] OTHER -> TRUE
KeyClause(e, i) ==
  LET c == KeyCase(e, i)
  IN IF ~KF!TypeOk(c) THEN "a key of the wrong type"
     ELSE IF ~KF!UseOk(c) THEN "a key whose use forbids it"
     ELSE IF ~KF!CurveOk(c) THEN "a key on the wrong curve"
     ELSE IF ~TraceSizeOk(e, i) THEN "a key of the wrong size"
     ELSE IF ~KF!OpsOk(c) /\ ~KF!SoftCase(c) THEN "a key whose key_ops exclude the operation"
     ELSE IF ~KF!PrivateOk(c) THEN "a public key where private material is needed"
     ELSE "ok"

CallOf(e, i) == Call(e.side, e.op, e.api, "trace", AllowOf(e), e.entries[i].alg, e.entries[i].enc, e.entries[i].zip)

TInit == reg = {} /\ leak = AllowAbsent /\ hist = <<>> /\ l = 1 /\ rejected = <<>> /\ judged = 0

Consume ==
  /\ l <= Len(Trace)
  /\ LET e == Trace[l]
         r == SeqToSet(e.reg)
         bad == {i \in 1..Len(e.entries) : ~Usable(CallOf(e, i), r)}
         noneOk == \E i \in 1..Len(e.entries) : e.side = "jws" /\ e.op = "consume" /\ e.entries[i].alg = "none"
         hbad == IF e.headers_judged /\ e.outcome = "ok" THEN {i \in 1..Len(e.headers) : HeaderClause(e, i) # "ok"} ELSE {}
         \* (several signatures / recipients: the one key need only suit one of them - the others are for other parties)
         kall == {i \in 1..Len(e.entries) : KeyKnown(e, i)}
         kbad == IF e.key_judged /\ e.outcome = "ok" /\ kall # {} /\ \A i \in kall : KeyClause(e, i) # "ok" THEN kall ELSE {}
     IN /\ reg' = r
        /\ IF kbad # {}
           THEN rejected' = Append(rejected, [seq |-> e.seq, api |-> e.api,
                                              clause |-> "operation succeeded with " \o KeyClause(e, CHOOSE i \in kbad : TRUE),
                                              names |-> e.entries])
           ELSE IF hbad # {}
           THEN rejected' = Append(rejected, [seq |-> e.seq, api |-> e.api,
                                              clause |-> "operation succeeded although " \o HeaderClause(e, CHOOSE i \in hbad : TRUE),
                                              names |-> e.entries])
           ELSE IF e.judged /\ e.outcome = "ok" /\ (bad # {} \/ noneOk)
           THEN rejected' = Append(rejected, [seq |-> e.seq, api |-> e.api,
                                              clause |-> IF noneOk THEN "alg none verified"
                                                         ELSE "operation succeeded with an algorithm outside the effective allow-list",
                                              names |-> e.entries])
           ELSE rejected' = rejected
        /\ judged' = IF e.judged /\ e.outcome = "ok" THEN judged + 1 ELSE judged
  /\ l' = l + 1 /\ UNCHANGED <<leak, hist>>
TNext == Consume
TSpec == TInit /\ [][TNext]_tvars
Report == l > Len(Trace) => PrintT("CASE " \o ToJson([rejected |-> rejected, events |-> Len(Trace), judged_ok |-> judged,
                                                       keys_judged_ok |-> Cardinality({i \in 1..Len(Trace) : Trace[i].key_judged /\ Trace[i].outcome = "ok"}),
                                                       headers_judged_ok |-> Cardinality({i \in 1..Len(Trace) : Trace[i].headers_judged /\ Trace[i].outcome = "ok"})]))
=============================================================================
