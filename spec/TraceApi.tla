------------------------------ MODULE TraceApi ------------------------------
(***************************************************************************)
(* Trace validation (binding B2) of API-level executions of the real       *)
(* library against the algorithm gate of AlgRegistry.tla: the repository's *)
(* own test-suite and the harness drivers run under harness/tracer.py,     *)
(* which records one event per outermost public call (entry point, names   *)
(* in the header(s) the call is about, algorithms= / registry= arguments,   *)
(* registered drafts, outcome).  Every event must be a DoCall step whose    *)
(* outcome the declarative rule allows:                                     *)
(*     outcome = ok  =>  every alg / enc / zip named is in the effective    *)
(*                       allow-list (the recommended set when none given),  *)
(*                       and "none" never verifies.                         *)
(* Verdicts are total: a rejected event is recorded with its clause.       *)
(***************************************************************************)
EXTENDS AlgRegistry, IOUtils

Trace == JsonDeserialize(IOEnv.TRACE_FILE)
VARIABLES l, rejected, judged
tvars == <<reg, leak, hist, l, rejected, judged>>

SeqToSet(q) == {q[i] : i \in 1..Len(q)}
\* which allow-list the code makes effective (JWS: a registry wins over algorithms=; JWE: a non-empty algorithms= wins)
AllowOf(e) ==
  IF e.side = "jws"
  THEN IF e.registry_given THEN (IF e.registry_has_list THEN AllowList(SeqToSet(e.registry_allowed)) ELSE AllowAbsent)
       ELSE IF e.algorithms_given THEN AllowList(SeqToSet(e.algorithms)) ELSE AllowAbsent
  ELSE IF e.algorithms_given THEN AllowList(SeqToSet(e.algorithms))
       ELSE IF e.registry_given /\ e.registry_has_list THEN AllowList(SeqToSet(e.registry_allowed)) ELSE AllowAbsent

CallOf(e, i) == Call(e.side, e.op, e.api, "trace", AllowOf(e), e.entries[i].alg, e.entries[i].enc, e.entries[i].zip)

TInit == reg = {} /\ leak = AllowAbsent /\ hist = <<>> /\ l = 1 /\ rejected = <<>> /\ judged = 0

Consume ==
  /\ l <= Len(Trace)
  /\ LET e == Trace[l]
         r == SeqToSet(e.reg)
         bad == {i \in 1..Len(e.entries) : ~Usable(CallOf(e, i), r)}
         noneOk == \E i \in 1..Len(e.entries) : e.side = "jws" /\ e.op = "consume" /\ e.entries[i].alg = "none"
     IN /\ reg' = r
        /\ IF e.judged /\ e.outcome = "ok" /\ (bad # {} \/ noneOk)
           THEN rejected' = Append(rejected, [seq |-> e.seq, api |-> e.api,
                                              clause |-> IF noneOk THEN "alg none verified"
                                                         ELSE "operation succeeded with an algorithm outside the effective allow-list",
                                              names |-> e.entries])
           ELSE rejected' = rejected
        /\ judged' = IF e.judged /\ e.outcome = "ok" THEN judged + 1 ELSE judged
  /\ l' = l + 1 /\ UNCHANGED <<leak, hist>>
TNext == Consume
TSpec == TInit /\ [][TNext]_tvars
Report == l > Len(Trace) => PrintT("CASE " \o ToJson([rejected |-> rejected, events |-> Len(Trace), judged_ok |-> judged]))
=============================================================================
