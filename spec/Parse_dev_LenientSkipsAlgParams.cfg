SPECIFICATION Spec
CONSTANTS Dev = {"LenientSkipsAlgParams"}
INVARIANT NoEscape
CHECK_DEADLOCK FALSE
