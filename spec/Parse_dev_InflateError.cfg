SPECIFICATION Spec
CONSTANTS Dev = {"InflateError"}
INVARIANT NoEscape
CHECK_DEADLOCK FALSE
