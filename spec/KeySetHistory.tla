---------------------------- MODULE KeySetHistory ----------------------------
(***************************************************************************)
(* Property C14 over histories: a KeySet is a mutable list of keys         *)
(* (key_set.keys is public).  After keys were removed, replaced under the  *)
(* same kid (rotation) or appended, every lookup by kid must resolve in    *)
(* the set as it is *now*: the key currently named by kid, else            *)
(* invalid-key-id.  Producing *without* a kid picks one of the keys the set *)
(* holds *now* (pick_random_key) - never a key that was rotated out.        *)
(***************************************************************************)
EXTENDS Naturals, Sequences, FiniteSets, TLC, Json
CONSTANTS MaxOps, Dev
DevNames == {"MemoisedLookup", "FirstKeyFallback", "MemoisedPick"}
ASSUME Dev \subseteq DevNames
Kids == {"a", "b", "c"}
VARIABLES keys, memo, pmemo, hist, nextMat
vars == <<keys, memo, pmemo, hist, nextMat>>
K(kid, mat) == [kid |-> kid, mat |-> mat]
Init == /\ \E n \in 1..3 : keys = [i \in 1..n |-> K(CASE i = 1 -> "a" [] i = 2 -> "b" [] OTHER -> "c", i)]
        /\ memo = [k \in Kids |-> 0] /\ pmemo = [n \in 0..3 |-> {}] /\ hist = <<>> /\ nextMat = 4

Current(kid) == IF \E i \in 1..Len(keys) : keys[i].kid = kid
                THEN keys[CHOOSE i \in 1..Len(keys) : keys[i].kid = kid /\ \A j \in 1..(i - 1) : keys[j].kid # kid].mat ELSE 0
\* layer O: get_by_kid (0 = invalid-key-id)
LookupO(kid) == IF "MemoisedLookup" \in Dev /\ memo[kid] # 0 THEN memo[kid]
                ELSE IF Current(kid) = 0 /\ "FirstKeyFallback" \in Dev /\ Len(keys) > 0 THEN keys[1].mat ELSE Current(kid)
Lookup(kid) == /\ Len(hist) < MaxOps
               /\ hist' = Append(hist, [op |-> "lookup", kid |-> kid, got |-> LookupO(kid), want |-> Current(kid), set |-> keys])
               /\ memo' = IF LookupO(kid) # 0 THEN [memo EXCEPT ![kid] = LookupO(kid)] ELSE memo
               /\ UNCHANGED <<keys, nextMat, pmemo>>
Remove(i) == /\ Len(hist) < MaxOps /\ i \in 1..Len(keys)
             /\ keys' = [j \in 1..(Len(keys) - 1) |-> IF j < i THEN keys[j] ELSE keys[j + 1]]
             /\ hist' = Append(hist, [op |-> "remove", i |-> i]) /\ UNCHANGED <<memo, pmemo, nextMat>>
Replace(i) == /\ Len(hist) < MaxOps /\ i \in 1..Len(keys) /\ nextMat <= 6
              /\ keys' = [keys EXCEPT ![i].mat = nextMat] /\ nextMat' = nextMat + 1
              /\ hist' = Append(hist, [op |-> "replace", i |-> i, mat |-> nextMat]) /\ UNCHANGED <<memo, pmemo>>
AppendKey(kid) == /\ Len(hist) < MaxOps /\ Len(keys) < 3 /\ nextMat <= 6 /\ ~(\E i \in 1..Len(keys) : keys[i].kid = kid)
                  /\ keys' = Append(keys, K(kid, nextMat)) /\ nextMat' = nextMat + 1
                  /\ hist' = Append(hist, [op |-> "append", kid |-> kid, mat |-> nextMat]) /\ UNCHANGED <<memo, pmemo>>
\* layer O: pick_random_key - the materials a kid-less produce may draw from (the deviation keeps the candidate list per set size)
Mats == {keys[i].mat : i \in 1..Len(keys)}
Cands == IF "MemoisedPick" \in Dev /\ pmemo[Len(keys)] # {} THEN pmemo[Len(keys)] ELSE Mats
Pick == /\ Len(hist) < MaxOps /\ Len(keys) > 0
        /\ hist' = Append(hist, [op |-> "pick", cands |-> Cands, set |-> keys])
        /\ pmemo' = [pmemo EXCEPT ![Len(keys)] = Cands] /\ UNCHANGED <<keys, memo, nextMat>>
Next == Pick \/ (\E k \in Kids : Lookup(k) \/ AppendKey(k)) \/ (\E i \in 1..3 : Remove(i) \/ Replace(i))
Spec == Init /\ [][Next]_vars
ResolvesCurrentSet == \A i \in 1..Len(hist) : hist[i].op = "lookup" => hist[i].got = hist[i].want
PicksFromCurrentSet == \A i \in 1..Len(hist) : hist[i].op = "pick" => hist[i].cands = {hist[i].set[j].mat : j \in 1..Len(hist[i].set)}
Export == Len(hist) = MaxOps => PrintT("CASE " \o ToJson(hist))
=============================================================================
