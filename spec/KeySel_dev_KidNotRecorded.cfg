SPECIFICATION Spec
CONSTANTS Dev = {"KidNotRecorded"}  Side = "jws"  MaxSet = 2
INVARIANT Sound
INVARIANT RightKey
CHECK_DEADLOCK FALSE
