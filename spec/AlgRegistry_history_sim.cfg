SPECIFICATION Spec
CONSTANTS Family = "history"  MaxCalls = 4  Dev = {}
INVARIANT Sound
INVARIANT NoneNeverVerifies
INVARIANT Export
CHECK_DEADLOCK FALSE
