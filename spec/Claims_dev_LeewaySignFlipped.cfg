SPECIFICATION Spec
CONSTANTS LwSet = {2}  Dev = {"LeewaySignFlipped"}  Family = "single"
INVARIANT Sound
CHECK_DEADLOCK FALSE
