------------------------------- MODULE Shared -------------------------------
(***************************************************************************)
(* Property C20 (concurrency part): calls sharing a key are independent    *)
(* and thread-safe - the lazily built JWK view of a key and the lazily     *)
(* assigned thumbprint kid.                                                 *)
(*                                                                         *)
(* Shared state of one Key object:                                         *)
(*   ptr        the dict object key._dict_value is bound to                *)
(*   heap[d]    dict object d: filled? (members present), kid? (has "kid") *)
(* Threads run operations decomposed at their shared accesses:             *)
(*   GetView:   read ptr; if that dict is filled use it, else build a new  *)
(*              dict locally and publish it                                *)
(*                 Rebind  (deviation): ptr := new dict                    *)
(*                 InPlace (intended) : fill the dict ptr is bound to      *)
(*   ensure_kid: GetView; if no kid: thumbprint (GetView again) and store  *)
(*              kid into the dict ptr is bound to *now*                    *)
(*   read_kid:  GetView; report whether it holds a kid (KeySet.get_by_kid) *)
(*   iterate:   as_dict(private=False) walks the members of the view       *)
(*                 IterShared (deviation): walks the shared dict itself    *)
(*                 (a concurrent insertion of "kid" is a RuntimeError)     *)
(*                 intended: walks its own copy                            *)
(* Property: once some call has returned having assigned/observed the kid, *)
(* no later read finds the key without it, and no call fails.              *)
(***************************************************************************)
EXTENDS Naturals, Sequences, FiniteSets, TLC

CONSTANTS Threads, Ops, Dev, MaxDicts
DevNames == {"Rebind", "IterShared"}
ASSUME Dev \subseteq DevNames

VARIABLES heap, ptr, nextId, op, pc, loc, before, result, observed, failed
vars == <<heap, ptr, nextId, op, pc, loc, before, result, observed, failed>>

Empty == [filled |-> FALSE, kid |-> FALSE]
Init ==
  /\ heap = [d \in 0..MaxDicts |-> Empty] /\ ptr = 0 /\ nextId = 1
  /\ op \in [Threads -> Ops]
  /\ pc = [t \in Threads |-> "gv_read"]
  /\ loc = [t \in Threads |-> 0]
  /\ before = [t \in Threads |-> FALSE]       \* was a kid already observed by somebody when this call began?
  /\ result = [t \in Threads |-> "none"]
  /\ observed = FALSE /\ failed = FALSE

\* where GetView returns to, depending on the operation and how far it is
After(t) == CASE op[t] = "view" -> "done"
              [] op[t] = "ensure_kid" -> (IF pc[t] \in {"gv_read", "gv_write"} THEN "ek_check" ELSE "ek_store")
              [] op[t] = "read_kid" -> "rk_read"
              [] op[t] = "iterate" -> "it_start"

GvRead(t) ==
  /\ pc[t] \in {"gv_read", "gv_read2"}
  /\ loc' = [loc EXCEPT ![t] = ptr]
  /\ before' = IF pc[t] = "gv_read" THEN [before EXCEPT ![t] = observed] ELSE before
  /\ pc' = [pc EXCEPT ![t] = IF heap[ptr].filled THEN After(t) ELSE (IF pc[t] = "gv_read" THEN "gv_write" ELSE "gv_write2")]
  /\ UNCHANGED <<heap, ptr, nextId, op, result, observed, failed>>

\* build (thread-local, not modelled as a step) and publish
GvWrite(t) ==
  /\ pc[t] \in {"gv_write", "gv_write2"}
  /\ IF "Rebind" \in Dev
     THEN /\ nextId <= MaxDicts
          /\ heap' = [heap EXCEPT ![nextId] = [filled |-> TRUE, kid |-> FALSE]]
          /\ ptr' = nextId /\ nextId' = nextId + 1
          /\ loc' = [loc EXCEPT ![t] = nextId]
     ELSE /\ heap' = [heap EXCEPT ![ptr].filled = TRUE]            \* dict.update on the object that is bound: atomic under the GIL
          /\ loc' = [loc EXCEPT ![t] = ptr]
          /\ UNCHANGED <<ptr, nextId>>
  /\ pc' = [pc EXCEPT ![t] = IF pc[t] = "gv_write" THEN (IF op[t] = "ensure_kid" THEN "ek_check" ELSE After(t))
                                                   ELSE "ek_store"]
  /\ UNCHANGED <<op, before, result, observed, failed>>

EkCheck(t) ==
  /\ pc[t] = "ek_check"
  /\ IF heap[loc[t]].kid THEN pc' = [pc EXCEPT ![t] = "ek_done"] ELSE pc' = [pc EXCEPT ![t] = "gv_read2"]     \* thumbprint() reads the view again
  /\ UNCHANGED <<heap, ptr, nextId, op, loc, before, result, observed, failed>>
EkStore(t) ==
  /\ pc[t] = "ek_store"
  /\ heap' = [heap EXCEPT ![ptr].kid = TRUE]                       \* self._dict_value["kid"] = ...
  /\ pc' = [pc EXCEPT ![t] = "ek_done"]
  /\ UNCHANGED <<ptr, nextId, op, loc, before, result, observed, failed>>
EkDone(t) ==
  /\ pc[t] = "ek_done"
  /\ observed' = TRUE /\ result' = [result EXCEPT ![t] = "kid"]
  /\ pc' = [pc EXCEPT ![t] = "done"]
  /\ UNCHANGED <<heap, ptr, nextId, op, loc, before, failed>>

RkRead(t) ==
  /\ pc[t] = "rk_read"
  /\ result' = [result EXCEPT ![t] = IF heap[loc[t]].kid THEN "kid" ELSE "nokid"]
  /\ pc' = [pc EXCEPT ![t] = "done"]
  /\ UNCHANGED <<heap, ptr, nextId, op, loc, before, observed, failed>>

\* iteration over the members: remembers whether "kid" was a member when it started
ItStart(t) ==
  /\ pc[t] = "it_start"
  /\ result' = [result EXCEPT ![t] = IF heap[loc[t]].kid THEN "iter_kid" ELSE "iter_nokid"]
  /\ pc' = [pc EXCEPT ![t] = "it_next"]
  /\ UNCHANGED <<heap, ptr, nextId, op, loc, before, observed, failed>>
ItNext(t) ==
  /\ pc[t] = "it_next"
  /\ failed' = (failed \/ ("IterShared" \in Dev /\ result[t] = "iter_nokid" /\ heap[loc[t]].kid))   \* dictionary changed size during iteration
  /\ pc' = [pc EXCEPT ![t] = "done"]
  /\ UNCHANGED <<heap, ptr, nextId, op, loc, before, result, observed>>

Step(t) == GvRead(t) \/ GvWrite(t) \/ EkCheck(t) \/ EkStore(t) \/ EkDone(t) \/ RkRead(t) \/ ItStart(t) \/ ItNext(t)
Next == \E t \in Threads : Step(t)
Spec == Init /\ [][Next]_vars

AllDone == \A t \in Threads : pc[t] = "done"
\* a kid that has been observed is never lost from the key
KidNeverLost == observed => heap[ptr].kid
\* a reader that started after the kid was observed sees it
ReadersSeeKid == \A t \in Threads : (pc[t] = "done" /\ op[t] = "read_kid" /\ before[t]) => result[t] = "kid"
NoFailure == ~failed
=============================================================================
