SPECIFICATION Spec
CONSTANTS MaxOps = 4  Dev = {"EphemeralPrivatePublished"}
INVARIANT NoPrivateEpk
CHECK_DEADLOCK FALSE
