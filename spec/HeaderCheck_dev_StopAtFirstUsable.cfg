SPECIFICATION Spec
CONSTANTS Dev = {"StopAtFirstUsable"}  Family = "kw"
INVARIANT Sound
INVARIANT NoViolatedOperates
CHECK_DEADLOCK FALSE
