SPECIFICATION Spec
CONSTANTS MaxEdits = 2  Dev = {"NonEmptyEkAccepted"}  Mode = "dir"  TagBound = FALSE
INVARIANT AuthPlain
CHECK_DEADLOCK FALSE
