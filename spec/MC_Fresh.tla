------------------------------ MODULE MC_Fresh ------------------------------
(* Small exhaustive instance of Fresh.tla: a generator that may return any of a few values; TLC shows that the Draw  *)
(* discipline keeps every history duplicate-free, and that a generator that repeats is rejected (deadlocks the spec). *)
EXTENDS Fresh, Sequences, FiniteSets
CONSTANTS MaxDraws
Vals == {<<1>>, <<2>>, <<3>>, <<1,2,3,4,5,6,7,8,9,10,11,12>>, <<12,11,10,9,8,7,6,5,4,3,2,1>>}
Ctx == [enc |-> "A128GCM", crv |-> "P-256", len |-> 1]
MInit == FInit
MNext == \E k \in {"gcmkw_iv", "genkey"}, v \in Vals : draws[k] < MaxDraws /\ Draw(k, v, [Ctx EXCEPT !.len = Len(v)]) /\ (k = "gcmkw_iv" => Len(v) = 12)
MSpec == MInit /\ [][MNext]_fvars
AllUnique == \A k \in Kinds : Unique(k)
=============================================================================
