----------------------------- MODULE JwkImport -----------------------------
(***************************************************************************)
(* Property C11, refusal part: JWKs with missing required members, wrong   *)
(* member types, contradictory use/key_ops, undecodable values, partial    *)
(* RSA CRT parameters or points not on the curve are refused at import.    *)
(* A case = key type x private/public x one mutation of one member.        *)
(***************************************************************************)
EXTENDS JoseDefs, TLC, Json

Ktys == {"oct", "RSA", "EC", "OKP"}
ValueMembers(kty) == JwkRequired(kty) \cup (JwkPrivate(kty) \ {"oth"})
ParamMembers == {"use", "key_ops", "alg", "kid", "x5c", "x5u"}
Mutations == {"delete", "int", "null", "list", "obj", "bool", "bad_b64", "empty", "flip", "contradict", "unknown_value",
              "other_key", "negate",
              "drop_primes", "drop_with_pair", "only_this_left"}   \* several RSA CRT members deleted at once (see below)   \* the member (EC: the point) of another well-formed key of the type; EC y -> p - y

\* the verdict the statement fixes: "refuse", "accept", or "either" (outside the statement)
\* public and private halves that are each well formed but do not belong together: such a key cannot "interoperate with
\* the original", and no independent implementation reconstructs a key from it
Contradictory(kty, private, m, mut) ==
  /\ private /\ kty # "oct" /\ m \in (JwkRequired(kty) \cup JwkPrivate(kty)) \ {"crv", "oth"}
  /\ mut = "other_key" \/ (mut = "negate" /\ kty = "EC" /\ m = "y")

\* partial RSA CRT parameters are refused whichever members are missing: p and q both gone (the others left), a member gone
\* together with its partner (p with dp, q with dq, qi with p), or only one of the five left
CrtMembers == {"p", "q", "dp", "dq", "qi"}
PartialCrt(kty, private, m, mut) == kty = "RSA" /\ private /\ m \in CrtMembers /\ mut \in {"drop_primes", "drop_with_pair", "only_this_left"}

Verdict(kty, private, m, mut) ==
  IF mut \in {"drop_primes", "drop_with_pair", "only_this_left"} THEN (IF PartialCrt(kty, private, m, mut) THEN "refuse" ELSE "either")
  ELSE IF mut \in {"other_key", "negate"} THEN (IF Contradictory(kty, private, m, mut) THEN "refuse" ELSE "either")
  ELSE IF m \in JwkRequired(kty) THEN
       (IF mut \in {"delete", "int", "null", "list", "obj", "bool", "bad_b64"} THEN "refuse"
        ELSE IF m = "crv" /\ mut \in {"flip", "unknown_value", "empty"} THEN "refuse"
        ELSE IF kty = "EC" /\ m \in {"x", "y"} /\ mut \in {"flip", "empty"} THEN "refuse"           \* point not on the curve
        ELSE IF kty = "OKP" /\ m = "x" /\ mut = "empty" THEN "refuse"
        ELSE "either")
  ELSE IF m \in JwkPrivate(kty) THEN
       (IF ~private THEN "either"
        ELSE IF mut \in {"int", "null", "list", "obj", "bool", "bad_b64"} THEN "refuse"
        ELSE IF kty = "RSA" /\ m \in {"p", "q", "dp", "dq", "qi"} /\ mut = "delete" THEN "refuse"    \* partial CRT parameters
        ELSE IF kty = "RSA" /\ m = "d" /\ mut = "delete" THEN "either"
        ELSE IF m = "d" /\ mut = "empty" THEN "refuse"      \* no private value of any type is the empty octet string; taking the key for a public one is not what was given
        ELSE "either")
  ELSE IF m = "use" THEN (IF mut \in {"int", "null", "list", "obj", "bool", "unknown_value"} THEN "refuse"
                           ELSE IF mut = "contradict" THEN "refuse" ELSE "either")
  ELSE IF m = "key_ops" THEN (IF mut \in {"int", "null", "obj", "bool", "unknown_value"} THEN "refuse"
                               ELSE IF mut = "contradict" THEN "refuse" ELSE "either")
  ELSE IF m \in {"alg", "kid"} THEN (IF mut \in {"int", "null", "list", "obj", "bool"} THEN "refuse" ELSE "either")
  ELSE IF m = "x5c" THEN (IF mut \in {"int", "null", "obj", "bool"} THEN "refuse" ELSE "either")
  ELSE IF m = "x5u" THEN (IF mut \in {"int", "null", "list", "obj", "bool", "bad_b64"} THEN "refuse" ELSE "either")
  ELSE "either"

VARIABLES case, done
Init == /\ done = FALSE
        /\ \E k \in Ktys, p \in BOOLEAN : \E m \in ValueMembers(k) \cup ParamMembers, mut \in Mutations :
             /\ (k = "oct" => p)
             /\ case = [kty |-> k, private |-> p, member |-> m, mutation |-> mut, verdict |-> Verdict(k, p, m, mut)]
Next == ~done /\ done' = TRUE /\ UNCHANGED case
Spec == Init /\ [][Next]_<<case, done>>
\* sanity of the table: a private-only member of a public key cannot be demanded
Sane == (case.member \in JwkPrivate(case.kty) \ JwkRequired(case.kty) /\ ~case.private) => case.verdict = "either"
Export == ~done => PrintT("CASE " \o ToJson(case))
=============================================================================
