SPECIFICATION Spec
CONSTANTS Dev = {}
  MaxCalls = 3
INVARIANT AsOnFreshRegistry
INVARIANT Export
CHECK_DEADLOCK FALSE
