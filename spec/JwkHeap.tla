------------------------------ MODULE JwkHeap ------------------------------
(***************************************************************************)
(* Property C12 over histories of SEVERAL key objects that share caller-   *)
(* owned dictionaries (the `parameters` argument, module-level constants   *)
(* like {"use": "sig"}).  Jwk.tla follows one lineage; this module follows *)
(* the heap: which dictionary object holds which private member of which   *)
(* key.  A key's JWK view lives in a cell of its own; the caller's         *)
(* dictionaries are only ever read.  Public exports filter by the member   *)
(* NAMES private for the exporting key's own type, so a private member of  *)
(* another key type that reached the view would pass the filter.           *)
(* The same heap carries the automatically assigned kid (C13, C14): a tag  *)
(* <<k, "kid">> is the RFC 7638 thumbprint of key k; ensure_kid stores it  *)
(* in k's own view only, so a key never shows another key's thumbprint.    *)
(* Behaviours are exported and replayed on real keys (harness/jwkheap.py). *)
(***************************************************************************)
EXTENDS Naturals, Sequences, FiniteSets, TLC, Json

CONSTANTS Dev, MaxOps
DevNames == {"ViewBuiltInCallerDict", "ParamsWrittenBack", "KidWrittenToParams"}
ASSUME Dev \subseteq DevNames

Keys == {"a", "b"}
Kinds == {"rsa_priv", "ec_priv", "ec_pub", "okp_pub", "oct"}
Srcs == {"jwk", "pem", "der"}
Params == {"P", "Q"}                        \* two caller-owned dictionaries; "none": no parameters given
PrivNames(kind) == CASE kind = "rsa_priv" -> {"d", "p", "q", "dp", "dq", "qi"}
                     [] kind \in {"ec_priv", "ec_pub", "okp_pub"} -> {"d"}
                     [] kind = "oct" -> {"k"}
Holds(kind) == kind \in {"rsa_priv", "ec_priv", "oct"}
OwnTags(k, kind) == IF Holds(kind) THEN {<<k, n>> : n \in PrivNames(kind)} ELSE {}

\* cells: the two caller dictionaries and one view cell per key
ViewCell(k) == "V" \o k
Cells == Params \cup {ViewCell(k) : k \in Keys}

VARIABLES key,        \* key[k]: "unbuilt" or [kind, src, params, cell, mat]
          content,    \* content[c]: the private-member tags <<owner, name>> held by cell c
          hist
vars == <<key, content, hist>>

Init == /\ key = [k \in Keys |-> [kind |-> "unbuilt", src |-> "none", params |-> "none", cell |-> ViewCell(k), mat |-> FALSE]]
        /\ content = [c \in Cells |-> {}]
        /\ hist = <<>>

Built(k) == key[k].kind # "unbuilt"
\* whose thumbprint key k shows as its kid ("none": no kid, or view not built yet)
KidOwner(k, kk, cc) ==
  IF ~kk[k].mat THEN "none"
  ELSE LET ks == {t \in cc[kk[k].cell] : t[2] = "kid"}
       IN IF ks = {} THEN "none" ELSE IF <<k, "kid">> \in ks /\ Cardinality(ks) = 1 THEN k ELSE "other"
LogS(op, k, kind, src, o, out, kk, cc) ==
  hist' = Append(hist, [op |-> op, k |-> k, kind |-> kind, src |-> src, params |-> o, out |-> out,
                        kids |-> [x \in Keys |-> KidOwner(x, kk, cc)]])

\* the state after key k's JWK view has been built (first use of dict_value; at once for a key imported from a JWK dict)
Materialized(k, kk, cc) ==
  LET rec == kk[k]
      own == OwnTags(k, rec.kind)
      given == IF rec.params = "none" THEN {} ELSE cc[rec.params]
  IN IF rec.mat THEN <<kk, cc>>
     ELSE IF "ViewBuiltInCallerDict" \in Dev /\ rec.params # "none" /\ rec.src # "jwk"
          THEN <<[kk EXCEPT ![k].mat = TRUE, ![k].cell = rec.params], [cc EXCEPT ![rec.params] = @ \cup own]>>
          ELSE <<[kk EXCEPT ![k].mat = TRUE],
                 [cc EXCEPT ![rec.cell] = own \cup given,
                            ![IF "ParamsWrittenBack" \in Dev /\ rec.params # "none" THEN rec.params ELSE rec.cell] = @ \cup own \cup given]>>

Build ==
  \E k \in Keys, kind \in Kinds, src \in Srcs, o \in Params \cup {"none"} :
    /\ ~Built(k) /\ Len(hist) < MaxOps
    /\ (kind = "oct" => src = "jwk")
    /\ LET k0 == [key EXCEPT ![k] = [kind |-> kind, src |-> src, params |-> o, cell |-> ViewCell(k), mat |-> FALSE]]
           st == IF src = "jwk" THEN Materialized(k, k0, content) ELSE <<k0, content>>
       IN /\ key' = st[1] /\ content' = st[2]
          /\ LogS("build", k, kind, src, o, {}, st[1], st[2])

\* any use that needs the JWK view: kid, thumbprint, as_dict(), signing with a key set, ...
Touch ==
  \E k \in Keys :
    /\ Built(k) /\ ~key[k].mat /\ Len(hist) < MaxOps
    /\ LET st == Materialized(k, key, content) IN
         /\ key' = st[1] /\ content' = st[2]
         /\ LogS("touch", k, key[k].kind, key[k].src, key[k].params, {}, st[1], st[2])

Leaks(k, kk, cc) == {t \in cc[kk[k].cell] : t[2] # "kid" /\ t[2] \notin PrivNames(kk[k].kind)}
PublicExport ==
  \E k \in Keys :
    /\ Built(k) /\ Len(hist) < MaxOps
    /\ LET st == Materialized(k, key, content) IN
         /\ key' = st[1] /\ content' = st[2]
         /\ LogS("public_export", k, key[k].kind, key[k].src, key[k].params, Leaks(k, st[1], st[2]), st[1], st[2])

\* ensure_kid: build the view, and if it shows no kid store the key's own thumbprint into it
KidEnsured(k, kk, cc) ==
  LET st == Materialized(k, kk, cc)
      cell == st[1][k].cell
      has == \E t \in st[2][cell] : t[2] = "kid"
  IN IF has THEN st
     ELSE <<st[1], [st[2] EXCEPT ![cell] = @ \cup {<<k, "kid">>},
                                 ![IF "KidWrittenToParams" \in Dev /\ st[1][k].params # "none" THEN st[1][k].params ELSE cell] = @ \cup {<<k, "kid">>}]>>
EnsureKid ==
  \E k \in Keys :
    /\ Built(k) /\ Len(hist) < MaxOps
    /\ LET st == KidEnsured(k, key, content) IN
         /\ key' = st[1] /\ content' = st[2]
         /\ LogS("ensure_kid", k, key[k].kind, key[k].src, key[k].params, {}, st[1], st[2])

\* KeySet([a, b]).as_dict(private=False): the set assigns kids, then every member key is exported in turn
SetPublicExport ==
  /\ \A k \in Keys : Built(k)
  /\ Len(hist) < MaxOps
  /\ LET s1 == KidEnsured("a", key, content)
         s2 == KidEnsured("b", s1[1], s1[2])
     IN /\ key' = s2[1] /\ content' = s2[2]
        /\ LogS("set_public_export", "a", "-", "-", "-", Leaks("a", s2[1], s2[2]) \cup Leaks("b", s2[1], s2[2]), s2[1], s2[2])

Next == Build \/ Touch \/ EnsureKid \/ PublicExport \/ SetPublicExport
Spec == Init /\ [][Next]_vars

\* C12: nothing exported as public carries a private member of any key
NoLeak == \A i \in 1..Len(hist) : hist[i].out = {}
\* C13/C14: a key never shows a kid that is another key's thumbprint
KidIsOwn == \A i \in 1..Len(hist) : \A x \in Keys : hist[i].kids[x] \in {"none", x}
\* the mechanism: the caller's dictionaries are never written
CallerDictsUntouched == \A o \in Params : content[o] = {}
Export == (Len(hist) = MaxOps) => PrintT("CASE " \o ToJson([hist |-> hist]))
=============================================================================
