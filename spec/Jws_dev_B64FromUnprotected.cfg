SPECIFICATION Spec
CONSTANTS MaxEdits = 2  Dev = {"B64FromUnprotected"}  RawMode = FALSE
INVARIANT AuthOnly
CHECK_DEADLOCK FALSE
