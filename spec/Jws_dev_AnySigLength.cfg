SPECIFICATION Spec
CONSTANTS MaxEdits = 2  Dev = {"AnySigLength"}  RawMode = FALSE
INVARIANT AuthOnly
CHECK_DEADLOCK FALSE
