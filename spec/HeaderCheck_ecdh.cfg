SPECIFICATION Spec
CONSTANTS Dev = {}  Family = "ecdh"
INVARIANT Sound
INVARIANT NoViolatedOperates
INVARIANT Export
CHECK_DEADLOCK FALSE
