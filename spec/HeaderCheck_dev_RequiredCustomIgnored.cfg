SPECIFICATION Spec
CONSTANTS Dev = {"RequiredCustomIgnored"}  Family = "jws"
INVARIANT Sound
INVARIANT NoViolatedOperates
CHECK_DEADLOCK FALSE
