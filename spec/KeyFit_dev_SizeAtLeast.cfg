SPECIFICATION Spec
CONSTANTS Dev = {"SizeAtLeast"}  Family = "jwe"
INVARIANT Sound
INVARIANT OnlySuitable
CHECK_DEADLOCK FALSE
