SPECIFICATION TSpec
CONSTANTS Family = "history"  MaxCalls = 0  Dev = {}
INVARIANT Report
CHECK_DEADLOCK FALSE
