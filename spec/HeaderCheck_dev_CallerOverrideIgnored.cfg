SPECIFICATION Spec
CONSTANTS Dev = {"CallerOverrideIgnored"}  Family = "kw"
INVARIANT Sound
INVARIANT NoViolatedOperates
CHECK_DEADLOCK FALSE
