---------------------------- MODULE JweRoundTrip ----------------------------
(***************************************************************************)
(* Property C04 (and the scenario space of C08): attacker-free life cycle  *)
(* of a JWE: Encrypt -> Decrypt, for every alg x enc x zip x serialization *)
(* x recipient set x AAD x apu/apv x plaintext class, including the        *)
(* combinations the specifications forbid, which must be refused at        *)
(* encryption time.                                                        *)
(***************************************************************************)
EXTENDS JoseDefs, TLC, Json

CONSTANTS Dev, Family            \* "single" | "multi"
DevNames == {"DirectMultiAllowed", "OnePuAnyEnc", "ZipOneSided", "RecipientHeaderLost"}
ASSUME Dev \subseteq DevNames

Sers == {"compact", "flattened", "general"}
\* incompressible: random octets just below the decompression limit (DEFLATE makes them a little longer, not shorter)
PClasses == {"empty", "one", "b15", "b16", "b17", "k4", "binary", "compressible", "incompressible", "b4090"}   \* b4090: pads to exactly 4096 under CBC

\* recipient mixes for the general serialization (algorithm per recipient, in the per-recipient header)
\* one representative algorithm per non-direct key-management family; every ordered pair of families is a mix
FamilyReps == {"RSA-OAEP", "A128KW", "A192GCMKW", "PBES2-HS256+A128KW", "ECDH-ES+A128KW", "ECDH-1PU+A128KW"}
Mixes == {<<a, b>> : a \in FamilyReps, b \in FamilyReps}
         \cup {<<"RSA-OAEP", "A128KW", "ECDH-ES+A128KW">>, <<"ECDH-ES+A256KW", "RSA1_5", "ECDH-1PU+A256KW">>,
               <<"PBES2-HS256+A128KW", "A192GCMKW", "ECDH-ES+A256KW", "RSA1_5">>, <<"A128KW", "A128KW", "A128KW">>,
               <<"ECDH-1PU+A128KW", "A256KW", "ECDH-ES+A192KW">>,
               \* forbidden: a direct mode with more than one recipient
               <<"dir", "A128KW">>, <<"A128KW", "dir">>, <<"ECDH-ES", "A128KW">>, <<"ECDH-ES", "ECDH-ES">>, <<"ECDH-1PU", "A128KW">>,
               <<"ECDH-ES+A128KW", "ECDH-1PU">>}

IsDirect(a) == JweAlgOf(a).mode \in DirectModes
Is1puKw(a) == JweAlgOf(a).mode = "1pukw"
IsAgreement(a) == JweAlgOf(a).mode \in {"ecdh", "ecdhkw", "1pu", "1pukw"}

\* what the specifications forbid
Refusal(sc) ==
  IF Len(sc.algs) > 1 /\ \E i \in 1..Len(sc.algs) : IsDirect(sc.algs[i]) THEN "conflict"
  ELSE IF \E i \in 1..Len(sc.algs) : Is1puKw(sc.algs[i]) /\ JweEncOf(sc.enc).fam # "cbc" THEN "invalid_enc"
  ELSE "none"
Expect(sc) == IF Refusal(sc) = "none" THEN "exact" ELSE Refusal(sc)

Scn(algs, enc, zip, ser, aad, pinfo, pc, place) ==
  [algs |-> algs, enc |-> enc, zip |-> zip, ser |-> ser, aad |-> aad, pinfo |-> pinfo, pc |-> pc, place |-> place]

NoToken == [zipped |-> FALSE, hdrs |-> "none", decryptable |-> FALSE]
VARIABLES sc, phase, token, result
vars == <<sc, phase, token, result>>

Init ==
  /\ phase = "encrypt" /\ token = NoToken /\ result = "none"
  /\ IF Family = "single"
     THEN \E a \in JweAlgNames, e \in JweEncNames, z \in BOOLEAN, ser \in Sers, aad \in BOOLEAN, pi \in BOOLEAN, pc \in PClasses,
             place \in {"protected", "spread"} :
            /\ (aad => ser # "compact") /\ (pi => IsAgreement(a)) /\ (place = "spread" => ser # "compact")
            /\ (pc \in {"k4", "compressible"} => z) /\ (aad /\ pi => pc = "b16")        \* keep the product manageable
            /\ sc = Scn(<<a>>, e, z, ser, aad, pi, pc, place)
     ELSE \E m \in Mixes, e \in {"A128CBC-HS256", "A256GCM", "XC20P"}, z \in BOOLEAN, aad \in BOOLEAN, pc \in {"empty", "b16", "binary"} :
            sc = Scn(m, e, z, "general", aad, FALSE, pc, "spread")

Encrypt ==
  /\ phase = "encrypt"
  /\ LET r == Refusal(sc)
         refuse == /\ r # "none"
                   /\ ~("DirectMultiAllowed" \in Dev /\ r = "conflict") /\ ~("OnePuAnyEnc" \in Dev /\ r = "invalid_enc")
     IN IF refuse THEN /\ result' = r /\ phase' = "done" /\ token' = NoToken
        ELSE /\ token' = [zipped |-> sc.zip, hdrs |-> IF "RecipientHeaderLost" \in Dev /\ sc.place = "spread" THEN "lost" ELSE sc.place,
                         decryptable |-> r = "none"]
             /\ phase' = "decrypt" /\ result' = "none"
  /\ UNCHANGED sc

Decrypt ==
  /\ phase = "decrypt"
  /\ result' = IF ~token.decryptable THEN "undecryptable"
               ELSE IF "ZipOneSided" \in Dev /\ token.zipped THEN "garbage"
               ELSE IF token.hdrs # sc.place THEN "header-moved"
               ELSE "exact"
  /\ phase' = "done" /\ UNCHANGED <<sc, token>>

Next == Encrypt \/ Decrypt
Spec == Init /\ [][Next]_vars

RoundTripOrRefused == phase = "done" => result = Expect(sc)
\* a forbidden combination never produces a token
NothingEmitted == Refusal(sc) # "none" => token = NoToken
Export == phase = "encrypt" => PrintT("CASE " \o ToJson([sc |-> sc, expect |-> Expect(sc)]))
=============================================================================
