SPECIFICATION Spec
CONSTANTS Dev = {"ParsedHeaderShared"}
  MaxOps = 4
INVARIANT ByItsOwnHeader
CHECK_DEADLOCK FALSE
