SPECIFICATION Spec
CONSTANTS MaxEdits = 2  Dev = {"IvSizeUnchecked"}  Mode = "wrap"  TagBound = FALSE
INVARIANT AuthPlain
CHECK_DEADLOCK FALSE
