SPECIFICATION Spec
CONSTANTS Dev = {}  Family = "gcmkw"
INVARIANT Sound
INVARIANT NoViolatedOperates
INVARIANT Export
CHECK_DEADLOCK FALSE
