SPECIFICATION Spec
CONSTANTS MaxEdits = 2  Dev = {"ErrorsAlwaysSwallowed"}  Mode = "wrap"  TagBound = FALSE
INVARIANT AuthPlain
CHECK_DEADLOCK FALSE
