SPECIFICATION Spec
CONSTANTS MaxOps = 5  Dev = {"ParamsWrittenBack"}
INVARIANT NoLeak
INVARIANT KidIsOwn
CHECK_DEADLOCK FALSE
