SPECIFICATION Spec
CONSTANTS MaxOps = 5  Dev = {"ParamsWrittenBack"}
INVARIANT NoLeak
CHECK_DEADLOCK FALSE
