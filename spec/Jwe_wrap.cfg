SPECIFICATION Spec
CONSTANTS MaxEdits = 2  Dev = {}  Mode = "wrap"  TagBound = FALSE
INVARIANT AuthPlain
INVARIANT RoundTrip
INVARIANT Export
CHECK_DEADLOCK FALSE
