SPECIFICATION Spec
CONSTANTS Dev = {}  Family = "jwe"
INVARIANT Sound
INVARIANT OnlySuitable
INVARIANT Export
CHECK_DEADLOCK FALSE
