SPECIFICATION Spec
CONSTANTS Dev = {}
  MaxCalls = 2
  BadRow = "ES256K"
INVARIANT EveryRowServes
INVARIANT Export
CHECK_DEADLOCK FALSE
