SPECIFICATION Spec
CONSTANTS Dev = {"EncUnhashable"}
INVARIANT NoEscape
CHECK_DEADLOCK FALSE
