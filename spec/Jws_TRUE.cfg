SPECIFICATION Spec
CONSTANTS MaxEdits = 2  Dev = {}  RawMode = TRUE
INVARIANT AuthOnly
INVARIANT RoundTrip
INVARIANT Export
CHECK_DEADLOCK FALSE
