SPECIFICATION Spec
CONSTANTS Dev = {"RowSpentByUse"}
  MaxCalls = 2
  BadRow = "ES256K"
INVARIANT EveryRowServes
CHECK_DEADLOCK FALSE
