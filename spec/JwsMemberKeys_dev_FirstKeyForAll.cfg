SPECIFICATION Spec
CONSTANTS Dev = {"FirstKeyForAll"}
  MaxMembers = 2
INVARIANT EachUnderItsOwnKey
CHECK_DEADLOCK FALSE
