---------------------------- MODULE JwsInFlight ----------------------------
(***************************************************************************)
(* Properties C01 / C07 over histories of the split verification API       *)
(* (jws.extract_compact, jws.validate_compact): several parsed tokens are   *)
(* in flight at once - a batch is extracted first and validated later, or   *)
(* two threads interleave.  A signature object carries the segments of its  *)
(* own token; validating object x recomputes the signature over x's        *)
(* segments only.                                                           *)
(*   SegmentsShared (deviation): the parsed segments live in one cell       *)
(*   shared by every signature object (a class-level dict filled in place): *)
(*   validation then judges the token parsed last, while the payload and    *)
(*   header handed to the caller are still those of x.                      *)
(***************************************************************************)
EXTENDS Naturals, Sequences, FiniteSets, TLC, Json

CONSTANTS Dev
ASSUME Dev \subseteq {"SegmentsShared"}
Objs == {"a", "b"}
\* honest tokens of payloads P1, P2 under key K1; forged = payload P2 under the signature of the P1 token; alien = signed with K2
TokenKinds == {"honest1", "honest2", "forged", "alien"}
ValidAlone(k) == k \in {"honest1", "honest2"}

VARIABLES tok, seg, cell, verdict, hist
vars == <<tok, seg, cell, verdict, hist>>

Init == /\ tok \in [Objs -> TokenKinds] /\ tok["a"] # tok["b"]
        /\ seg = [x \in Objs |-> "none"] /\ cell = "none" /\ verdict = [x \in Objs |-> "none"] /\ hist = <<>>
Parse(x) == /\ seg[x] = "none"
            /\ seg' = [seg EXCEPT ![x] = tok[x]] /\ cell' = tok[x]
            /\ hist' = Append(hist, <<"parse", x>>) /\ UNCHANGED <<tok, verdict>>
Validate(x) == /\ seg[x] # "none" /\ verdict[x] = "none"
               /\ LET judged == IF "SegmentsShared" \in Dev THEN cell ELSE seg[x]
                  IN verdict' = [verdict EXCEPT ![x] = IF ValidAlone(judged) THEN "valid" ELSE "invalid"]
               /\ hist' = Append(hist, <<"validate", x>>) /\ UNCHANGED <<tok, seg, cell>>
Next == \E x \in Objs : Parse(x) \/ Validate(x)
Spec == Init /\ [][Next]_vars

\* the verdict on x is the verdict its own token gets alone
OwnToken == \A x \in Objs : verdict[x] # "none" => verdict[x] = (IF ValidAlone(tok[x]) THEN "valid" ELSE "invalid")
Done == \A x \in Objs : verdict[x] # "none"
Export == Done => PrintT("CASE " \o ToJson([tok |-> tok, hist |-> hist]))
=============================================================================
