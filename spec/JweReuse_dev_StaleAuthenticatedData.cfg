SPECIFICATION Spec
CONSTANTS MaxOps = 4  Dev = {"StaleAuthenticatedData"}
INVARIANT SelfConsistent
CHECK_DEADLOCK FALSE
