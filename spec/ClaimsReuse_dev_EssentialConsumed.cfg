SPECIFICATION Spec
CONSTANTS Dev = {"EssentialConsumed"}  MaxCalls = 3
INVARIANT AsOnFreshRegistry
CHECK_DEADLOCK FALSE
