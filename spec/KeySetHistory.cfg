SPECIFICATION Spec
CONSTANTS MaxOps = 4  Dev = {}
INVARIANT ResolvesCurrentSet
INVARIANT Export
CHECK_DEADLOCK FALSE
