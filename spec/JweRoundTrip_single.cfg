SPECIFICATION Spec
CONSTANTS Dev = {}  Family = "single"
INVARIANT RoundTripOrRefused
INVARIANT NothingEmitted
INVARIANT Export
CHECK_DEADLOCK FALSE
