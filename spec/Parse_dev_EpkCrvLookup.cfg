SPECIFICATION Spec
CONSTANTS Dev = {"EpkCrvLookup"}
INVARIANT NoEscape
CHECK_DEADLOCK FALSE
