----------------------------- MODULE TraceFresh -----------------------------
(***************************************************************************)
(* Trace validation for C18 (binding B2): a batch of traces recorded from  *)
(* the real library (each trace = the random values observed over a        *)
(* history of encryptions / key generations of one configuration, possibly *)
(* spanning several fresh processes) is checked against Fresh.tla.         *)
(* Verdicts are total: an event that is not an enabled Draw step is        *)
(* recorded with the failing clause and skipped; the end of every trace    *)
(* checks the bit accumulators.  The result is printed as one CASE line.   *)
(***************************************************************************)
EXTENDS Fresh, Sequences, FiniteSets, Json, IOUtils

Batch == JsonDeserialize(IOEnv.TRACE_FILE)       \* sequence of traces; a trace = [name, uniform (kinds with uniform bits), events]
VARIABLES tid, l, rejected
tvars == <<used, andAcc, orAcc, draws, tid, l, rejected>>

TInit == FInit /\ tid = 1 /\ l = 1 /\ rejected = <<>>

Tr == Batch[tid]
Ev == Tr.events[l]
CtxOf(e) == [enc |-> e.enc, crv |-> e.crv, len |-> e.len]

Consume ==
  /\ tid <= Len(Batch) /\ l <= Len(Tr.events)
  /\ LET e == Ev IN
       IF ~Fresh(e.kind, e.v) THEN
            /\ rejected' = Append(rejected, [trace |-> Tr.name, at |-> l, kind |-> e.kind, clause |-> "repeated value"])
            /\ UNCHANGED fvars
       ELSE IF ~LenOk(e.kind, e.v, CtxOf(e)) THEN
            /\ rejected' = Append(rejected, [trace |-> Tr.name, at |-> l, kind |-> e.kind, clause |-> "wrong size"])
            /\ UNCHANGED fvars
       ELSE IF e.kind = "epk" /\ e.crv # e.rcrv THEN
            /\ rejected' = Append(rejected, [trace |-> Tr.name, at |-> l, kind |-> e.kind, clause |-> "ephemeral key not on the recipient's curve"])
            /\ UNCHANGED fvars
       ELSE IF e.kind = "p2s" /\ e.p2c < 1000 THEN
            /\ rejected' = Append(rejected, [trace |-> Tr.name, at |-> l, kind |-> e.kind, clause |-> "default iteration count below 1000"])
            /\ UNCHANGED fvars
       ELSE Draw(e.kind, e.v, CtxOf(e)) /\ UNCHANGED rejected
  /\ l' = l + 1 /\ UNCHANGED tid

EndTrace ==
  /\ tid <= Len(Batch) /\ l > Len(Tr.events)
  /\ LET bad == {k \in Kinds : (\E i \in 1..Len(Tr.uniform) : Tr.uniform[i] = k) /\ ~NoFixedBit(k)}
     IN rejected' = IF bad = {} THEN rejected
                    ELSE Append(rejected, [trace |-> Tr.name, at |-> l, kind |-> CHOOSE k \in bad : TRUE, clause |-> "a bit position is constant over all draws"])
  /\ tid' = tid + 1 /\ l' = 1
  /\ used' = [k \in Kinds |-> {}] /\ andAcc' = [k \in Kinds |-> <<>>] /\ orAcc' = [k \in Kinds |-> <<>>] /\ draws' = [k \in Kinds |-> 0]

Done == tid > Len(Batch) /\ UNCHANGED tvars
TNext == Consume \/ EndTrace
TSpec == TInit /\ [][TNext]_tvars

\* reported once, when all traces are consumed
Report == tid > Len(Batch) => PrintT("CASE " \o ToJson([rejected |-> rejected, traces |-> Len(Batch)]))
=============================================================================
