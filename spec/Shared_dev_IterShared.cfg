SPECIFICATION Spec
CONSTANTS Threads = {t1, t2, t3}  Ops = {"view", "ensure_kid", "read_kid", "iterate"}  Dev = {"IterShared"}  MaxDicts = 4
INVARIANT KidNeverLost
INVARIANT ReadersSeeKid
INVARIANT NoFailure
CHECK_DEADLOCK FALSE
