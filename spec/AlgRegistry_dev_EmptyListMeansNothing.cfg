SPECIFICATION Spec
CONSTANTS Family = "jws"  MaxCalls = 1  Dev = {"EmptyListMeansNothing"}
INVARIANT Sound
INVARIANT NoneNeverVerifies
CHECK_DEADLOCK FALSE
