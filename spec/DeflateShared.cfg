SPECIFICATION Spec
CONSTANTS Dev = {}  Cap = 4
INVARIANT AsInIsolation
CHECK_DEADLOCK FALSE
