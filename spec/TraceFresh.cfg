SPECIFICATION TSpec
INVARIANT Report
CHECK_DEADLOCK FALSE
