SPECIFICATION Spec
CONSTANTS Dev = {"UnprotectedKidIgnored"}  Side = "jws"  MaxSet = 2
INVARIANT Sound
INVARIANT RightKey
CHECK_DEADLOCK FALSE
