-------------------------------- MODULE Jwe --------------------------------
(***************************************************************************)
(* Property C02: JWE decryption returns only authenticated plaintext.      *)
(* Dolev-Yao model with an ideal AEAD and ideal key management.            *)
(*                                                                         *)
(* Two honest tokens T1, T2 for recipient key R1 (sender S1 for ECDH-1PU). *)
(* Token i consists of protected header octets Hi, optional AAD Ai, IVi,   *)
(* ciphertext Ci, tag Ti and one recipient entry per recipient carrying    *)
(* the encrypted key EKi (empty in direct modes) and - in the JSON forms - *)
(* the unauthenticated per-recipient header (epk lives there).             *)
(*   AEAD:  Dec(cek, h, aad, iv, c, t) = Pi  iff  cek = CEKi and           *)
(*          (h, aad, iv, c, t) = (Hi, Ai, IVi, Ci, Ti); otherwise it fails.*)
(*          The associated data is the *received* protected header octets. *)
(*   Keys:  a recipient entry of token i yields CEKi only under R1 (and S1) *)
(*          and only if the entry is unmodified; in direct mode with a     *)
(*          shared key both tokens use the same CEK.                       *)
(* The attacker edits the wire token (at most MaxEdits edits), picks the   *)
(* keys offered and whether the caller opted into any-recipient mode.      *)
(* Decrypt follows rfc7516/message.py: IV size, per-recipient CEK recovery *)
(* (errors swallowed only when opted out), CEK set rules, AEAD, result.    *)
(***************************************************************************)
EXTENDS Naturals, Sequences, FiniteSets, TLC, Json

CONSTANTS MaxEdits, Dev,
          Mode,        \* "wrap": EK carries the CEK (RSA*, A*KW, A*GCMKW, PBES2, ECDH+KW, 1PU+KW)
                       \* "dir":  shared symmetric key is the CEK ; "agree": direct key agreement (ECDH-ES, ECDH-1PU)
          TagBound     \* TRUE for ECDH-1PU key wrapping: the KEK also depends on the content tag
DevNames == {"AadFromParsedHeader", "TagPrefixCompared", "IvSizeUnchecked", "NonEmptyEkAccepted", "MultipleCekIgnored",
             "ErrorsAlwaysSwallowed", "NoRecipientOk", "EmptyAadReparsed"}
ASSUME Dev \subseteq DevNames

Sers == {"compact", "flattened", "general"}
Hs == {"H1", "H2", "R1", "X"}                     \* R1: other JSON spelling of H1 (same members); X: altered octets
\* A0: the "aad" member present but empty.  The AAD octets are then the same as without the member (joserfc takes the two for
\* the same thing when producing and when consuming), so on a token made without AAD it changes nothing that is authenticated
Aads == {"none", "A1", "A2", "AX", "A0"}
AadNorm(a) == IF a = "A0" THEN "none" ELSE a
Ivs == {"IV1", "IV2", "IVX", "IVshort", "IVlong"}
Cts == {"C1", "C2", "CX"}
Tags == {"T1", "T2", "TX", "Tshort", "Tlong"}
\* recipient entry: from which honest token, and what the attacker did to it
RecMods == {"none", "ek_junk", "ek_empty", "ek_extra", "epk_other", "epk_bad", "hdr_unknown"}
Rec(i, m) == [from |-> i, mod |-> m]

Honest(ser, n, withAad) ==
  [ser |-> ser, haad |-> withAad, h |-> "H1", aad |-> IF withAad THEN "A1" ELSE "none", iv |-> "IV1", ct |-> "C1", tag |-> "T1",
   recs |-> [j \in 1..n |-> Rec(1, "none")]]

VARIABLES wire, edits, phase, key, sender, anyrec, idx, ceks, err, verdict, returned
vars == <<wire, edits, phase, key, sender, anyrec, idx, ceks, err, verdict, returned>>

Init ==
  /\ \E ser \in Sers, n \in 1..2, a \in BOOLEAN :
       /\ (n = 2 => ser = "general" /\ Mode = "wrap")          \* direct modes have exactly one recipient
       /\ (a => ser # "compact")
       /\ wire = Honest(ser, n, a)
  /\ edits = <<>> /\ phase = "attack" /\ key = "none" /\ sender = "none" /\ anyrec = FALSE
  /\ idx = 0 /\ ceks = {} /\ err = FALSE /\ verdict = "none" /\ returned = "none"

NR == Len(wire.recs)
\* AAD of honest token i (both tokens were made with, or both without, an AAD)
AadOfTok(i) == IF ~wire.haad THEN "none" ELSE IF i = 1 THEN "A1" ELSE "A2"
Edit(name, w) == /\ phase = "attack" /\ Len(edits) < MaxEdits /\ wire' = w /\ edits' = Append(edits, name)
                 /\ UNCHANGED <<phase, key, sender, anyrec, idx, ceks, err, verdict, returned>>
EditH == \E x \in Hs \ {wire.h} : Edit(<<"h", x>>, [wire EXCEPT !.h = x])
EditAad == \E x \in Aads \ {wire.aad} : wire.ser # "compact" /\ Edit(<<"aad", x>>, [wire EXCEPT !.aad = x])
EditIv == \E x \in Ivs \ {wire.iv} : Edit(<<"iv", x>>, [wire EXCEPT !.iv = x])
EditCt == \E x \in Cts \ {wire.ct} : Edit(<<"ct", x>>, [wire EXCEPT !.ct = x])
EditTag == \E x \in Tags \ {wire.tag} : Edit(<<"tag", x>>, [wire EXCEPT !.tag = x])
EditRec == \E j \in 1..NR : \E m \in RecMods \ {wire.recs[j].mod} :
             /\ (m \in {"epk_other", "epk_bad", "hdr_unknown"} => wire.ser # "compact")   \* compact has no unprotected header
             /\ Edit(<<"rec", j, m>>, [wire EXCEPT !.recs[j].mod = m])
SwapRec == \E j \in 1..NR : Edit(<<"rec_from_T2", j>>, [wire EXCEPT !.recs[j] = Rec(2, "none")])
DropRec == \E j \in 1..NR : /\ wire.ser = "general"
                            /\ Edit(<<"drop", j>>, [wire EXCEPT !.recs = [k \in 1..(NR - 1) |-> IF k < j THEN wire.recs[k] ELSE wire.recs[k + 1]]])
AddRec == /\ wire.ser = "general" /\ NR < 3 /\ Mode = "wrap"
          /\ \E i \in 1..2 : Edit(<<"add_rec_from", i>>, [wire EXCEPT !.recs = Append(wire.recs, Rec(i, "none"))])
Attack == EditH \/ EditAad \/ EditIv \/ EditCt \/ EditTag \/ EditRec \/ SwapRec \/ DropRec \/ AddRec

Present ==
  /\ phase = "attack"
  /\ \E k \in {"R1", "R2"}, s \in {"S1", "S2"}, o \in BOOLEAN :
       /\ key' = k /\ sender' = s /\ anyrec' = o
       /\ (s = "S2" => TagBound \/ Mode = "agree")            \* the sender key matters for ECDH-1PU only (modelled on these modes)
  /\ phase' = "recipients" /\ idx' = 1
  /\ UNCHANGED <<wire, edits, ceks, err, verdict, returned>>

\* ------------------------------------------------------------------ layer O
HeaderAccepted == wire.h \in {"H1", "H2", "R1"}     \* altered octets: undecodable JSON or other members (alg/enc/epk changed)
\* in compact form the epk (agreement modes) is inside the protected header: it is the one of the token the header came from
HdrTok == IF wire.h = "H2" THEN 2 ELSE 1
\* CEK a recipient entry yields ("fail" = key management raised an error)
CekOf(r) ==
  IF ~HeaderAccepted \/ r.mod \in {"hdr_unknown", "epk_bad"} THEN "fail"
  ELSE IF Mode = "dir" THEN
         (IF r.mod \in {"ek_extra", "ek_junk"} /\ "NonEmptyEkAccepted" \notin Dev THEN "fail"
          ELSE IF key = "R1" THEN "CEKshared" ELSE "CEKother")
  ELSE IF Mode = "agree" THEN
         (IF r.mod \in {"ek_extra", "ek_junk"} /\ "NonEmptyEkAccepted" \notin Dev THEN "fail"
          ELSE IF key # "R1" \/ sender # "S1" \/ r.mod = "epk_other" THEN "CEKgarbage"
          ELSE IF wire.ser = "compact" THEN (IF HdrTok = 1 THEN "CEK1" ELSE "CEK2")
          ELSE (IF r.from = 1 THEN "CEK1" ELSE "CEK2"))
  ELSE \* wrap: the unwrap itself is integrity-checked (AES-KW, GCM, OAEP) or yields garbage (RSA1_5): model as failure
         (IF r.mod \in {"ek_junk", "ek_empty", "ek_extra", "epk_other"} \/ key # "R1" \/ sender # "S1" THEN "fail"
          ELSE IF TagBound /\ wire.tag # (IF r.from = 1 THEN "T1" ELSE "T2") THEN "fail"
          ELSE (IF r.from = 1 THEN "CEK1" ELSE "CEK2"))

IvOk == wire.iv \notin {"IVshort", "IVlong"} \/ "IvSizeUnchecked" \in Dev

Recipient ==
  /\ phase = "recipients" /\ idx <= NR
  /\ LET c == CekOf(wire.recs[idx])
     IN IF c = "fail"
        THEN /\ err' = (err \/ (~anyrec /\ "ErrorsAlwaysSwallowed" \notin Dev))
             /\ ceks' = ceks
        ELSE err' = err /\ ceks' = ceks \cup {c}
  /\ idx' = idx + 1
  /\ UNCHANGED <<wire, edits, phase, key, sender, anyrec, verdict, returned>>

TokCek(i) == IF Mode = "dir" THEN "CEKshared" ELSE IF i = 1 THEN "CEK1" ELSE "CEK2"
HMatch(i) == \/ wire.h = (IF i = 1 THEN "H1" ELSE "H2")
             \/ (i = 1 /\ wire.h = "R1" /\ "AadFromParsedHeader" \in Dev)
             \/ (i = 1 /\ wire.h = "R1" /\ wire.aad = "A0" /\ "EmptyAadReparsed" \in Dev)
TagMatch(i) == \/ wire.tag = (IF i = 1 THEN "T1" ELSE "T2")
               \/ (i = 1 /\ wire.tag = "Tshort" /\ "TagPrefixCompared" \in Dev)
AeadOpensW(cek, i) ==
  /\ cek = TokCek(i) /\ HMatch(i) /\ TagMatch(i) /\ AadNorm(wire.aad) = AadOfTok(i)
  /\ wire.iv = (IF i = 1 THEN "IV1" ELSE "IV2") /\ wire.ct = (IF i = 1 THEN "C1" ELSE "C2")

Conclude ==
  /\ phase = "recipients" /\ idx > NR
  /\ LET bad == \/ ~IvOk \/ err
                \/ (ceks = {} /\ "NoRecipientOk" \notin Dev)
                \/ (Cardinality(ceks) > 1 /\ "MultipleCekIgnored" \notin Dev)
         cek == IF ceks = {} THEN "CEKgarbage" ELSE CHOOSE c \in ceks : TRUE
         opened == {i \in 1..2 : AeadOpensW(cek, i)}
     IN IF bad \/ opened = {}
        THEN verdict' = "reject" /\ returned' = "none"
        ELSE verdict' = "ok" /\ returned' = (IF 1 \in opened THEN "P1" ELSE "P2")
  /\ phase' = "done"
  /\ UNCHANGED <<wire, edits, key, sender, anyrec, idx, ceks, err>>

Next == Attack \/ Present \/ Recipient \/ Conclude
Spec == Init /\ [][Next]_vars

\* ------------------------------------------------------------------ layer D
\* the wire content is exactly the authenticated content of honest token i
Authentic(i) ==
  /\ wire.h = (IF i = 1 THEN "H1" ELSE "H2") /\ wire.iv = (IF i = 1 THEN "IV1" ELSE "IV2")
  /\ wire.ct = (IF i = 1 THEN "C1" ELSE "C2") /\ wire.tag = (IF i = 1 THEN "T1" ELSE "T2")
  /\ AadNorm(wire.aad) = AadOfTok(i)
AuthPlain ==
  phase = "done" /\ verdict = "ok" =>
    /\ key = "R1"
    /\ \E i \in 1..2 : Authentic(i) /\ returned = (IF i = 1 THEN "P1" ELSE "P2")
    /\ NR >= 1
    /\ \E j \in 1..NR : CekOf(wire.recs[j]) # "fail"                     \* at least one recipient yields the key
    /\ (~anyrec => \A j \in 1..NR : CekOf(wire.recs[j]) # "fail")        \* all of them unless the caller opted out
    /\ \A j, k \in 1..NR : CekOf(wire.recs[j]) # "fail" /\ CekOf(wire.recs[k]) # "fail" => CekOf(wire.recs[j]) = CekOf(wire.recs[k])
    /\ (Mode # "wrap" => \A j \in 1..NR : wire.recs[j].mod \notin {"ek_extra", "ek_junk"})   \* empty encrypted key in direct modes
RoundTrip == phase = "done" /\ edits = <<>> /\ key = "R1" /\ sender = "S1" => verdict = "ok" /\ returned = "P1"
Export == phase = "done" =>
            PrintT("CASE " \o ToJson([w |-> wire, edits |-> edits, key |-> key, sender |-> sender, anyrec |-> anyrec,
                                      mode |-> Mode, tagbound |-> TagBound, aad1 |-> AadOfTok(1),
                                      verdict |-> verdict, returned |-> returned]))
=============================================================================
