SPECIFICATION Spec
CONSTANTS Dev = {"EncMissingJson"}
INVARIANT NoEscape
CHECK_DEADLOCK FALSE
