SPECIFICATION Spec
CONSTANTS Dev = {"KeyOpsNotCheckedOnConsume"}  Family = "jws"
INVARIANT Sound
INVARIANT OnlySuitable
CHECK_DEADLOCK FALSE
