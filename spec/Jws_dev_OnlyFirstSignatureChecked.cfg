SPECIFICATION Spec
CONSTANTS MaxEdits = 2  Dev = {"OnlyFirstSignatureChecked"}  RawMode = FALSE
INVARIANT AuthOnly
CHECK_DEADLOCK FALSE
