SPECIFICATION Spec
CONSTANTS MaxOps = 5  Dev = {}
INVARIANT NoLeak
INVARIANT KidIsOwn
INVARIANT CallerDictsUntouched
INVARIANT Export
CHECK_DEADLOCK FALSE
