SPECIFICATION Spec
CONSTANTS MaxOps = 5  Dev = {}
INVARIANT NoLeak
INVARIANT CallerDictsUntouched
INVARIANT Export
CHECK_DEADLOCK FALSE
