SPECIFICATION Spec
CONSTANTS Cap = 6  W = 3  MaxTotal = 10  Dev = {}
INVARIANT NeverTooMuch
INVARIANT RoundTrips
INVARIANT Refuses
INVARIANT NoSilentCut
INVARIANT Export
CHECK_DEADLOCK FALSE
