SPECIFICATION Spec
CONSTANTS Dev = {"SegmentsShared"}
INVARIANT OwnToken
CHECK_DEADLOCK FALSE
