SPECIFICATION Spec
CONSTANTS Cap = 6  W = 3  MaxTotal = 10  Dev = {"OffByOne"}
INVARIANT NeverTooMuch
INVARIANT RoundTrips
INVARIANT Refuses
INVARIANT NoSilentCut
CHECK_DEADLOCK FALSE
