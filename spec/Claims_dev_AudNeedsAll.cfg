SPECIFICATION Spec
CONSTANTS LwSet = {2}  Dev = {"AudNeedsAll"}  Family = "single"
INVARIANT Sound
CHECK_DEADLOCK FALSE
