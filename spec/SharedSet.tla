----------------------------- MODULE SharedSet -----------------------------
(***************************************************************************)
(* Property C20 for a shared key set: one KeySet object is used by several *)
(* threads - one publishes it (KeySet.as_dict), others look keys up by kid *)
(* or pick a key for signing.  Publishing only reads the list of keys.     *)
(*   ExportSortsInPlace (deviation): the export orders the shared list in  *)
(*   place; while an in-place sort runs the list is detached, so a lookup  *)
(*   that happens in between sees a set without keys.                      *)
(* The schedules of this model are what harness/sched.py enumerates on the *)
(* real code for the pairs ks_export || ks_verify / ks_sign / ks_export.   *)
(***************************************************************************)
EXTENDS Naturals, FiniteSets, TLC

CONSTANTS Dev, Kids
ASSUME Dev \subseteq {"ExportSortsInPlace"}
Threads == {1, 2}
Ops == {"export", "lookup"}

VARIABLES op, pc, visible, result
vars == <<op, pc, visible, result>>

Init == /\ op \in [Threads -> Ops] /\ pc = [t \in Threads |-> "start"] /\ visible = Kids /\ result = [t \in Threads |-> "none"]
\* export: begin (the sort detaches the list), walk the keys, end (list attached again)
ExportBegin(t) == /\ op[t] = "export" /\ pc[t] = "start" /\ pc' = [pc EXCEPT ![t] = "walking"]
                  /\ visible' = (IF "ExportSortsInPlace" \in Dev THEN {} ELSE visible) /\ UNCHANGED <<op, result>>
ExportEnd(t) == /\ op[t] = "export" /\ pc[t] = "walking" /\ pc' = [pc EXCEPT ![t] = "done"]
                /\ visible' = Kids /\ result' = [result EXCEPT ![t] = "all"] /\ UNCHANGED op
Lookup(t) == /\ op[t] = "lookup" /\ pc[t] = "start" /\ pc' = [pc EXCEPT ![t] = "done"]
             /\ result' = [result EXCEPT ![t] = IF visible = Kids THEN "found" ELSE "missing"] /\ UNCHANGED <<op, visible>>
Next == \E t \in Threads : ExportBegin(t) \/ ExportEnd(t) \/ Lookup(t)
Spec == Init /\ [][Next]_vars

\* every call gives what it gives alone
AsInIsolation == \A t \in Threads : pc[t] = "done" => result[t] = (IF op[t] = "export" THEN "all" ELSE "found")
=============================================================================
