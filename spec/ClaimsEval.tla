----------------------------- MODULE ClaimsEval -----------------------------
(* TLC as a calculator (binding B2 for C10): the claims validations recorded from real executions - the repository's own    *)
(* test-suite under harness/tracer.py - are projected onto cases of Claims.tla by the harness (values as tagged records,     *)
(* times as half-second ticks relative to the registry's `now`); TLC evaluates the declarative acceptance rule (layer D,      *)
(* Allowed) on every recorded case and the harness compares it with what the real validate() call did.                       *)
EXTENDS Claims, IOUtils

In == JsonDeserialize(IOEnv.IN_FILE)
Out == [i \in 1..Len(In) |-> Allowed(In[i])]
ASSUME JsonSerialize(IOEnv.OUT_FILE, Out)
\* (Claims.tla declares variables, so TLC wants a behaviour specification: a single idle state)
EInit == case = 0 /\ pc = "idle" /\ idx = 0 /\ out = "idle"
ENext == FALSE /\ UNCHANGED vars
=============================================================================
