SPECIFICATION Spec
CONSTANTS LwSet = {0, 2, 4}  Dev = {}  Family = "single"
INVARIANT TypeOK
INVARIANT Sound
INVARIANT NeverLate
INVARIANT Export
CHECK_DEADLOCK FALSE
