---------------------------- MODULE HeaderCheck ----------------------------
(***************************************************************************)
(* Property C15: header parameters are validated when producing and when   *)
(* consuming.                                                               *)
(*                                                                         *)
(* A case is a minimal valid header for (side, mode, op, serialization)    *)
(* plus one focus parameter given a JSON type class at a header position,  *)
(* plus a shape of "crit", plus the registry configuration (strict on/off, *)
(* a caller-registered parameter "custom": int, optional or required).     *)
(* Layer D: Allowed(case) from the statement and the tables of JoseDefs.   *)
(* Layer O: the order in which the code's gates fire.                      *)
(***************************************************************************)
EXTENDS JoseDefs, TLC, Json

CONSTANTS Dev, Family
DevNames == {"CritNotChecked", "StrictIgnoredOnConsume", "CheckMoreNotPassed", "RequiredCustomIgnored",
             "B64CritNotRequired", "BoolIsInt", "TypesUncheckedInJson", "StopAtFirstUsable", "StaleHeaderSnapshot", "CallerOverrideIgnored",
             "ForeignAlgParamsRegistered"}
ASSUME Dev \subseteq DevNames

JT == {"absent", "str_ok", "str_bad", "int_pos", "int_zero", "int_neg", "float", "true", "false", "null",
       "list_empty", "list_str", "list_mixed", "list_nested", "obj_empty", "obj_ok"}

TypeOk(ty, c) ==
  CASE ty = "str"       -> c \in {"str_ok", "str_bad"}
    [] ty = "url"       -> c = "str_ok"            \* str_ok of a url parameter is an https URL, str_bad is not a URL
    [] ty = "int"       -> c \in {"int_pos", "int_zero", "int_neg"}
    [] ty = "bool"      -> c \in {"true", "false"}
    [] ty = "list[str]" -> c \in {"list_empty", "list_str"}
    [] ty = "jwk"       -> c \in {"obj_empty", "obj_ok"}
\* classes whose concrete representative is also semantically fine, so that the operation itself succeeds
GoodClass(ty) ==
  CASE ty = "str" -> {"str_ok"} [] ty = "url" -> {"str_ok"} [] ty = "int" -> {"int_pos"} [] ty = "bool" -> {"true", "false"}
    [] ty = "list[str]" -> {"list_str"} [] ty = "jwk" -> {"obj_ok"}

\* modes: the algorithm used by the case (one representative per family of algorithm-specific parameters)
Modes == {"jws", "jws7797", "kw", "gcmkw", "ecdh", "pbes2", "1pu"}
SideOf(m) == IF m \in {"jws", "jws7797"} THEN "jws" ELSE "jwe"
SersOf(m) == CASE m = "jws" -> {"compact", "flattened", "general"} [] m = "jws7797" -> {"compact", "flattened"}
               [] OTHER -> {"compact", "flattened", "general"}

\* caller registrations: a new name "custom" (int, optional or required), or the standard name "cty" re-registered as an int -
\* the caller's entry replaces the standard one of the same name
CustomP(kind) == CASE kind = "none" -> {} [] kind = "cty_int" -> {HP("cty", "int", FALSE)} [] OTHER -> {HP("custom", "int", kind = "req")}
\* (tables: TLC evaluates a constant definition once; the operators below are looked up several times per state)
Customs == {"none", "opt", "req", "cty_int"}
StdRegistry(m) == CASE m = "jws" -> JwsHeader [] m = "jws7797" -> Jws7797Header [] OTHER -> JweHeader \cup AlgHeader(m)
RegistryDef(m, custom) ==
  {h \in StdRegistry(m) : h.name \notin {c.name : c \in CustomP(custom)}} \cup CustomP(custom)
RegistryT == [m \in Modes |-> [cu \in Customs |-> RegistryDef(m, cu)]]
Registry(m, custom) == RegistryT[m][custom]
RegNamesT == [m \in Modes |-> [cu \in Customs |-> {h.name : h \in RegistryT[m][cu]}]]
RegNames(m, custom) == RegNamesT[m][custom]
ParamT == [m \in Modes |-> [cu \in Customs |-> [n \in RegNamesT[m][cu] |-> CHOOSE h \in RegistryT[m][cu] : h.name = n]]]
ParamOf(m, custom, n) == ParamT[m][custom][n]
AlgHeaderT == [m \in Modes |-> AlgHeader(m)]
\* parameters every case carries (with good values) besides the focus parameter
BaseNames(m, op) ==
  (IF SideOf(m) = "jws" THEN {"alg"} ELSE {"alg", "enc"})
  \cup (IF op = "consume" THEN {h.name : h \in {x \in AlgHeaderT[m] : x.required}} ELSE {})
  \cup (IF m = "pbes2" THEN {"p2c"} ELSE {})      \* the harness fixes a small iteration count

AllNames == {h.name : h \in Jws7797Header \cup JweHeader} \cup {"iv", "tag", "epk", "apu", "apv", "skid", "p2s", "p2c", "custom", "xyz"}

CritShapes == {"absent", "lists_focus", "lists_missing", "empty", "int", "str", "mixed", "nested"}

Positions(m, ser, p) ==
  IF p \in {"alg", "enc"} \/ ser = "compact" THEN {"protected"}
  ELSE IF SideOf(m) = "jws" THEN {"protected", "unprotected"}
  ELSE IF p = "zip" THEN {"protected"}
  ELSE {"protected", "unprotected", "recipient"}

\* General JSON JWE with two recipients (both usable with the caller's key): the focus parameter sits in the first or in
\* the second per-recipient header, and the registry either demands every recipient (default) or is content with any
RcpShapes(m, op, ser, pos) ==
  IF m \in {"kw", "gcmkw", "pbes2"} /\ op = "consume" /\ ser = "general" /\ pos = "recipient"
  THEN {"single", "first_all", "second_all", "first_any", "second_any"}
  \* producing with an encryption object that was already encrypted once (with a good header) and whose public header
  \* dictionaries were then edited in place to this case's header: the check is about the header as it is now
  ELSE IF SideOf(m) = "jwe" /\ op = "produce" /\ ser # "compact" THEN {"single", "reused_object"}
  ELSE {"single"}

Case(m, op, ser, strict, custom, p, c, pos, crit, rcp) ==
  [mode |-> m, op |-> op, ser |-> ser, strict |-> strict, custom |-> custom, p |-> p, c |-> c, pos |-> pos, crit |-> crit, rcp |-> rcp]

\* ------------------------------------------------------------------ layer D
Present(case, n) == (n = case.p /\ case.c # "absent") \/ (n # case.p /\ n \in BaseNames(case.mode, case.op))
                    \/ (n = "crit" /\ case.p # "crit" /\ case.crit # "absent")
ClassOf(case, n) == IF n = case.p THEN case.c ELSE "good"
Registered(case, n) == n \in RegNames(case.mode, case.custom)

RequiredMissing(case) ==
  \E h \in Registry(case.mode, case.custom) :
    /\ ~Present(case, h.name)
    /\ \/ (h.required /\ h \in (Registry(case.mode, case.custom) \ AlgHeaderT[case.mode]))
       \/ (h.required /\ h \in AlgHeaderT[case.mode] /\ case.op = "consume")

FocusIllTyped(case) == /\ case.c # "absent" /\ case.p # "crit" /\ Registered(case, case.p)
                       /\ ~TypeOk(ParamOf(case.mode, case.custom, case.p).type, case.c)
\* crit given through the crit dimension, or crit as the focus parameter with a class
CritBad(case) ==
  \/ case.p # "crit" /\ case.crit \in {"lists_missing", "int", "str", "mixed", "nested"}
  \/ case.p # "crit" /\ case.crit = "lists_focus" /\ case.c = "absent"
  \/ case.p = "crit" /\ case.c \notin {"absent", "list_empty", "list_str"}
  \/ case.p = "crit" /\ case.c = "list_str"          \* the representative list names a parameter that is not in the header
B64NeedsCrit(case) ==
  /\ case.mode = "jws7797" /\ case.p = "b64" /\ case.c # "absent" /\ case.crit # "lists_focus"
Unregistered(case) == case.strict /\ case.c # "absent" /\ ~Registered(case, case.p)

\* the other recipient of a two-recipient token carries no focus parameter: a required caller-registered parameter is
\* missing there, and a protected "crit" naming the focus parameter names something absent from that recipient's header
OtherRecipientLacks(case) ==
  case.rcp \notin {"single", "reused_object"} /\ (case.custom = "req" \/ (case.p # "crit" /\ case.crit = "lists_focus"))

Violated(case) == RequiredMissing(case) \/ FocusIllTyped(case) \/ CritBad(case) \/ B64NeedsCrit(case) \/ Unregistered(case)
                  \/ OtherRecipientLacks(case)

\* conditions hold but the concrete value (or an RFC rule outside C15) may still make the operation fail
Soft(case) ==
  \/ case.c # "absent" /\ Registered(case, case.p) /\ case.p # "crit"
       /\ case.c \notin GoodClass(ParamOf(case.mode, case.custom, case.p).type)
  \/ case.p # "crit" /\ case.crit = "empty"
  \/ case.p = "crit" /\ case.c = "list_empty"
  \/ case.crit = "lists_focus" /\ case.p \notin {"b64", "custom"}       \* crit naming a standard parameter (RFC 7515 4.1.11)
  \/ case.p \in {"b64"} /\ case.pos # "protected" /\ case.c # "absent"  \* unprotected b64: C01's business
  \/ case.p \in {"epk", "iv", "tag", "p2s", "p2c", "apu", "apv", "skid", "zip", "kid", "jwk"} /\ case.op = "produce" /\ case.c # "absent"
  \/ case.p \in {"apu", "apv", "skid", "zip", "kid"} /\ case.op = "consume" /\ case.c # "absent"
  \/ case.mode # "jws7797" /\ case.p = "b64" /\ case.c # "absent"

Allowed(case) == IF Violated(case) THEN {"fail"} ELSE IF Soft(case) THEN {"ok", "fail"} ELSE {"ok"}

\* ------------------------------------------------------------------ layer O: gate order of the code
VARIABLES case, pc, out
vars == <<case, pc, out>>

\* besides the registered names: an unknown name, and the parameters that only SOME algorithm families register (under any
\* other algorithm they are unregistered names like any other - "skid" belongs to ECDH-1PU alone)
AlgFamilyParams == {"epk", "p2c", "iv", "skid", "tag", "p2s", "apu"}
FocusParams(m) == RegNames(m, "opt") \cup {"xyz", "b64", "kid"} \cup (IF SideOf(m) = "jwe" THEN AlgFamilyParams ELSE {"epk", "p2c", "iv"})

\* the case space is enumerated by nested quantifiers (TLC never builds - and normalises - the product set)
InitCase(m) ==
  \E p \in FocusParams(m) : \E op \in {"produce", "consume"}, ser \in SersOf(m) : \E pos \in Positions(m, ser, p) :
    \E strict \in (IF p \in {"xyz", "custom", "b64", "epk"} THEN BOOLEAN ELSE {TRUE}),
       custom \in (IF p \in {"custom", "xyz"} THEN {"none", "opt", "req"} ELSE IF p = "cty" THEN {"none", "cty_int"} ELSE {"none"}),
       c \in JT, rcp \in RcpShapes(m, op, ser, pos),
       crit \in (IF p \in {"b64", "custom", "typ", "xyz"} THEN CritShapes ELSE {"absent"}) :
      case = Case(m, op, ser, strict, custom, p, c, pos, crit, rcp)

IsInitial == pc = (IF case.rcp \in {"second_all", "second_any"} THEN "other_rcp" ELSE "crit")
Init == /\ InitCase(Family) /\ IsInitial /\ out = "none"
Fail == pc' = "done" /\ out' = "fail" /\ UNCHANGED case
Goto(l) == pc' = l /\ UNCHANGED <<case, out>>

\* the recipient loop of _perform_decrypt reaches the focus recipient after another, usable one went through its own
\* (good) gates and key unwrapping; finding a content key there never ends the loop
OtherRecipient ==
  /\ pc = "other_rcp"
  /\ IF "StopAtFirstUsable" \in Dev /\ case.rcp = "second_any"
     THEN pc' = "done" /\ out' = "ok" /\ UNCHANGED case
     ELSE IF OtherRecipientLacks(case) THEN Fail ELSE Goto("crit")
OtherRecipientAfter ==
  /\ pc = "other_after"
  /\ IF "StopAtFirstUsable" \in Dev /\ case.rcp = "first_any" THEN Goto("operate")
     ELSE IF OtherRecipientLacks(case) THEN Fail ELSE Goto("operate")
\* check_crit_header (runs first; iterating a non-list raises as well)
CritFailsO ==
  \/ (case.p # "crit" /\ case.crit \in {"lists_missing", "int", "mixed", "nested", "str"})
  \/ (case.p # "crit" /\ case.crit = "lists_focus" /\ case.c = "absent")
  \/ (case.p = "crit" /\ case.c \notin {"absent", "list_empty"})
CheckCrit ==
  /\ pc = "crit"
  /\ IF "StaleHeaderSnapshot" \in Dev /\ case.rcp = "reused_object" THEN Goto("operate")     \* the gates look at the header of the first encryption
     ELSE IF "CritNotChecked" \notin Dev /\ CritFailsO THEN Fail ELSE Goto("b64")
\* rfc7797 registry: _safe_b64_header before the generic checks
CheckB64 ==
  /\ pc = "b64"
  /\ IF "B64CritNotRequired" \notin Dev /\ B64NeedsCrit(case) THEN Fail ELSE Goto("registry")
\* the registry the code consults (deviation: a caller's entry for a standard name loses against the standard entry)
RegistryO(m, custom) ==
  IF "CallerOverrideIgnored" \in Dev THEN StdRegistry(m) \cup {c \in CustomP(custom) : c.name \notin {h.name : h \in StdRegistry(m)}}
  ELSE Registry(m, custom)
ParamOfO(m, custom, n) == CHOOSE h \in RegistryO(m, custom) : h.name = n
\* validate_registry_header: required members, then types
TypeOkO(ty, c) == TypeOk(ty, c) \/ ("BoolIsInt" \in Dev /\ ty = "int" /\ c \in {"true", "false"})
CheckRegistry ==
  /\ pc = "registry"
  /\ LET base == RegistryO(case.mode, case.custom) \ AlgHeaderT[case.mode]
         missing == \E h \in base : h.required /\ ~Present(case, h.name)
                      /\ ~("RequiredCustomIgnored" \in Dev /\ h.name = "custom")
         illtyped == /\ case.c # "absent" /\ case.p \in {h.name : h \in base} /\ case.p # "crit"
                     /\ ~TypeOkO(ParamOfO(case.mode, case.custom, case.p).type, case.c)
                     /\ ~("TypesUncheckedInJson" \in Dev /\ case.ser # "compact" /\ case.pos # "protected")
     IN IF missing \/ illtyped THEN Fail ELSE Goto("more")
\* JWE: the algorithm's more_header_registry (required only with check_more, i.e. when consuming)
CheckMore ==
  /\ pc = "more"
  /\ LET more == AlgHeaderT[case.mode]
         missing == /\ case.op = "consume" /\ "CheckMoreNotPassed" \notin Dev
                    /\ \E h \in more : h.required /\ ~Present(case, h.name)
         illtyped == /\ case.c # "absent" /\ case.p \in {h.name : h \in more}
                     /\ ~TypeOkO(ParamOfO(case.mode, case.custom, case.p).type, case.c)
     IN IF missing \/ illtyped THEN Fail ELSE Goto("strict")
CheckStrict ==
  /\ pc = "strict"
  /\ IF Unregistered(case) /\ ~("StrictIgnoredOnConsume" \in Dev /\ case.op = "consume")
        /\ ~("ForeignAlgParamsRegistered" \in Dev /\ case.p \in AlgFamilyParams)      \* one algorithm's table leaks into another's
     THEN Fail
     ELSE Goto(IF case.rcp \in {"first_all", "first_any"} THEN "other_after" ELSE "operate")
\* the operation proper: succeeds when every value is a good representative; may fail otherwise
Operate ==
  /\ pc = "operate"
  /\ \E o \in (IF Soft(case) THEN {"ok", "fail"} ELSE {"ok"}) : pc' = "done" /\ out' = o /\ UNCHANGED case

Next == OtherRecipient \/ OtherRecipientAfter \/ CheckCrit \/ CheckB64 \/ CheckRegistry \/ CheckMore \/ CheckStrict \/ Operate
Spec == Init /\ [][Next]_vars

Sound == pc = "done" => out \in Allowed(case)
\* the gates are also complete: a header violating a condition never reaches the operation
NoViolatedOperates == pc = "operate" => ~Violated(case)
Export == IsInitial => PrintT("CASE " \o ToJson([c |-> case, allowed |-> Allowed(case)]))
=============================================================================
