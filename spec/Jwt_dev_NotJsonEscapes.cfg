SPECIFICATION Spec
CONSTANTS Dev = {"NotJsonEscapes"}
INVARIANT OnlyObjects
INVARIANT InvalidPayload
INVARIANT IntegrityFirst
INVARIANT Faithful
INVARIANT TypDefault
INVARIANT HeaderUntouched
CHECK_DEADLOCK FALSE
