SPECIFICATION Spec
CONSTANTS MaxOps = 4  Dev = {"FirstKeyFallback"}
INVARIANT ResolvesCurrentSet
CHECK_DEADLOCK FALSE
