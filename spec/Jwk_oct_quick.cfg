SPECIFICATION Spec
CONSTANTS MaxOps = 3  Dev = {}  Kty = "oct"  ExportEvery = 1
INVARIANT PublicClean
INVARIANT PrivateOnPublicIsError
INVARIANT NoPrivateGain
INVARIANT PrivateKept
INVARIANT KidStable
INVARIANT Export
CHECK_DEADLOCK FALSE
