SPECIFICATION Spec
CONSTANTS LwSet = {2}  Dev = {"EssentialNullAccepted"}  Family = "single"
INVARIANT Sound
CHECK_DEADLOCK FALSE
