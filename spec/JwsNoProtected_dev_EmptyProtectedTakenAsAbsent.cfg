SPECIFICATION Spec
CONSTANTS Dev = {"EmptyProtectedTakenAsAbsent"}
INVARIANT OnlyAsSigned
CHECK_DEADLOCK FALSE
