SPECIFICATION Spec
CONSTANTS Dev = {}  Family = "kw"
INVARIANT Sound
INVARIANT NoViolatedOperates
INVARIANT Export
CHECK_DEADLOCK FALSE
