SPECIFICATION Spec
CONSTANTS LwSet = {2}  Dev = {"ValuesAsValue"}  Family = "single"
INVARIANT Sound
CHECK_DEADLOCK FALSE
