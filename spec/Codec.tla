------------------------------- MODULE Codec -------------------------------
(***************************************************************************)
(* Octet-level codecs of joserfc.util / joserfc.rfc7518.util (property C19) *)
(* and the helpers every byte-exact module (Wire.tla) builds on.           *)
(*                                                                         *)
(* Octet strings are Seq(0..255); text is a sequence of ASCII codes.       *)
(* All operators are index-based function constructors: recursive          *)
(* definitions overflow TLC's stack at a few hundred elements.             *)
(* TLC integers are 32 bit, so unbounded integers are represented by their *)
(* big-endian octet strings ("limbs"); the canonical form of a number is   *)
(* the string without leading zero octets.                                 *)
(***************************************************************************)
EXTENDS Naturals, Sequences, FiniteSets, TLC

Byte == 0..255

Min(a, b) == IF a < b THEN a ELSE b
Max(a, b) == IF a > b THEN a ELSE b

\* ---------------------------------------------------------------- sequences
SubSeqSafe(s, a, b) == IF a > b THEN <<>> ELSE [i \in 1..(b - a + 1) |-> s[a + i - 1]]
Cat(a, b) == [i \in 1..(Len(a) + Len(b)) |-> IF i <= Len(a) THEN a[i] ELSE b[i - Len(a)]]
Cat3(a, b, c) == Cat(Cat(a, b), c)
Cat4(a, b, c, d) == Cat(Cat(a, b), Cat(c, d))
Cat5(a, b, c, d, e) == Cat(Cat4(a, b, c, d), e)
Zeros(n) == [i \in 1..n |-> 0]
Take(s, n) == SubSeqSafe(s, 1, Min(n, Len(s)))
Drop(s, n) == SubSeqSafe(s, n + 1, Len(s))

\* number of leading zero octets
LeadingZeros(s) ==
  IF \A i \in 1..Len(s) : s[i] = 0 THEN Len(s)
  ELSE (CHOOSE i \in 1..Len(s) : s[i] # 0 /\ \A j \in 1..(i - 1) : s[j] = 0) - 1

\* canonical (minimal) unsigned big-endian form of the number denoted by s
Minimal(s) == Drop(s, LeadingZeros(s))

\* fixed width w (octets) big-endian form; defined only when the number fits
FitsWidth(s, w) == Len(Minimal(s)) <= w
FixedWidth(s, w) == LET m == Minimal(s) IN Cat(Zeros(w - Len(m)), m)

\* big-endian encodings of small naturals (fit TLC's ints)
U32(n) == << (n \div 16777216) % 256, (n \div 65536) % 256, (n \div 256) % 256, n % 256 >>
U64(n) == Cat(<<0, 0, 0, 0>>, U32(n))

\* ---------------------------------------------------------------- base64url
\* alphabet index (0..63) -> ASCII code
Code(i) == IF i < 26 THEN 65 + i
           ELSE IF i < 52 THEN 97 + (i - 26)
           ELSE IF i < 62 THEN 48 + (i - 52)
           ELSE IF i = 62 THEN 45 ELSE 95

\* ASCII code -> alphabet index, 64 when the character is not in the alphabet
Idx(c) == IF c \in 65..90 THEN c - 65
          ELSE IF c \in 97..122 THEN c - 97 + 26
          ELSE IF c \in 48..57 THEN c - 48 + 52
          ELSE IF c = 45 THEN 62
          ELSE IF c = 95 THEN 63 ELSE 64

InAlphabet(c) == Idx(c) < 64

EncLen(n) == 4 * (n \div 3) + (IF n % 3 = 0 THEN 0 ELSE (n % 3) + 1)

\* RFC 4648 section 5 without padding
B64Enc(s) ==
  LET n == Len(s)
      At(i) == IF i <= n THEN s[i] ELSE 0
      Sextet(j) ==
        LET k == (j - 1) \div 4
            p == (j - 1) % 4
            b0 == At(3 * k + 1)
            b1 == At(3 * k + 2)
            b2 == At(3 * k + 3)
        IN CASE p = 0 -> b0 \div 4
             [] p = 1 -> (b0 % 4) * 16 + (b1 \div 16)
             [] p = 2 -> (b1 % 16) * 4 + (b2 \div 64)
             [] p = 3 -> b2 % 64
  IN [j \in 1..EncLen(n) |-> Code(Sextet(j))]

DecLen(m) == 3 * (m \div 4) + (IF m % 4 = 0 THEN 0 ELSE (m % 4) - 1)

\* value of an alphabet-only text whose length is not 1 mod 4 (trailing bits dropped)
B64DecVal(t) ==
  LET m == Len(t)
      At(i) == IF i <= m THEN Idx(t[i]) ELSE 0
      Octet(j) ==
        LET k == (j - 1) \div 3
            p == (j - 1) % 3
            c0 == At(4 * k + 1)
            c1 == At(4 * k + 2)
            c2 == At(4 * k + 3)
            c3 == At(4 * k + 4)
        IN CASE p = 0 -> c0 * 4 + (c1 \div 16)
             [] p = 1 -> (c1 % 16) * 16 + (c2 \div 4)
             [] p = 2 -> (c2 % 4) * 64 + c3
  IN [j \in 1..DecLen(m) |-> Octet(j)]

\* number of trailing '=' characters
TrailingPads(t) ==
  IF \A i \in 1..Len(t) : t[i] = 61 THEN Len(t)
  ELSE Len(t) - (CHOOSE i \in 1..Len(t) : t[i] # 61 /\ \A j \in (i + 1)..Len(t) : t[j] = 61)

\* What the strict decoder of property C19 must do with text t:
\*   "value"    - must return B64DecVal(t)
\*   "reject"   - must raise a ValueError
\*   "dontcare" - trailing '=' padding, or non-canonical trailing bits: either, but if a
\*                value is returned it is B64DecVal of the text without its padding
B64Class(t) ==
  LET p == TrailingPads(t)
      core == Take(t, Len(t) - p)
      alpha == \A i \in 1..Len(core) : InAlphabet(core[i])
  IN IF ~alpha THEN "reject"
     ELSE IF p > 0 THEN "dontcare"
     ELSE IF Len(t) % 4 = 1 THEN "reject"
     ELSE IF B64Enc(B64DecVal(t)) = t THEN "value" ELSE "dontcare"

B64Core(t) == Take(t, Len(t) - TrailingPads(t))

\* ---------------------------------------------------------------- integers in JWKs
\* int_to_base64: positive integer (given by any big-endian form) -> text
IntToB64(s) == B64Enc(Minimal(s))
\* base64_to_int: text -> canonical form of the number
B64ToInt(t) == Minimal(B64DecVal(t))

\* ASCII of a TLA+ string cannot be computed by TLC; callers pass octets.
=============================================================================
