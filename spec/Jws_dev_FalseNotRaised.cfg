SPECIFICATION Spec
CONSTANTS MaxEdits = 2  Dev = {"FalseNotRaised"}  RawMode = FALSE
INVARIANT AuthOnly
CHECK_DEADLOCK FALSE
