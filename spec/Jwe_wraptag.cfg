SPECIFICATION Spec
CONSTANTS MaxEdits = 2  Dev = {}  Mode = "wrap"  TagBound = TRUE
INVARIANT AuthPlain
INVARIANT RoundTrip
INVARIANT Export
CHECK_DEADLOCK FALSE
