SPECIFICATION Spec
CONSTANTS Family = "jws"  MaxCalls = 2  Dev = {"JsonConsumeSkipsGate"}
INVARIANT Sound
INVARIANT NoneNeverVerifies
CHECK_DEADLOCK FALSE
