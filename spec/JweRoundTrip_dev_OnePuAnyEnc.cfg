SPECIFICATION Spec
CONSTANTS Dev = {"OnePuAnyEnc"}  Family = "multi"
INVARIANT RoundTripOrRefused
INVARIANT NothingEmitted
CHECK_DEADLOCK FALSE
