------------------------------ MODULE PickTable ------------------------------
(***************************************************************************)
(* Properties C14 / C20 for the table that KeySet.pick_random_key consults *)
(* when a token is produced with a key set and no kid: ONE ROW PER         *)
(* ALGORITHM NAME (every JWS and every JWE key-management algorithm of     *)
(* JoseDefs, the RFC 8037 / 8812 names and the drafts included), each      *)
(* naming the key types the algorithm takes.  KeySel.tla reasons with one  *)
(* representative algorithm per key type; here every row is walked, over   *)
(* histories of calls in one process, because the table is class-level     *)
(* state shared by every key set and every thread.                         *)
(* The key set of a call holds one key of every type - the EC and OKP keys *)
(* on the curve, the oct key of the size, the algorithm needs - so exactly *)
(* the keys of the row's types are candidates and the call must succeed,   *)
(* with a key of a type the algorithm takes, whatever was called before.   *)
(*   RowNamesOtherType (deviation): one row names another algorithm's type *)
(*   RowSpentByUse (deviation): one row is a one-shot iterator             *)
(***************************************************************************)
EXTENDS JoseDefs, Naturals, Sequences, TLC, Json

CONSTANTS Dev, MaxCalls, BadRow
ASSUME Dev \subseteq {"RowNamesOtherType", "RowSpentByUse"}
Names == (JwsNames \ {"none"}) \cup JweAlgNames
Types == {"oct", "RSA", "EC", "OKP"}
KtysOf(a) == IF a \in JwsNames THEN {JwsOf(a).kty} ELSE JweAlgOf(a).ktys

VARIABLES table, hist
vars == <<table, hist>>
Init == /\ table = [a \in Names |-> IF "RowNamesOtherType" \in Dev /\ a = BadRow THEN Types \ KtysOf(a) ELSE KtysOf(a)]
        /\ hist = <<>>
Produce(a) ==
  /\ Len(hist) < MaxCalls
  /\ LET cands == table[a]           \* the set holds one key of every type
     IN \E used \in (IF cands = {} THEN {"none"} ELSE cands) :
          hist' = Append(hist, [alg |-> a, used |-> used, out |-> IF used \in KtysOf(a) THEN "ok" ELSE "fail"])
  /\ table' = IF "RowSpentByUse" \in Dev /\ a = BadRow THEN [table EXCEPT ![a] = {}] ELSE table
Next == \E a \in Names : Produce(a)
Spec == Init /\ [][Next]_vars

EveryRowServes == \A i \in 1..Len(hist) : hist[i].out = "ok"
Export == Len(hist) = MaxCalls => PrintT("CASE " \o ToJson([i \in 1..Len(hist) |-> hist[i].alg]))
=============================================================================
