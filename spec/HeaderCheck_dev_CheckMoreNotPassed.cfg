SPECIFICATION Spec
CONSTANTS Dev = {"CheckMoreNotPassed"}  Family = "ecdh"
INVARIANT Sound
INVARIANT NoViolatedOperates
CHECK_DEADLOCK FALSE
