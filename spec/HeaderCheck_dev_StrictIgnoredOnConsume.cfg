SPECIFICATION Spec
CONSTANTS Dev = {"StrictIgnoredOnConsume"}  Family = "jws"
INVARIANT Sound
INVARIANT NoViolatedOperates
CHECK_DEADLOCK FALSE
