SPECIFICATION Spec
CONSTANTS Dev = {}  Family = "1pu"
INVARIANT Sound
INVARIANT NoViolatedOperates
INVARIANT Export
CHECK_DEADLOCK FALSE
