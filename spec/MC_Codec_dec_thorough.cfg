SPECIFICATION Spec
CONSTANTS Mode = "dec"  MaxLen = 5
 Chars = {65, 81, 119, 57, 45, 95, 43, 47, 61, 32, 0, 128, 46}
INVARIANT DecTotal
INVARIANT DecValueCanon
INVARIANT DecExport
CHECK_DEADLOCK FALSE
