SPECIFICATION Spec
CONSTANTS MaxEdits = 2  Dev = {"SiblingAlgorithmVerifies"}  RawMode = FALSE
INVARIANT AuthOnly
CHECK_DEADLOCK FALSE
