SPECIFICATION Spec
CONSTANTS Dev = {"DirectMultiAllowed"}  Family = "multi"
INVARIANT RoundTripOrRefused
INVARIANT NothingEmitted
CHECK_DEADLOCK FALSE
