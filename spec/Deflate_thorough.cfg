SPECIFICATION Spec
CONSTANTS Cap = 9  W = 4  MaxTotal = 14  Dev = {}
INVARIANT NeverTooMuch
INVARIANT RoundTrips
INVARIANT Refuses
INVARIANT NoSilentCut
INVARIANT Export
CHECK_DEADLOCK FALSE
