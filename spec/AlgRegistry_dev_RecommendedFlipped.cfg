SPECIFICATION Spec
CONSTANTS Family = "jws"  MaxCalls = 2  Dev = {"RecommendedFlipped"}
INVARIANT Sound
INVARIANT NoneNeverVerifies
CHECK_DEADLOCK FALSE
