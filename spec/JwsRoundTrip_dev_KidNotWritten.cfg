SPECIFICATION Spec
CONSTANTS Dev = {"KidNotWritten"}
INVARIANT RoundTrip
INVARIANT KidRecorded
PROPERTY DetachKeeps
CHECK_DEADLOCK FALSE
