SPECIFICATION Spec
CONSTANTS Dev = {}
  MaxOps = 4
INVARIANT ByItsOwnHeader
INVARIANT Export
CHECK_DEADLOCK FALSE
