SPECIFICATION Spec
CONSTANTS Family = "jwealg"  MaxCalls = 1  Dev = {}
INVARIANT Sound
INVARIANT NoneNeverVerifies
INVARIANT Export
CHECK_DEADLOCK FALSE
