SPECIFICATION Spec
CONSTANTS MaxEdits = 2  Dev = {"EmptyListVerifies"}  RawMode = FALSE
INVARIANT AuthOnly
CHECK_DEADLOCK FALSE
