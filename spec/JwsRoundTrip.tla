---------------------------- MODULE JwsRoundTrip ----------------------------
(***************************************************************************)
(* Property C03 (and the scenario space of C07): attacker-free life cycle  *)
(* of a JWS:  Sign -> [Detach -> Restore] -> Verify.                       *)
(*                                                                         *)
(* A scenario fixes serialization, the b64 option, where the header        *)
(* members are placed, the class of payload octets, how the key is given   *)
(* (key / key set / callable) and in which representation it was loaded.   *)
(* The token is abstract: protected header H, unprotected header U, payload *)
(* text T (or "detached"), signature S(H, body) - S is injective.          *)
(***************************************************************************)
EXTENDS Naturals, Sequences, FiniteSets, TLC, Json

CONSTANTS Dev
DevNames == {"DetachDropsSignature", "KidNotWritten", "RawPayloadEncoded", "UnsafeAttached", "EmptyProtectedSigned"}
ASSUME Dev \subseteq DevNames

Sers == {"compact", "flattened", "general"}
B64s == {"absent", "true", "false"}
\* split: alg protected, the rest unprotected; unprotected_empty: "protected": {} given explicitly - an empty protected header
\* is not carried ("protected" member absent, RFC 7515 7.2.1), so it must not enter the signing input either
Places == {"protected", "split", "unprotected", "unprotected_empty"}
PClasses == {"empty", "ascii", "urlsafe", "dot", "binary", "utf8", "large"}
KeyArgs == {"key", "keyset", "callable"}
KeyForms == {"jwk", "pem", "der"}

\* can the payload travel inside the token when b64=false?
\*  compact: only URL-safe characters may be attached, anything else is detached and supplied again at verification;
\*  JSON: the payload member is a JSON string, so the octets must be text; binary octets cannot be represented
UrlSafe(pc) == pc \in {"urlsafe"}
TextLike(pc) == pc \in {"ascii", "urlsafe", "dot", "utf8", "large"}
Entry(sc) == IF sc.b64 = "absent" THEN "jws" ELSE "7797"
Valid(sc) ==
  /\ (sc.ser = "compact" => sc.place = "protected")
  /\ (sc.b64 # "absent" => sc.ser # "general")                 \* rfc7797.serialize_json is flattened only
  /\ (sc.ser = "compact" => sc.place = "protected")
  /\ (sc.b64 # "absent" => sc.place \notin {"unprotected", "unprotected_empty"})           \* b64 is given in the protected header here (see C01 for the other case)
\* "exact": the round trip must return the payload; "exact_or_refuse": the combination cannot be represented,
\* the library may refuse but must never return different content
Expect(sc) ==
  IF sc.b64 = "false" /\ sc.ser # "compact" /\ ~TextLike(sc.pc) THEN "exact_or_refuse"
  ELSE IF sc.b64 = "false" /\ sc.pc = "empty" THEN "exact_or_refuse"
  ELSE "exact"

VARIABLES sc, phase, tok, orig, verdict
vars == <<sc, phase, tok, orig, verdict>>

Scn(ser, b64, place, pc, ka, kf, det) == [ser |-> ser, b64 |-> b64, place |-> place, pc |-> pc, keyarg |-> ka, keyform |-> kf, detach |-> det]

Init ==
  /\ phase = "sign" /\ tok = [h |-> "none", u |-> "none", body |-> "none", sig |-> <<"none">>] /\ orig = tok /\ verdict = "none"
  /\ \E ser \in Sers, b64 \in B64s, place \in Places, pc \in PClasses, ka \in KeyArgs, kf \in KeyForms, det \in BOOLEAN :
       /\ sc = Scn(ser, b64, place, pc, ka, kf, det)
       /\ Valid(sc)
       /\ (det => b64 = "absent")          \* jws.detach_content is the RFC 7515 appendix F operation

\* header as signed: the caller's members, plus the kid of the key picked from a key set
SignedHeader == IF sc.keyarg \in {"keyset", "callable"} /\ "KidNotWritten" \notin Dev THEN "H+kid" ELSE "H"
\* the text signed and carried
BodyText == IF sc.b64 = "false" /\ "RawPayloadEncoded" \notin Dev THEN "raw" ELSE "b64"
Attached == \/ sc.ser # "compact" \/ sc.b64 # "false" \/ UrlSafe(sc.pc) \/ "UnsafeAttached" \in Dev

Sign ==
  /\ phase = "sign"
  /\ tok' = [h |-> SignedHeader, u |-> IF sc.place = "protected" THEN "none" ELSE "U",
             body |-> IF Attached THEN BodyText ELSE "detached",
             sig |-> <<"S", IF sc.place = "unprotected_empty" /\ "EmptyProtectedSigned" \in Dev THEN "e30" ELSE SignedHeader, BodyText>>]
  /\ orig' = tok'
  /\ phase' = IF sc.detach THEN "detach" ELSE "verify"
  /\ UNCHANGED <<sc, verdict>>

Detach ==
  /\ phase = "detach"
  /\ tok' = [tok EXCEPT !.body = "detached", !.sig = IF "DetachDropsSignature" \in Dev THEN <<"none">> ELSE tok.sig]
  /\ phase' = "restore" /\ UNCHANGED <<sc, orig, verdict>>

Restore ==
  /\ phase = "restore"
  /\ tok' = [tok EXCEPT !.body = orig.body]
  /\ phase' = "verify" /\ UNCHANGED <<sc, orig, verdict>>

\* the verifier recomputes S over the received header and the body text (supplied out of band when detached)
Verify ==
  /\ phase = "verify"
  /\ LET mode == IF sc.b64 = "false" THEN "raw" ELSE "b64"
         unsafe == tok.body # "detached" /\ sc.ser = "compact" /\ mode = "raw" /\ ~UrlSafe(sc.pc)   \* '.' etc. break the segments
     IN verdict' = IF tok.sig = <<"S", tok.h, mode>> /\ ~unsafe THEN "ok" ELSE "reject"
  /\ phase' = "done" /\ UNCHANGED <<sc, tok, orig>>

Next == Sign \/ Detach \/ Restore \/ Verify
Spec == Init /\ [][Next]_vars

RoundTrip == phase = "done" /\ Expect(sc) = "exact" => verdict = "ok"
KidRecorded == phase = "done" /\ sc.keyarg # "key" => tok.h = "H+kid"
DetachKeeps == [][phase = "detach" => tok'.h = tok.h /\ tok'.u = tok.u /\ tok'.sig = tok.sig]_vars
Export == phase = "sign" => PrintT("CASE " \o ToJson([sc |-> sc, entry |-> Entry(sc), expect |-> Expect(sc)]))
=============================================================================
