SPECIFICATION Spec
CONSTANTS Dev = {"TypesUncheckedInJson"}  Family = "jws"
INVARIANT Sound
INVARIANT NoViolatedOperates
CHECK_DEADLOCK FALSE
