SPECIFICATION Spec
CONSTANTS Dev = {}  Side = "jwe"  MaxSet = 3
INVARIANT Sound
INVARIANT RightKey
INVARIANT Export
CHECK_DEADLOCK FALSE
