SPECIFICATION Spec
CONSTANTS Dev = {}
INVARIANT OwnToken
INVARIANT Export
CHECK_DEADLOCK FALSE
