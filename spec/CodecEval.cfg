
