------------------------------ MODULE SharedSeq ------------------------------
(***************************************************************************)
(* Property C20 (history part): the outcome of a call depends only on its  *)
(* own arguments.  Abstract state: what earlier calls left behind in the   *)
(* shared key (view built?, kid assigned?).  Isolated(op) is the outcome   *)
(* on fresh objects; the documented exception is the lazily assigned kid,  *)
(* which a later view may contain.  Every call of every history must       *)
(* return Isolated(op) up to that exception.                               *)
(***************************************************************************)
EXTENDS Naturals, Sequences, TLC, Json
CONSTANTS MaxLen, Dev
Ops == {"ensure_kid", "thumbprint", "as_dict_pub", "as_dict", "keyset_new", "get_kid", "sign", "sign2", "sign_ks", "verify", "verify2", "encrypt", "encrypt2", "decrypt", "decrypt2", "decrypt_zip", "decrypt_zip_over", "verify_forged", "ks_export", "ks_verify", "ks_sign", "sign_raw", "verify_raw_unlisted", "reg_ecdh", "reg_foreign_name", "sigkey_view", "sigkey_misuse", "pem_plain", "pem_password", "encrypt_c20p", "encrypt_xc20p"}
VARIABLES view, kid, hist, cache
vars == <<view, kid, hist, cache>>
Init == view = FALSE /\ kid = FALSE /\ hist = <<>> /\ cache = "none"
\* outcome class of a call; "content" outcomes never depend on view/kid
Outcome(op) == CASE op \in {"ensure_kid", "keyset_new"} -> "kid"
                 [] op = "get_kid" -> (IF kid THEN "kid" ELSE "none")
                 [] op \in {"as_dict", "as_dict_pub"} -> (IF kid THEN "view+kid" ELSE "view")
                 [] op = "verify" /\ "VerdictCached" \in Dev /\ cache # "none" -> cache
                 [] OTHER -> "content"
Isolated(op) == CASE op \in {"ensure_kid", "keyset_new"} -> {"kid"}
                  [] op = "get_kid" -> {"none", "kid"}                 \* lazily assigned kid: documented exception
                  [] op \in {"as_dict", "as_dict_pub"} -> {"view", "view+kid"}
                  [] OTHER -> {"content"}
Call(op) ==
  /\ Len(hist) < MaxLen
  /\ hist' = Append(hist, [op |-> op, out |-> Outcome(op)])
  /\ view' = (view \/ op \notin {"verify", "verify2", "sign_ks"})
  /\ kid' = (kid \/ op \in {"ensure_kid", "keyset_new"})
  /\ cache' = IF op = "sign" THEN "stale" ELSE cache
Next == \E op \in Ops : Call(op)
Spec == Init /\ [][Next]_vars
Independent == \A i \in 1..Len(hist) : hist[i].out \in Isolated(hist[i].op)
Export == Len(hist) = MaxLen => PrintT("CASE " \o ToJson([i \in 1..Len(hist) |-> hist[i].op]))
=============================================================================
