SPECIFICATION Spec
CONSTANTS MaxOps = 3  Dev = {}  Kty = "RSA"  ExportEvery = 16
INVARIANT PublicClean
INVARIANT PrivateOnPublicIsError
INVARIANT NoPrivateGain
INVARIANT PrivateKept
INVARIANT KidStable
INVARIANT Export
CHECK_DEADLOCK FALSE
