SPECIFICATION Spec
CONSTANTS MaxEdits = 2  Dev = {"UnprotectedAlgTrusted"}  RawMode = FALSE
INVARIANT AuthOnly
CHECK_DEADLOCK FALSE
