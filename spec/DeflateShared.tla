--------------------------- MODULE DeflateShared ---------------------------
(***************************************************************************)
(* Property C17 under concurrency (and C20 for the zip model): the DEF     *)
(* model registered in JWERegistry is ONE object shared by every registry, *)
(* call and thread.  A decompress call is two steps - inflate with an      *)
(* output limit, then decide between "plaintext" and "exceeded" from the   *)
(* inflater's leftover state - and other calls may run in between.  The    *)
(* inflater state belongs to the call.  Deviation InflaterOnModel keeps it *)
(* on the shared model object: a call then judges another call's inflater. *)
(* Schedules of this model are what harness/sched.py enumerates on the     *)
(* real code (one preemption at every source line of either call).         *)
(***************************************************************************)
EXTENDS Naturals, FiniteSets, TLC

CONSTANTS Dev, Cap
ASSUME Dev \subseteq {"InflaterOnModel"}
Threads == {1, 2}
Totals == {Cap - 1, Cap, Cap + 1, Cap + 300}          \* expanded size of each call's stream

VARIABLES total, pc, own, shared, verdict
vars == <<total, pc, own, shared, verdict>>

\* leftover state of an inflater that was given a stream expanding to n octets: does anything remain (input or pending output)?
Leftover(n) == n > Cap

Init == /\ total \in [Threads -> Totals]
        /\ pc = [t \in Threads |-> "start"] /\ own = [t \in Threads |-> FALSE] /\ shared = FALSE
        /\ verdict = [t \in Threads |-> "none"]
Inflate(t) == /\ pc[t] = "start" /\ pc' = [pc EXCEPT ![t] = "inflated"]
              /\ own' = [own EXCEPT ![t] = Leftover(total[t])]
              /\ shared' = IF "InflaterOnModel" \in Dev THEN Leftover(total[t]) ELSE shared
              /\ UNCHANGED <<total, verdict>>
Decide(t) == /\ pc[t] = "inflated" /\ pc' = [pc EXCEPT ![t] = "done"]
             /\ LET left == IF "InflaterOnModel" \in Dev THEN shared ELSE own[t]
                IN verdict' = [verdict EXCEPT ![t] = IF left THEN "exceeded" ELSE "plaintext"]
             /\ UNCHANGED <<total, own, shared>>
Next == \E t \in Threads : Inflate(t) \/ Decide(t)
Spec == Init /\ [][Next]_vars

\* every call decides as it would alone
AsInIsolation == \A t \in Threads : pc[t] = "done" => verdict[t] = (IF total[t] > Cap THEN "exceeded" ELSE "plaintext")
=============================================================================
