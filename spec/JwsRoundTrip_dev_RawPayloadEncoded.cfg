SPECIFICATION Spec
CONSTANTS Dev = {"RawPayloadEncoded"}
INVARIANT RoundTrip
INVARIANT KidRecorded
PROPERTY DetachKeeps
CHECK_DEADLOCK FALSE
