SPECIFICATION Spec
CONSTANTS Dev = {"InflaterOnModel"}  Cap = 4
INVARIANT AsInIsolation
CHECK_DEADLOCK FALSE
