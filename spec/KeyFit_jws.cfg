SPECIFICATION Spec
CONSTANTS Dev = {}  Family = "jws"
INVARIANT Sound
INVARIANT OnlySuitable
INVARIANT Export
CHECK_DEADLOCK FALSE
