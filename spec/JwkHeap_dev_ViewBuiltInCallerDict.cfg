SPECIFICATION Spec
CONSTANTS MaxOps = 5  Dev = {"ViewBuiltInCallerDict"}
INVARIANT NoLeak
CHECK_DEADLOCK FALSE
