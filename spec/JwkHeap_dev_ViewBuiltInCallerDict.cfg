SPECIFICATION Spec
CONSTANTS MaxOps = 5  Dev = {"ViewBuiltInCallerDict"}
INVARIANT NoLeak
INVARIANT KidIsOwn
CHECK_DEADLOCK FALSE
