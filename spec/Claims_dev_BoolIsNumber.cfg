SPECIFICATION Spec
CONSTANTS LwSet = {2}  Dev = {"BoolIsNumber"}  Family = "single"
INVARIANT Sound
CHECK_DEADLOCK FALSE
