SPECIFICATION Spec
CONSTANTS Dev = {"PickAnyType"}  Side = "jws"  MaxSet = 2
INVARIANT Sound
INVARIANT RightKey
CHECK_DEADLOCK FALSE
