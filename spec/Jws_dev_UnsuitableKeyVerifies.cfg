SPECIFICATION Spec
CONSTANTS MaxEdits = 2  Dev = {"UnsuitableKeyVerifies"}  RawMode = FALSE
INVARIANT AuthOnly
CHECK_DEADLOCK FALSE
