
