SPECIFICATION Spec
CONSTANTS MaxOps = 4  Dev = {"MemoisedPick"}
INVARIANT ResolvesCurrentSet
INVARIANT PicksFromCurrentSet
CHECK_DEADLOCK FALSE
