------------------------------ MODULE JoseDefs ------------------------------
(***************************************************************************)
(* The *documented* tables of JOSE as implemented by joserfc, written from  *)
(* RFC 7515-7519, 7638, 7797, 8037, 8812, the ECDH-1PU and ChaCha drafts   *)
(* and joserfc's documentation - not read from the code.  Every other      *)
(* module takes its algorithm / header / key facts from here, and the      *)
(* harness loads the same tables (exported by TLC, DefsExport.tla).        *)
(***************************************************************************)
EXTENDS Naturals, Sequences, FiniteSets

\* ------------------------------------------------------------------ JWS algorithms
\* fam: mac / rsa / pss / ec / okp / none ; kty: required key type ; crv: required curve ("" = n/a)
JwsAlg(n, fam, kty, crv, hash, rec) == [name |-> n, fam |-> fam, kty |-> kty, crv |-> crv, hash |-> hash, rec |-> rec]
JwsAlgs == {
  JwsAlg("none",   "none", "oct", "",          "",       FALSE),
  JwsAlg("HS256",  "mac",  "oct", "",          "sha256", TRUE),
  JwsAlg("HS384",  "mac",  "oct", "",          "sha384", FALSE),
  JwsAlg("HS512",  "mac",  "oct", "",          "sha512", FALSE),
  JwsAlg("RS256",  "rsa",  "RSA", "",          "sha256", TRUE),
  JwsAlg("RS384",  "rsa",  "RSA", "",          "sha384", FALSE),
  JwsAlg("RS512",  "rsa",  "RSA", "",          "sha512", FALSE),
  JwsAlg("ES256",  "ec",   "EC",  "P-256",     "sha256", TRUE),
  JwsAlg("ES384",  "ec",   "EC",  "P-384",     "sha384", FALSE),
  JwsAlg("ES512",  "ec",   "EC",  "P-521",     "sha512", FALSE),
  JwsAlg("ES256K", "ec",   "EC",  "secp256k1", "sha256", FALSE),
  JwsAlg("PS256",  "pss",  "RSA", "",          "sha256", FALSE),
  JwsAlg("PS384",  "pss",  "RSA", "",          "sha384", FALSE),
  JwsAlg("PS512",  "pss",  "RSA", "",          "sha512", FALSE),
  JwsAlg("EdDSA",  "okp",  "OKP", "",          "",       FALSE) }
JwsNames == {a.name : a \in JwsAlgs}
JwsRecommended == {a.name : a \in {x \in JwsAlgs : x.rec}}
JwsOf(n) == CHOOSE a \in JwsAlgs : a.name = n

\* ------------------------------------------------------------------ JWE key management
\* mode: rsa / kw / gcmkw / dir / pbes2 / ecdh (direct agreement) / ecdhkw / 1pu / 1pukw
\* ktys: acceptable key types ; bits: exact symmetric key size (0 = n/a) ; draft: "" or the registration needed
JweAlg(n, mode, ktys, bits, rec, draft) == [name |-> n, mode |-> mode, ktys |-> ktys, bits |-> bits, rec |-> rec, draft |-> draft]
JweAlgs == {
  JweAlg("RSA1_5",             "rsa",    {"RSA"},       0,   FALSE, ""),
  JweAlg("RSA-OAEP",           "rsa",    {"RSA"},       0,   TRUE,  ""),
  JweAlg("RSA-OAEP-256",       "rsa",    {"RSA"},       0,   FALSE, ""),
  JweAlg("A128KW",             "kw",     {"oct"},       128, TRUE,  ""),
  JweAlg("A192KW",             "kw",     {"oct"},       192, FALSE, ""),
  JweAlg("A256KW",             "kw",     {"oct"},       256, TRUE,  ""),
  JweAlg("dir",                "dir",    {"oct"},       0,   TRUE,  ""),
  JweAlg("ECDH-ES",            "ecdh",   {"EC", "OKP"}, 0,   TRUE,  ""),
  JweAlg("ECDH-ES+A128KW",     "ecdhkw", {"EC", "OKP"}, 128, TRUE,  ""),
  JweAlg("ECDH-ES+A192KW",     "ecdhkw", {"EC", "OKP"}, 192, FALSE, ""),
  JweAlg("ECDH-ES+A256KW",     "ecdhkw", {"EC", "OKP"}, 256, TRUE,  ""),
  JweAlg("A128GCMKW",          "gcmkw",  {"oct"},       128, FALSE, ""),
  JweAlg("A192GCMKW",          "gcmkw",  {"oct"},       192, FALSE, ""),
  JweAlg("A256GCMKW",          "gcmkw",  {"oct"},       256, FALSE, ""),
  JweAlg("PBES2-HS256+A128KW", "pbes2",  {"oct"},       0,   FALSE, ""),
  JweAlg("PBES2-HS384+A192KW", "pbes2",  {"oct"},       0,   FALSE, ""),
  JweAlg("PBES2-HS512+A256KW", "pbes2",  {"oct"},       0,   FALSE, ""),
  JweAlg("ECDH-1PU",           "1pu",    {"EC", "OKP"}, 0,   FALSE, "1pu"),
  JweAlg("ECDH-1PU+A128KW",    "1pukw",  {"EC", "OKP"}, 128, FALSE, "1pu"),
  JweAlg("ECDH-1PU+A192KW",    "1pukw",  {"EC", "OKP"}, 192, FALSE, "1pu"),
  JweAlg("ECDH-1PU+A256KW",    "1pukw",  {"EC", "OKP"}, 256, FALSE, "1pu") }
JweAlgNames == {a.name : a \in JweAlgs}
JweAlgOf(n) == CHOOSE a \in JweAlgs : a.name = n
DirectModes == {"dir", "ecdh", "1pu"}

\* ------------------------------------------------------------------ JWE content encryption / zip
JweEnc(n, fam, cek, iv, tag, rec, draft) == [name |-> n, fam |-> fam, cek |-> cek, iv |-> iv, tag |-> tag, rec |-> rec, draft |-> draft]
JweEncs == {
  JweEnc("A128CBC-HS256", "cbc",    256, 128, 128, TRUE,  ""),
  JweEnc("A192CBC-HS384", "cbc",    384, 128, 192, TRUE,  ""),
  JweEnc("A256CBC-HS512", "cbc",    512, 128, 256, TRUE,  ""),
  JweEnc("A128GCM",       "gcm",    128, 96,  128, TRUE,  ""),
  JweEnc("A192GCM",       "gcm",    192, 96,  128, TRUE,  ""),
  JweEnc("A256GCM",       "gcm",    256, 96,  128, TRUE,  ""),
  JweEnc("C20P",          "chacha", 256, 96,  128, FALSE, "chacha"),
  JweEnc("XC20P",         "chacha", 256, 192, 128, FALSE, "chacha") }
JweEncNames == {a.name : a \in JweEncs}
JweEncOf(n) == CHOOSE a \in JweEncs : a.name = n
JweZips == {[name |-> "DEF", rec |-> TRUE, draft |-> ""]}
JweZipNames == {"DEF"}

Drafts == {"1pu", "chacha"}
\* names usable in JWE once the drafts in `reg` have been registered
JweSupported(reg) == {a.name : a \in {x \in JweAlgs \cup JweEncs \cup JweZips : x.draft = "" \/ x.draft \in reg}}
JweRecommended == {a.name : a \in {x \in JweAlgs \cup JweEncs \cup JweZips : x.rec}}

\* ------------------------------------------------------------------ header parameter registry
\* type: str / int / bool / url / list[str] / jwk ; where: which registries know the name
HP(n, ty, req) == [name |-> n, type |-> ty, required |-> req]
CommonHeader == {HP("alg", "str", TRUE), HP("jku", "url", FALSE), HP("jwk", "jwk", FALSE), HP("kid", "str", FALSE),
                 HP("x5u", "url", FALSE), HP("x5c", "list[str]", FALSE), HP("x5t", "str", FALSE), HP("x5t#S256", "str", FALSE),
                 HP("typ", "str", FALSE), HP("cty", "str", FALSE), HP("crit", "list[str]", FALSE)}
JwsHeader == CommonHeader
Jws7797Header == CommonHeader \cup {HP("b64", "bool", FALSE)}
JweHeader == CommonHeader \cup {HP("enc", "str", TRUE), HP("zip", "str", FALSE)}
\* algorithm-specific parameters (required ones are enforced when consuming)
AlgHeader(mode) ==
  CASE mode = "gcmkw" -> {HP("iv", "str", TRUE), HP("tag", "str", TRUE)}
    [] mode \in {"ecdh", "ecdhkw"} -> {HP("epk", "jwk", TRUE), HP("apu", "str", FALSE), HP("apv", "str", FALSE)}
    [] mode \in {"1pu", "1pukw"} -> {HP("epk", "jwk", TRUE), HP("apu", "str", FALSE), HP("apv", "str", FALSE), HP("skid", "str", FALSE)}
    [] mode = "pbes2" -> {HP("p2s", "str", TRUE), HP("p2c", "int", TRUE)}
    [] OTHER -> {}

\* ------------------------------------------------------------------ JWK members
\* per kty: required public members, private members
JwkRequired(kty) == CASE kty = "oct" -> {"k"} [] kty = "RSA" -> {"n", "e"} [] kty = "EC" -> {"crv", "x", "y"} [] kty = "OKP" -> {"crv", "x"}
JwkPrivate(kty) == CASE kty = "oct" -> {"k"} [] kty = "RSA" -> {"d", "p", "q", "dp", "dq", "qi", "oth"} [] kty = "EC" -> {"d"} [] kty = "OKP" -> {"d"}
EcCurves == {"P-256", "P-384", "P-521", "secp256k1"}
EcCoordLen(crv) == CASE crv = "P-256" -> 32 [] crv = "P-384" -> 48 [] crv = "P-521" -> 66 [] crv = "secp256k1" -> 32
OkpCurves == {"Ed25519", "Ed448", "X25519", "X448"}
OkpLen(crv) == CASE crv = "Ed25519" -> 32 [] crv = "Ed448" -> 57 [] crv = "X25519" -> 32 [] crv = "X448" -> 56
SignCurves == {"Ed25519", "Ed448"}
ExchangeCurves == {"X25519", "X448"}

\* key operations (RFC 7517 section 4.3): use they belong to, and whether private material is needed
KeyOps == {[op |-> "sign", use |-> "sig", private |-> TRUE], [op |-> "verify", use |-> "sig", private |-> FALSE],
           [op |-> "encrypt", use |-> "enc", private |-> FALSE], [op |-> "decrypt", use |-> "enc", private |-> TRUE],
           [op |-> "wrapKey", use |-> "enc", private |-> FALSE], [op |-> "unwrapKey", use |-> "enc", private |-> TRUE],
           [op |-> "deriveKey", use |-> "enc", private |-> FALSE], [op |-> "deriveBits", use |-> "enc", private |-> FALSE]}
=============================================================================
