SPECIFICATION Spec
CONSTANTS Dev = {"PublicKeyDecrypts"}  Family = "jwe"
INVARIANT Sound
INVARIANT OnlySuitable
CHECK_DEADLOCK FALSE
