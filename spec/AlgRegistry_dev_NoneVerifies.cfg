SPECIFICATION Spec
CONSTANTS Family = "history"  MaxCalls = 2  Dev = {"NoneVerifies"}
INVARIANT Sound
INVARIANT NoneNeverVerifies
CHECK_DEADLOCK FALSE
