-------------------------------- MODULE Jwt --------------------------------
(***************************************************************************)
(* Property C09: JWT encode/decode is faithful and yields only JSON-object *)
(* claims.                                                                  *)
(*                                                                         *)
(* Encode: header' = {typ: JWT} overridden by the caller's members, the    *)
(* caller's header object is not touched, claims are serialized (datetime  *)
(* exp/nbf/iat as NumericDate) and carried by the JWS or JWE transport.    *)
(* Decode: the transport's integrity check comes first (its verdict is the *)
(* subject of C01/C02 and abstract here), then the payload must be a JSON  *)
(* object: anything else is an invalid-payload error.                      *)
(***************************************************************************)
EXTENDS Naturals, Sequences, FiniteSets, TLC, Json

CONSTANTS Dev
DevNames == {"NonObjectClaims", "TypAlwaysJWT", "HeaderMutated", "PayloadBeforeIntegrity", "NotJsonEscapes"}
ASSUME Dev \subseteq DevNames

Transports == {"jws", "jwe"}
Typs == {"absent", "JWT", "other"}
KeyArgs == {"key", "keyset"}
\* what the payload octets are, as JSON
PayloadClasses == {"object", "empty_object", "array", "string", "number", "true", "false", "null", "notjson", "empty", "notutf8"}
IsObject(p) == p \in {"object", "empty_object"}

VARIABLES sc, phase, token, callerHdr, outcome
vars == <<sc, phase, token, callerHdr, outcome>>

Scn(tr, typ, ka, pc, tampered, made) == [tr |-> tr, typ |-> typ, keyarg |-> ka, payload |-> pc, tampered |-> tampered, madeby |-> made]

Init ==
  /\ phase = "encode" /\ token = [typ |-> "none", kid |-> FALSE, payload |-> "none", intact |-> TRUE] /\ outcome = "none"
  /\ \E tr \in Transports, typ \in Typs, ka \in KeyArgs, pc \in PayloadClasses, t \in BOOLEAN, mb \in {"library", "forge"} :
       /\ (mb = "library" => IsObject(pc))          \* jwt.encode only takes a claims object; other payloads are forged by an independent signer
       /\ sc = Scn(tr, typ, ka, pc, t, mb)
  /\ callerHdr = sc.typ

Encode ==
  /\ phase = "encode"
  /\ token' = [typ |-> IF sc.typ = "absent" \/ "TypAlwaysJWT" \in Dev THEN "JWT" ELSE sc.typ,
               kid |-> sc.keyarg = "keyset", payload |-> sc.payload, intact |-> TRUE]
  /\ callerHdr' = IF "HeaderMutated" \in Dev /\ sc.madeby = "library" /\ sc.typ = "absent" THEN "JWT" ELSE callerHdr
  /\ phase' = "wire" /\ UNCHANGED <<sc, outcome>>

Tamper ==
  /\ phase = "wire"
  /\ token' = [token EXCEPT !.intact = ~sc.tampered]
  /\ phase' = "decode" /\ UNCHANGED <<sc, callerHdr, outcome>>

Decode ==
  /\ phase = "decode"
  /\ LET parseFails == token.payload \in {"notjson", "empty", "notutf8"}
         payloadVerdict == IF parseFails THEN (IF "NotJsonEscapes" \in Dev THEN "escape" ELSE "invalid_payload")
                           ELSE IF IsObject(token.payload) \/ "NonObjectClaims" \in Dev THEN "claims" ELSE "invalid_payload"
     IN outcome' = IF "PayloadBeforeIntegrity" \in Dev /\ payloadVerdict = "invalid_payload" THEN "invalid_payload"
                   ELSE IF ~token.intact THEN "integrity_error" ELSE payloadVerdict
  /\ phase' = "done" /\ UNCHANGED <<sc, token, callerHdr>>

Next == Encode \/ Tamper \/ Decode
Spec == Init /\ [][Next]_vars

OnlyObjects == phase = "done" /\ outcome = "claims" => token.intact /\ IsObject(token.payload)
InvalidPayload == phase = "done" /\ token.intact /\ ~IsObject(token.payload) => outcome = "invalid_payload"
IntegrityFirst == phase = "done" /\ ~token.intact => outcome = "integrity_error"
Faithful == phase = "done" /\ token.intact /\ IsObject(token.payload) => outcome = "claims"
TypDefault == phase \in {"wire", "decode", "done"} => token.typ = (IF sc.typ = "absent" THEN "JWT" ELSE sc.typ)
HeaderUntouched == callerHdr = sc.typ
Export == phase = "encode" => PrintT("CASE " \o ToJson(sc))
=============================================================================
