-------------------------------- MODULE Jwt --------------------------------
(***************************************************************************)
(* Property C09: JWT encode/decode is faithful and yields only JSON-object *)
(* claims.                                                                  *)
(*                                                                         *)
(* Encode: header' = {typ: JWT} overridden by the caller's members, the    *)
(* caller's header object is not touched, claims are serialized (datetime  *)
(* exp/nbf/iat as NumericDate) and carried by the JWS or JWE transport.    *)
(* Decode: the transport's integrity check comes first (its verdict is the *)
(* subject of C01/C02 and abstract here), then the payload must be a JSON  *)
(* object: anything else is an invalid-payload error.  The header handed   *)
(* back is the one on the wire: the key argument of decode (a key, or a    *)
(* key set holding it) adds nothing to it.                                  *)
(***************************************************************************)
EXTENDS Naturals, Sequences, FiniteSets, TLC, Json

CONSTANTS Dev
DevNames == {"NonObjectClaims", "TypAlwaysJWT", "HeaderMutated", "PayloadBeforeIntegrity", "NotJsonEscapes", "DecodeWritesKid"}
ASSUME Dev \subseteq DevNames

Transports == {"jws", "jwe"}
Typs == {"absent", "JWT", "other"}
KeyArgs == {"key", "keyset"}
\* what the payload octets are, as JSON
PayloadClasses == {"object", "empty_object", "array", "string", "number", "true", "false", "null", "notjson", "empty", "notutf8"}
IsObject(p) == p \in {"object", "empty_object"}

VARIABLES sc, phase, token, callerHdr, outcome, retKid
vars == <<sc, phase, token, callerHdr, outcome, retKid>>

\* keyarg: what encode is given (a key set writes its key's kid into the header); deckey: what decode is given
Scn(tr, typ, ka, dk, pc, tampered, made) == [tr |-> tr, typ |-> typ, keyarg |-> ka, deckey |-> dk, payload |-> pc, tampered |-> tampered, madeby |-> made]

Init ==
  /\ phase = "encode" /\ token = [typ |-> "none", kid |-> FALSE, payload |-> "none", intact |-> TRUE] /\ outcome = "none"
  /\ retKid = "none"
  /\ \E tr \in Transports, typ \in Typs, ka \in KeyArgs, dk \in KeyArgs, pc \in PayloadClasses, t \in BOOLEAN, mb \in {"library", "forge"} :
       /\ (mb = "library" => IsObject(pc))          \* jwt.encode only takes a claims object; other payloads are forged by an independent signer
       /\ sc = Scn(tr, typ, ka, dk, pc, t, mb)
  /\ callerHdr = sc.typ

Encode ==
  /\ phase = "encode"
  /\ token' = [typ |-> IF sc.typ = "absent" \/ "TypAlwaysJWT" \in Dev THEN "JWT" ELSE sc.typ,
               kid |-> sc.keyarg = "keyset", payload |-> sc.payload, intact |-> TRUE]
  /\ callerHdr' = IF "HeaderMutated" \in Dev /\ sc.madeby = "library" /\ sc.typ = "absent" THEN "JWT" ELSE callerHdr
  /\ phase' = "wire" /\ UNCHANGED <<sc, outcome, retKid>>

Tamper ==
  /\ phase = "wire"
  /\ token' = [token EXCEPT !.intact = ~sc.tampered]
  /\ phase' = "decode" /\ UNCHANGED <<sc, callerHdr, outcome, retKid>>

Decode ==
  /\ phase = "decode"
  /\ LET parseFails == token.payload \in {"notjson", "empty", "notutf8"}
         payloadVerdict == IF parseFails THEN (IF "NotJsonEscapes" \in Dev THEN "escape" ELSE "invalid_payload")
                           ELSE IF IsObject(token.payload) \/ "NonObjectClaims" \in Dev THEN "claims" ELSE "invalid_payload"
     IN outcome' = IF "PayloadBeforeIntegrity" \in Dev /\ payloadVerdict = "invalid_payload" THEN "invalid_payload"
                   ELSE IF ~token.intact THEN "integrity_error" ELSE payloadVerdict
  /\ retKid' = IF "DecodeWritesKid" \in Dev /\ sc.deckey = "keyset" THEN "yes" ELSE (IF token.kid THEN "yes" ELSE "no")
  /\ phase' = "done" /\ UNCHANGED <<sc, token, callerHdr>>

Next == Encode \/ Tamper \/ Decode
Spec == Init /\ [][Next]_vars

OnlyObjects == phase = "done" /\ outcome = "claims" => token.intact /\ IsObject(token.payload)
InvalidPayload == phase = "done" /\ token.intact /\ ~IsObject(token.payload) => outcome = "invalid_payload"
IntegrityFirst == phase = "done" /\ ~token.intact => outcome = "integrity_error"
Faithful == phase = "done" /\ token.intact /\ IsObject(token.payload) => outcome = "claims"
TypDefault == phase \in {"wire", "decode", "done"} => token.typ = (IF sc.typ = "absent" THEN "JWT" ELSE sc.typ)
HeaderUntouched == callerHdr = sc.typ
HeaderAsOnWire == phase = "done" /\ outcome = "claims" => retKid = (IF token.kid THEN "yes" ELSE "no")
Export == phase = "encode" => PrintT("CASE " \o ToJson(sc))
=============================================================================
