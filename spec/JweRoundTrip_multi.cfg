SPECIFICATION Spec
CONSTANTS Dev = {}  Family = "multi"
INVARIANT RoundTripOrRefused
INVARIANT NothingEmitted
INVARIANT Export
CHECK_DEADLOCK FALSE
