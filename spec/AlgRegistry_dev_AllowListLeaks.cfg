SPECIFICATION Spec
CONSTANTS Family = "history"  MaxCalls = 2  Dev = {"AllowListLeaks"}
INVARIANT Sound
INVARIANT NoneNeverVerifies
CHECK_DEADLOCK FALSE
