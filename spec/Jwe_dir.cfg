SPECIFICATION Spec
CONSTANTS MaxEdits = 2  Dev = {}  Mode = "dir"  TagBound = FALSE
INVARIANT AuthPlain
INVARIANT RoundTrip
INVARIANT Export
CHECK_DEADLOCK FALSE
