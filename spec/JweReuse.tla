------------------------------ MODULE JweReuse ------------------------------
(***************************************************************************)
(* Properties C04 / C08 (and C18 for the IV) over the life of ONE JSON     *)
(* encryption object: it is encrypted, its public members (protected       *)
(* header, AAD) are edited, it is encrypted again; or it comes out of      *)
(* decrypt_json (a forwarding proxy) and is encrypted again.  Whatever the *)
(* history, a produced token is self-consistent: the octets that were      *)
(* authenticated are the octets that are serialized, and the members the   *)
(* key management generated (epk, iv/tag of the key wrap, ...) belong to   *)
(* the key material used for THIS encryption.                              *)
(* Versions are counters: hdr/aad = which edit of the caller is current,   *)
(* run = which encryption.                                                 *)
(***************************************************************************)
EXTENDS Naturals, Sequences, TLC, Json

CONSTANTS Dev, MaxOps
DevNames == {"StaleAuthenticatedData", "GeneratedMembersKept", "IvKept"}
ASSUME Dev \subseteq DevNames

VARIABLES hdr, aad, run, stored, origin, hist, tokens
vars == <<hdr, aad, run, stored, origin, hist, tokens>>
\* stored: what the object remembers from the last encrypt / parse: [hdr, aad, run] or "none"
NoStore == [hdr |-> 0, aad |-> 0, run |-> 0, some |-> FALSE]

Init == /\ origin \in {"built", "parsed"} /\ hdr = 1 /\ aad = 1 /\ run = 0
        /\ stored = IF origin = "parsed" THEN [hdr |-> 1, aad |-> 1, run |-> 0, some |-> TRUE] ELSE NoStore
        /\ hist = <<>> /\ tokens = <<>>

Encrypt ==
  /\ Len(hist) < MaxOps
  /\ LET r == run + 1
         stale == "StaleAuthenticatedData" \in Dev /\ stored.some
         tok == [run |-> r,
                 wireHdr |-> hdr, wireAad |-> aad,
                 authHdr |-> IF stale THEN stored.hdr ELSE hdr, authAad |-> IF stale THEN stored.aad ELSE aad,
                 genRun |-> IF "GeneratedMembersKept" \in Dev /\ stored.some THEN stored.run ELSE r,
                 ivRun |-> IF "IvKept" \in Dev /\ stored.some THEN stored.run ELSE r]
     IN /\ tokens' = Append(tokens, tok) /\ run' = r
        /\ stored' = [hdr |-> tok.authHdr, aad |-> tok.authAad, run |-> tok.genRun, some |-> TRUE]
  /\ hist' = Append(hist, "encrypt") /\ UNCHANGED <<hdr, aad, origin>>
EditHeader == /\ Len(hist) < MaxOps /\ hdr' = hdr + 1 /\ hist' = Append(hist, "edit_header") /\ UNCHANGED <<aad, run, stored, origin, tokens>>
EditAad == /\ Len(hist) < MaxOps /\ aad' = aad + 1 /\ hist' = Append(hist, "edit_aad") /\ UNCHANGED <<hdr, run, stored, origin, tokens>>
Next == Encrypt \/ EditHeader \/ EditAad
Spec == Init /\ [][Next]_vars

SelfConsistent == \A i \in 1..Len(tokens) :
   LET t == tokens[i] IN t.authHdr = t.wireHdr /\ t.authAad = t.wireAad /\ t.genRun = t.run /\ t.ivRun = t.run
Export == (Len(hist) = MaxOps /\ hist[MaxOps] = "encrypt") => PrintT("CASE " \o ToJson([origin |-> origin, hist |-> hist]))
=============================================================================
