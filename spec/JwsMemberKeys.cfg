SPECIFICATION Spec
CONSTANTS Dev = {}
  MaxMembers = 2
INVARIANT EachUnderItsOwnKey
INVARIANT HonestVerifies
INVARIANT Export
CHECK_DEADLOCK FALSE
