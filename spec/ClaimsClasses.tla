---------------------------- MODULE ClaimsClasses ----------------------------
(***************************************************************************)
(* Property C10 over histories that involve registry objects of DIFFERENT  *)
(* CLASSES in one process: a plain ClaimsRegistry (requested values only,  *)
(* no built-in rules) and a JWTClaimsRegistry (exp / nbf / iat judged      *)
(* against now and leeway).  Which built-in rule judges a claim is decided *)
(* by the class of the registry asked, at every call; what another         *)
(* registry did earlier is nobody else's.                                   *)
(*   HooksSharedAcrossClasses (deviation): the per-claim rule is looked up *)
(*   once per claim NAME and remembered for all classes.                    *)
(***************************************************************************)
EXTENDS Naturals, Sequences, FiniteSets, TLC, Json

CONSTANTS Dev, MaxCalls
ASSUME Dev \subseteq {"HooksSharedAcrossClasses"}
Classes == {"plain", "jwt"}
Timed == {"exp", "nbf", "iat"}
\* a call: the class of the registry asked, the timed claim the set carries and whether its value passes the built-in rule
Calls == [cls : Classes, name : Timed, value : {"passes", "fails"}]

VARIABLES hist, hooks
vars == <<hist, hooks>>
Fresh(c) == IF c.cls = "jwt" /\ c.value = "fails" THEN "refused" ELSE "ok"
Init == hist = <<>> /\ hooks = [n \in Timed |-> "unset"]
Validate ==
  /\ Len(hist) < MaxCalls
  /\ \E c \in Calls :
       LET owner == IF "HooksSharedAcrossClasses" \in Dev /\ hooks[c.name] # "unset" THEN hooks[c.name] ELSE c.cls
       IN /\ hist' = Append(hist, [call |-> c, verdict |-> Fresh([c EXCEPT !.cls = owner])])
          /\ hooks' = IF hooks[c.name] = "unset" THEN [hooks EXCEPT ![c.name] = c.cls] ELSE hooks
Spec == Init /\ [][Validate]_vars
AsOnFreshRegistry == \A i \in 1..Len(hist) : hist[i].verdict = Fresh(hist[i].call)
Export == Len(hist) = MaxCalls => PrintT("CASE " \o ToJson(hist))
=============================================================================
