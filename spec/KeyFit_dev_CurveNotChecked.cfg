SPECIFICATION Spec
CONSTANTS Dev = {"CurveNotChecked"}  Family = "jwe"
INVARIANT Sound
INVARIANT OnlySuitable
CHECK_DEADLOCK FALSE
