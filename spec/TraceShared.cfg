SPECIFICATION TSpec
CONSTANTS Threads = {1, 2}  Ops = {"view", "ensure_kid", "read_kid", "iterate"}  Dev = {}  MaxDicts = 4
CONSTRAINT Track
INVARIANT KidNeverLost
INVARIANT ReadersSeeKid
INVARIANT NoFailure
POSTCONDITION Accepted
CHECK_DEADLOCK FALSE
