SPECIFICATION Spec
INVARIANT Sane
INVARIANT Export
CHECK_DEADLOCK FALSE
