SPECIFICATION Spec
CONSTANTS LwSet = {2}  Dev = {"BlankDefaultAllowed"}  Family = "single"
INVARIANT Sound
CHECK_DEADLOCK FALSE
