#!/bin/sh
# usage: seedtest.sh <seed-dir> <CHECK...>   - confirm a seeded change (demo + baseline) and run the named checks against it
d="$1"; shift
[ -z "$(git -C /repo status --porcelain)" ] || { echo "repo dirty"; exit 2; }
echo "== demo on clean tree"; PYTHONPATH=/repo/src /venv/bin/python "$d/demo.py" >/dev/null 2>&1; echo "rc=$?"
git -C /repo apply "$d/patch.diff" || { echo "patch does not apply"; exit 2; }
git -C /repo diff --stat | tail -1
echo "== demo on changed tree"; PYTHONPATH=/repo/src /venv/bin/python "$d/demo.py" 2>&1 | tail -3; 
PYTHONPATH=/repo/src /venv/bin/python "$d/demo.py" >/dev/null 2>&1; echo "rc=$?"
echo "== baseline"; /verif/baseline.sh | tail -2
for c in "$@"; do echo "== check $c"; /verif/check $c 2>/dev/null | grep -v "^VIOLATION\|^KNOWN" | tail -3; echo "rc=$?"; done
git -C /repo checkout -- . ; git -C /repo status --porcelain
